//! Running real qp-plonky2 circuits on honest *and adversarial* witnesses, through public APIs only.
//!
//! * `generate_with_overrides` re-implements `iop::generator::generate_partial_witness` with one change:
//!   the values a generator produced may be rewritten (by generator id + occurrence index) before they
//!   are committed to the partition witness. A copy-constraint conflict surfaces as `Err` exactly as
//!   in the real prover ("set twice with different values").
//! * `CircuitEval::gate_violations` evaluates every gate's constraints on every row of the resulting
//!   witness (constants by FFT of the constant polynomials). The real prover does not do this (it
//!   would emit a proof that fails verification); we need it to classify a witness as accepting.
//! * `Outcome::Accept(pis)` / `Outcome::Reject` is the observation compared with the Coq model
//!   (`hon` for honest runs, `chk` for overridden hint streams).
use anyhow::{anyhow, Result};
use plonky2::field::types::{Field, PrimeField64};
use plonky2::hash::hash_types::HashOut;
use plonky2::iop::generator::GeneratedValues;
use plonky2::iop::target::Target;
use plonky2::iop::witness::{PartialWitness, PartitionWitness, Witness, WitnessWrite};
use plonky2::plonk::circuit_data::CircuitData;
use plonky2::plonk::config::{GenericConfig, Hasher};
use plonky2::plonk::vars::EvaluationVarsBaseBatch;
use std::collections::HashMap;
pub use zk_circuits_common::circuit::{C, D, F};

/// A rewrite of generator outputs: called as `tweak(generator id, occurrence among same-id generators in
/// builder order, witness so far, (target, value) pairs about to be committed)`.
pub type Tweak<'t> = dyn FnMut(&str, usize, &PartitionWitness<F>, &mut Vec<(Target, F)>) + 't;

pub fn no_tweak() -> impl FnMut(&str, usize, &PartitionWitness<F>, &mut Vec<(Target, F)>) {
    |_: &str, _: usize, _: &PartitionWitness<F>, _: &mut Vec<(Target, F)>| {}
}

pub struct CircuitEval<'a> {
    pub data: &'a CircuitData<F, C, D>,
    /// const_vals[row][j]
    const_vals: Vec<Vec<F>>,
    /// occurrence index of each generator among those with the same id
    occ: Vec<usize>,
    pub gen_ids: Vec<String>,
}

#[derive(Clone, Debug, PartialEq, Eq)]
pub enum Outcome {
    Accept(Vec<u64>),
    /// witness generation failed (copy-constraint conflict, generator error)
    RejectGen(String),
    /// witness generated but `n` rows violate a gate constraint
    RejectGate(usize),
}
impl Outcome {
    pub fn accepted(&self) -> bool {
        matches!(self, Outcome::Accept(_))
    }
    /// canonical encoding: [1, pis...] or [0]
    pub fn enc(&self) -> Vec<i128> {
        match self {
            Outcome::Accept(p) => std::iter::once(1i128).chain(p.iter().map(|&x| x as i128)).collect(),
            _ => vec![0],
        }
    }
}

impl<'a> CircuitEval<'a> {
    pub fn new(data: &'a CircuitData<F, C, D>) -> Self {
        let common = &data.common;
        let po = &data.prover_only;
        let degree = common.degree();
        let nconst = common.num_constants;
        let mut cols: Vec<Vec<F>> = Vec::with_capacity(nconst);
        for j in 0..nconst {
            let mut poly = po.constants_sigmas_commitment.polynomials[j].clone();
            poly.coeffs.truncate(degree);
            while poly.coeffs.len() < degree {
                poly.coeffs.push(F::ZERO);
            }
            cols.push(poly.fft().values);
        }
        let mut const_vals = vec![vec![F::ZERO; nconst]; degree];
        for j in 0..nconst {
            for r in 0..degree {
                const_vals[r][j] = cols[j][r];
            }
        }
        let mut seen: HashMap<String, usize> = HashMap::new();
        let mut occ = Vec::with_capacity(po.generators.len());
        let mut gen_ids = Vec::with_capacity(po.generators.len());
        for g in &po.generators {
            let id = g.0.id();
            let e = seen.entry(id.clone()).or_insert(0);
            occ.push(*e);
            *e += 1;
            gen_ids.push(id);
        }
        CircuitEval { data, const_vals, occ, gen_ids }
    }

    /// ordered ids of the hint-allocating generators (fingerprint of the circuit's gadget calls)
    pub fn hint_fingerprint(&self) -> Vec<String> {
        self.gen_ids
            .iter()
            .filter(|id| id.starts_with("EqualityGenerator") || id.starts_with("LowHighGenerator") || id.starts_with("WireSplitGenerator"))
            .cloned()
            .collect()
    }
    pub fn count_gen(&self, prefix: &str) -> usize {
        self.gen_ids.iter().filter(|id| id.starts_with(prefix)).count()
    }

    pub fn generate_with_overrides(&self, inputs: PartialWitness<F>, tweak: &mut Tweak<'_>) -> Result<PartitionWitness<'a, F>> {
        let po = &self.data.prover_only;
        let common = &self.data.common;
        let generators = &po.generators;
        let mut w = PartitionWitness::new(common.config.num_wires, common.degree(), &po.representative_map);
        for (t, v) in inputs.target_values.into_iter() {
            w.set_target(t, v)?;
        }
        let mut pending: Vec<usize> = (0..generators.len()).collect();
        let mut expired = vec![false; generators.len()];
        let mut remaining = generators.len();
        let mut buf = GeneratedValues::empty();
        while !pending.is_empty() {
            let mut next = Vec::new();
            for &gi in &pending {
                if expired[gi] {
                    continue;
                }
                let finished = generators[gi].0.run(&w, &mut buf);
                if finished {
                    expired[gi] = true;
                    remaining -= 1;
                }
                let mut vals: Vec<(Target, F)> = buf.target_values.drain(..).collect();
                if !vals.is_empty() {
                    tweak(&self.gen_ids[gi], self.occ[gi], &w, &mut vals);
                }
                let mut reps = Vec::with_capacity(vals.len());
                for (t, v) in vals {
                    let r = w.set_target_returning_rep(t, v)?;
                    reps.extend(r);
                }
                for r in reps {
                    if let Some(ws) = po.generator_indices_by_watches.get(&r) {
                        for &k in ws {
                            if !expired[k] {
                                next.push(k);
                            }
                        }
                    }
                }
            }
            pending = next;
        }
        if remaining != 0 {
            return Err(anyhow!("{} generators weren't run", remaining));
        }
        Ok(w)
    }

    /// number of rows on which some gate constraint is non-zero
    pub fn gate_violations(&self, w: &PartitionWitness<F>) -> usize {
        let common = &self.data.common;
        let po = &self.data.prover_only;
        let degree = common.degree();
        let num_wires = common.config.num_wires;
        let pis: Vec<F> = po.public_inputs.iter().map(|&t| w.try_get_target(t).unwrap_or(F::ZERO)).collect();
        let pih: HashOut<F> = <<C as GenericConfig<D>>::InnerHasher as Hasher<F>>::hash_no_pad(&pis);
        let mut bad = 0usize;
        let mut wires = vec![F::ZERO; num_wires];
        for row in 0..degree {
            for j in 0..num_wires {
                wires[j] = w.try_get_target(Target::wire(row, j)).unwrap_or(F::ZERO);
            }
            let consts = &self.const_vals[row];
            let mut row_bad = false;
            for (i, gate) in common.gates.iter().enumerate() {
                let sel = common.selectors_info.selector_indices[i];
                let vars = EvaluationVarsBaseBatch::new(1, consts, &wires, &pih);
                let r = gate.0.eval_filtered_base_batch(
                    vars,
                    i,
                    sel,
                    common.selectors_info.groups[sel].clone(),
                    common.selectors_info.num_selectors(),
                    common.num_lookup_selectors,
                );
                if r.iter().any(|x| !x.is_zero()) {
                    row_bad = true;
                    break;
                }
            }
            if row_bad {
                bad += 1;
            }
        }
        bad
    }

    pub fn public_inputs(&self, w: &PartitionWitness<F>) -> Vec<u64> {
        self.data.prover_only.public_inputs.iter().map(|&t| w.try_get_target(t).map(|v| v.to_canonical_u64()).unwrap_or(0)).collect()
    }

    pub fn run(&self, inputs: PartialWitness<F>, tweak: &mut Tweak<'_>) -> Outcome {
        match self.generate_with_overrides(inputs, tweak) {
            Err(e) => Outcome::RejectGen(format!("{e}")),
            Ok(w) => {
                let bad = self.gate_violations(&w);
                if bad > 0 {
                    Outcome::RejectGate(bad)
                } else {
                    Outcome::Accept(self.public_inputs(&w))
                }
            }
        }
    }

    /// Push an (already generated, possibly adversarial) witness through the real prover and verifier.
    pub fn prove_and_verify(&self, w: PartitionWitness<'a, F>) -> Result<Vec<u64>> {
        let mut timing = plonky2::util::timing::TimingTree::default();
        let proof = plonky2::plonk::prover::prove_with_partition_witness::<F, C, D>(&self.data.prover_only, &self.data.common, w, &mut timing)?;
        let pis: Vec<u64> = proof.public_inputs.iter().map(|x| x.to_canonical_u64()).collect();
        self.data.verify(proof)?;
        Ok(pis)
    }
}

pub fn pw_set(pw: &mut PartialWitness<F>, t: Target, v: u64) {
    // from_noncanonical keeps the harness free to hand in any u64; values are reduced mod p
    pw.set_target(t, F::from_noncanonical_u64(v)).expect("duplicate input assignment");
}

pub fn f(v: u64) -> F {
    F::from_noncanonical_u64(v)
}
