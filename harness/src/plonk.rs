//! plonky2 helpers (witness generation with overridden hints, constraint evaluation). Filled in by the
//! circuit harnesses.
