//! C30 / C31 / C10 (gadget part): the real gadget circuits of common/src/gadgets.rs, on honest and on
//! hint-overridden witnesses. Model side: coq/Circ/GadgetsRun.v (hon / ovr / trace of the transcriptions).
use plonky2::field::types::{Field, PrimeField64};
use plonky2::iop::target::Target;
use plonky2::iop::witness::PartialWitness;
use plonky2::plonk::circuit_builder::CircuitBuilder;
use plonky2::plonk::circuit_data::{CircuitConfig, CircuitData};
use verif_harness::plonk::*;
use verif_harness::*;
use zk_circuits_common::gadgets::{bytes_digest_eq, enforce_target_less_than_const, is_const_less_than, sort_digests4};

const EQ: &str = "EqualityGenerator";
const LH: &str = "LowHighGenerator";
const SP: &str = "BaseSplitGenerator";

fn cfg() -> CircuitConfig {
    CircuitConfig::standard_recursion_config()
}

struct LtCircuit {
    data: CircuitData<F, C, D>,
    x: Target,
}
fn build_lt(c: u64, w: usize) -> LtCircuit {
    let mut b = CircuitBuilder::<F, D>::new(cfg());
    let x = b.add_virtual_target();
    let out = is_const_less_than(&mut b, c as usize, x, w);
    b.register_public_input(out.target);
    LtCircuit { data: b.build::<C>(), x }
}
fn build_enforce(ub: u64, w: usize) -> LtCircuit {
    let mut b = CircuitBuilder::<F, D>::new(cfg());
    let x = b.add_virtual_target();
    enforce_target_less_than_const(&mut b, x, ub as usize, w);
    LtCircuit { data: b.build::<C>(), x }
}

fn fingerprint_kinds(ev: &CircuitEval) -> Vec<i128> {
    ev.hint_fingerprint()
        .iter()
        .map(|id| if id.starts_with(EQ) { 1 } else if id.starts_with("WireSplitGenerator") { 2 } else { 3 })
        .collect()
}

/// one override: (kind code, generator id prefix, occurrence, how to rewrite the honest values)
#[derive(Clone)]
struct Ovr {
    kind: i128,
    occ: usize,
    vals: Vec<u64>,
}
fn prefix(kind: i128) -> &'static str {
    match kind {
        1 => EQ,
        2 => LH,
        _ => SP,
    }
}
fn run_with(ev: &CircuitEval, pw: PartialWitness<F>, ovrs: &[Ovr]) -> Outcome {
    let mut tw = |id: &str, occ: usize, _w: &plonky2::iop::witness::PartitionWitness<F>, vals: &mut Vec<(Target, F)>| {
        for o in ovrs {
            if id.starts_with(prefix(o.kind)) && occ == o.occ {
                for (i, v) in o.vals.iter().enumerate() {
                    if i < vals.len() {
                        vals[i].1 = f(*v);
                    }
                }
            }
        }
    };
    ev.run(pw, &mut tw)
}

/// The honest outputs (low, high) of LowHighGenerator occurrence `occ` on this input, and from them the override that
/// presents the SAME field element through its other 64-bit representative x + p (None when x + p >= 2^64).
/// For u32_lt's 32/33 split the alias has high = 2^32 - 1: only the 1-bit range check on the high part excludes it.
fn lh_alias_of(ev: &CircuitEval, pw: PartialWitness<F>, occ: usize) -> Option<Ovr> {
    let mut seen: Option<(u64, u64)> = None;
    {
        let mut tw = |id: &str, o: usize, _w: &plonky2::iop::witness::PartitionWitness<F>, vals: &mut Vec<(Target, F)>| {
            if id.starts_with(LH) && o == occ && vals.len() >= 2 {
                seen = Some((vals[0].1.to_canonical_u64(), vals[1].1.to_canonical_u64()));
            }
        };
        let _ = ev.run(pw, &mut tw);
    }
    let (lo, hi) = seen?;
    let x = lo as u128 + ((hi as u128) << 32);
    let y = x + P as u128;
    if y >> 64 != 0 {
        return None;
    }
    Some(Ovr { kind: 2, occ, vals: vec![(y & 0xFFFF_FFFF) as u64, (y >> 32) as u64] })
}
fn ovr_segs(ovrs: &[Ovr]) -> Vec<Seg> {
    ovrs.iter()
        .map(|o| {
            let mut s: Seg = vec![o.kind, o.occ as i128];
            s.extend(o.vals.iter().map(|&v| (v % P) as i128));
            s
        })
        .collect()
}

fn inv_mod_p(x: u64) -> u64 {
    let fx = f(x);
    if fx.is_zero() {
        0
    } else {
        fx.inverse().to_canonical_u64()
    }
}

fn bits(x: u128, n: usize) -> Vec<u64> {
    (0..n).map(|i| ((x >> i) & 1) as u64).collect()
}

fn interesting_x(r: &mut Rng, w: usize) -> u64 {
    let top: u128 = 1u128 << w;
    let cands: [u128; 12] = [0, 1, 2, top - 1, top, top + 1, top / 2, (1u128 << 32) - 2, (1u128 << 32) - 1, 1u128 << 32, (P - 1) as u128, (P - 2) as u128];
    match r.below(4) {
        0 => (*r.pick(&cands) % (P as u128)) as u64,
        1 => (r.next() as u128 % top.min(P as u128)) as u64,
        2 => r.edge_felt(),
        _ => ((r.next() as u128 % top.min(P as u128)) as u64) | 1,
    }
}

fn main() {
    quiet_panics();
    let mut rng = Rng::new(seed_from_env());
    let thorough = tier_is_thorough();
    let mut out = Out::new();
    let which: Vec<String> = std::env::args().skip(1).collect();
    let want = |s: &str| which.is_empty() || which.iter().any(|w| w == s);

    // ------------------------------------------------------------------ is_const_less_than, narrow widths
    if want("lt") {
        let exhaustive_w = if thorough { 6 } else { 4 };
        for w in 1..=exhaustive_w {
            for c in 0..(1u64 << w) {
                let circ = build_lt(c, w);
                let ev = CircuitEval::new(&circ.data);
                if c == 0 {
                    out.case(3005, "fingerprint", &[vec![w as i128, c as i128, 0]], &fingerprint_kinds(&ev));
                }
                // every x below 2^w, the boundary above, and a few large ones
                let mut xs: Vec<u64> = (0..(1u64 << w) + 2).collect();
                xs.extend([P - 1, P - 2, 1 << 32, (1 << 32) - 1, 1 << 63, (1 << 63) + 1]);
                for x in xs {
                    let mut pw = PartialWitness::new();
                    pw_set(&mut pw, circ.x, x);
                    let o = ev.run(pw, &mut no_tweak());
                    out.case(3001, "narrow-exhaustive", &[vec![w as i128, c as i128, x as i128]], &o.enc());
                }
            }
        }
        let widths: Vec<usize> = (exhaustive_w + 1..=64).collect();
        for &w in &widths {
            let top: u128 = 1u128 << w;
            let mut cs: Vec<u64> = vec![0, 1, (top - 1) as u64, (top / 2) as u64];
            let extra = if thorough { 4 } else { 1 };
            for _ in 0..extra {
                cs.push((rng.next() as u128 % top) as u64);
            }
            if w == 64 {
                cs.extend([P - 1, P, P + 1, (1 << 32) - 1, 1 << 32, u64::MAX - 1]);
            }
            cs.sort();
            cs.dedup();
            // the builder asserts left < usize::MAX at width 64 (a build-time panic, not a circuit property)
            cs.retain(|&c| w < 64 || c != u64::MAX);
            for &c in &cs {
                let circ = build_lt(c, w);
                let ev = CircuitEval::new(&circ.data);
                out.case(3005, "fingerprint", &[vec![w as i128, c as i128, 0]], &fingerprint_kinds(&ev));
                let mut xs: Vec<u64> = vec![c, c.wrapping_add(1) % P, c.wrapping_sub(1) % P];
                let reps = if thorough { 40 } else { 10 };
                for _ in 0..reps {
                    xs.push(interesting_x(&mut rng, w));
                }
                for x in xs {
                    let x = x % P;
                    let mut pw = PartialWitness::new();
                    pw_set(&mut pw, circ.x, x);
                    let o = ev.run(pw, &mut no_tweak());
                    out.case(3001, if w == 64 { "w64" } else { "wide" }, &[vec![w as i128, c as i128, x as i128]], &o.enc());
                }
                // ---- adversarial hints
                let nadv = if w == 64 { if thorough { 400 } else { 60 } } else if thorough { 30 } else { 8 };
                for _ in 0..nadv {
                    let x = interesting_x(&mut rng, w) % P;
                    let mut ovrs: Vec<Ovr> = vec![];
                    let tag;
                    if w < 64 {
                        // the single split_le: bits of a different integer, a non-boolean limb, the x+p pattern
                        let choice = rng.below(5);
                        let mut bs = bits(x as u128, w);
                        match choice {
                            0 => {
                                bs = bits(x as u128 + P as u128, w);
                                tag = "sp-alias";
                            }
                            1 => {
                                let i = rng.below(w as u64) as usize;
                                bs[i] ^= 1;
                                tag = "sp-flip";
                            }
                            2 => {
                                let i = rng.below(w as u64) as usize;
                                bs[i] = 2;
                                tag = "sp-nonbool";
                            }
                            3 => {
                                bs = bits((x as u128).wrapping_add(1), w);
                                tag = "sp-plus1";
                            }
                            _ => {
                                tag = "sp-honest-explicit";
                            }
                        }
                        ovrs.push(Ovr { kind: 3, occ: 0, vals: bs });
                    } else {
                        match rng.below(8) {
                            6 | 7 => {
                                // u32_lt's 32/33 split presented through its x + p alias (high = 2^32 - 1, not a bit)
                                let occ = 1 + rng.below(2) as usize;
                                let mut pw0 = PartialWitness::new();
                                pw_set(&mut pw0, circ.x, x);
                                match lh_alias_of(&ev, pw0, occ) {
                                    Some(o) => {
                                        ovrs.push(o);
                                        tag = "u32lt-lh-alias";
                                    }
                                    None => {
                                        ovrs.push(Ovr { kind: 2, occ, vals: vec![rng.below(1 << 32), (1 << 32) - 1] });
                                        tag = "u32lt-high-not-a-bit";
                                    }
                                }
                            }
                            0 => {
                                // the x+p alias of the 32/64 split (exists iff x + p < 2^64)
                                let y = x as u128 + P as u128;
                                ovrs.push(Ovr { kind: 2, occ: 0, vals: vec![(y & 0xFFFF_FFFF) as u64, ((y >> 32) & 0xFFFF_FFFF) as u64] });
                                tag = "lh-alias";
                            }
                            1 => {
                                // alias plus forged equality hints trying to hide the wrap-around flag
                                let y = x as u128 + P as u128;
                                ovrs.push(Ovr { kind: 2, occ: 0, vals: vec![(y & 0xFFFF_FFFF) as u64, ((y >> 32) & 0xFFFF_FFFF) as u64] });
                                ovrs.push(Ovr { kind: 1, occ: 0, vals: vec![0, rng.edge_felt()] });
                                tag = "lh-alias+eq-forge";
                            }
                            2 => {
                                let occ = rng.below(3) as usize;
                                let e = *rng.pick(&[0u64, 1, 2, P - 1]);
                                let inv = match rng.below(3) {
                                    0 => 0,
                                    1 => rng.edge_felt(),
                                    _ => 1,
                                };
                                ovrs.push(Ovr { kind: 1, occ, vals: vec![e, inv] });
                                tag = "eq-forge";
                            }
                            3 => {
                                // u32_lt's 32/33 split: flip the ge bit, adjust low
                                let occ = 1 + rng.below(2) as usize;
                                let lo = rng.below(1 << 32);
                                ovrs.push(Ovr { kind: 2, occ, vals: vec![lo, rng.below(2)] });
                                tag = "u32lt-lh-forge";
                            }
                            4 => {
                                let occ = rng.below(6) as usize;
                                let n = if occ == 3 || occ == 5 { 1 } else { 32 };
                                let mut bs = bits(rng.next() as u128, n);
                                if rng.chance(1, 3) {
                                    bs[0] = 2;
                                }
                                ovrs.push(Ovr { kind: 3, occ, vals: bs });
                                tag = "sp-forge";
                            }
                            _ => {
                                // consistent alias: alias halves + their honest bit patterns are produced downstream
                                let y = x as u128 + P as u128;
                                ovrs.push(Ovr { kind: 2, occ: 0, vals: vec![(y & 0xFFFF_FFFF) as u64, ((y >> 32) & 0xFFFF_FFFF) as u64] });
                                ovrs.push(Ovr { kind: 1, occ: 1, vals: vec![1, 0] });
                                tag = "lh-alias+lo-is-zero-forge";
                            }
                        }
                    }
                    let mut pw = PartialWitness::new();
                    pw_set(&mut pw, circ.x, x);
                    let o = run_with(&ev, pw, &ovrs);
                    let mut segs = vec![vec![w as i128, c as i128, x as i128]];
                    segs.extend(ovr_segs(&ovrs));
                    out.case(3003, tag, &segs, &o.enc());
                }
            }
        }
        // x == y accepts any inv: an adversarial yet accepted witness, pushed through the real prover
        {
            let circ = build_lt(5, 64);
            let ev = CircuitEval::new(&circ.data);
            let x = (5u64 >> 32) as u64; // right_hi == left_hi == 0 -> eq#2 has x == y
            let _ = x;
            let mut pw = PartialWitness::new();
            pw_set(&mut pw, circ.x, 7);
            let ovrs = vec![Ovr { kind: 1, occ: 2, vals: vec![1, 123456789] }];
            let mut tw = |id: &str, occ: usize, _w: &plonky2::iop::witness::PartitionWitness<F>, vals: &mut Vec<(Target, F)>| {
                if id.starts_with(EQ) && occ == 2 {
                    vals[1].1 = f(123456789);
                }
            };
            match ev.generate_with_overrides(pw, &mut tw) {
                Ok(w) => {
                    let bad = ev.gate_violations(&w);
                    let proved = ev.prove_and_verify(w);
                    out.note("adversarial-accepted-witness-through-real-prover", &format!("gate_violations={} prove+verify={:?}", bad, proved.as_ref().map(|p| p.clone()).map_err(|e| e.to_string())));
                    let enc = match proved {
                        Ok(p) if bad == 0 => Outcome::Accept(p).enc(),
                        _ => vec![0],
                    };
                    let mut segs = vec![vec![64, 5, 7]];
                    segs.extend(ovr_segs(&ovrs));
                    out.case(3003, "eq-free-inv-proved", &segs, &enc);
                }
                Err(e) => out.note("adversarial-accepted-witness-through-real-prover", &format!("generation failed: {e}")),
            }
        }
    }

    // ------------------------------------------------------------------ enforce_target_less_than_const
    if want("enforce") {
        let mut configs: Vec<(u64, usize)> = vec![(17, 5), (16, 5), (1, 1), (2, 1), (32, 5), (1 << 32, 33), (10001, 14), (P, 64), (u64::MAX, 64), (1u64 << 63, 64), (5, 64)];
        if thorough {
            for w in 1..=63usize {
                configs.push(((rng.next() % (1u64 << w)).max(1), w));
                configs.push((1u64 << w, w));
            }
        }
        for (ub, w) in configs {
            let circ = build_enforce(ub, w);
            let ev = CircuitEval::new(&circ.data);
            let mut xs = vec![0, 1, ub.wrapping_sub(1) % P, ub % P, ub.wrapping_add(1) % P, P - 1];
            for _ in 0..(if thorough { 20 } else { 6 }) {
                xs.push(interesting_x(&mut rng, w) % P);
            }
            for x in xs {
                let mut pw = PartialWitness::new();
                pw_set(&mut pw, circ.x, x);
                let o = ev.run(pw, &mut no_tweak());
                let enc = if o.accepted() { vec![1] } else { vec![0] };
                out.case(3002, "enforce", &[vec![w as i128, ub as i128, x as i128]], &enc);
            }
        }
    }

    // ------------------------------------------------------------------ bytes_digest_eq
    if want("digesteq") {
        let mut b = CircuitBuilder::<F, D>::new(cfg());
        let a: [Target; 4] = core::array::from_fn(|_| b.add_virtual_target());
        let c: [Target; 4] = core::array::from_fn(|_| b.add_virtual_target());
        let o = bytes_digest_eq(&mut b, a, c);
        b.register_public_input(o.target);
        let data = b.build::<C>();
        let ev = CircuitEval::new(&data);
        for _ in 0..(if thorough { 2000 } else { 300 }) {
            let av: Vec<u64> = (0..4).map(|_| if rng.chance(1, 2) { rng.below(3) } else { rng.edge_felt() }).collect();
            let mut cv = av.clone();
            match rng.below(4) {
                0 => {}
                1 => {
                    let i = rng.below(4) as usize;
                    cv[i] = (cv[i] + 1) % P;
                }
                2 => cv = (0..4).map(|_| rng.edge_felt()).collect(),
                _ => cv.swap(0, 3),
            }
            let mut pw = PartialWitness::new();
            for i in 0..4 {
                pw_set(&mut pw, a[i], av[i]);
                pw_set(&mut pw, c[i], cv[i]);
            }
            let o = ev.run(pw, &mut no_tweak());
            out.case(3004, "digest-eq", &[seg_u64(&av), seg_u64(&cv)], &o.enc());
        }
    }

    // ------------------------------------------------------------------ sort_digests4
    if want("sort") || which.iter().any(|w| w == "sortsmall") {
        let small_only = !which.is_empty() && !which.iter().any(|w| w == "sort");
        let sizes: Vec<usize> = if small_only { vec![2, 3, 4, 5] } else if thorough { vec![1, 2, 3, 4, 5, 6, 7, 8, 9, 12, 16, 17, 24, 32, 33, 48, 63, 64] } else { vec![1, 2, 3, 4, 5, 8, 13, 16, 64] };
        for &n in &sizes {
            let mut b = CircuitBuilder::<F, D>::new(cfg());
            let ins: Vec<[Target; 4]> = (0..n).map(|_| core::array::from_fn(|_| b.add_virtual_target())).collect();
            let outs = sort_digests4(&mut b, ins.clone());
            for d in &outs {
                for &t in d {
                    b.register_public_input(t);
                }
            }
            let data = b.build::<C>();
            let ev = CircuitEval::new(&data);
            out.case(3105, "fingerprint", &(0..n).map(|_| vec![0i128, 0, 0, 0]).collect::<Vec<_>>(), &fingerprint_kinds(&ev));
            let reps = if n <= 8 { if thorough { 400 } else { 60 } } else if n <= 16 { if thorough { 40 } else { 8 } } else if thorough { 6 } else { 2 };
            for rep in 0..reps {
                // small value domains give duplicates; boundary limbs exercise the canonical split
                let dom: Vec<u64> = match rep % 4 {
                    0 => vec![0, 1, 2],
                    1 => vec![0, 1, (1 << 32) - 1, 1 << 32, P - 1, (1 << 32) - 2, P - (1 << 32)],
                    2 => vec![0, P - 1],
                    _ => vec![],
                };
                let vals: Vec<[u64; 4]> = (0..n)
                    .map(|_| core::array::from_fn(|_| if dom.is_empty() { rng.next() % P } else { *rng.pick(&dom) }))
                    .collect();
                let segs: Vec<Seg> = vals.iter().map(|d| seg_u64(d)).collect();
                let mk = |ins: &Vec<[Target; 4]>| {
                    let mut pw = PartialWitness::new();
                    for i in 0..n {
                        for j in 0..4 {
                            pw_set(&mut pw, ins[i][j], vals[i][j]);
                        }
                    }
                    pw
                };
                let o = ev.run(mk(&ins), &mut no_tweak());
                out.case(3101, "sort-honest", &segs, &o.enc());
                if n >= 2 && n <= (if thorough { 9 } else { 5 }) {
                    // adversarial hints: alias on an ingress split, forged comparator bit, forged equality
                    let nlh = ev.count_gen(LH);
                    let neq = ev.count_gen(EQ);
                    let mut ovrs: Vec<Ovr> = vec![];
                    let tag;
                    match rng.below(6) {
                        4 | 5 => {
                            // a comparator's 32/33 split presented through the x + p alias (high = 2^32 - 1, not a bit)
                            let occ = 4 * n + rng.below((nlh - 4 * n) as u64) as usize;
                            match lh_alias_of(&ev, mk(&ins), occ) {
                                Some(o) => {
                                    ovrs.push(o);
                                    tag = "sort-u32lt-alias";
                                }
                                None => {
                                    ovrs.push(Ovr { kind: 2, occ, vals: vec![rng.below(1 << 32), (1 << 32) - 1] });
                                    tag = "sort-u32lt-high-not-a-bit";
                                }
                            }
                        }
                        0 => {
                            let occ = rng.below((4 * n) as u64) as usize; // ingress splits come first
                            let x = vals[occ / 4][occ % 4];
                            let y = x as u128 + P as u128;
                            ovrs.push(Ovr { kind: 2, occ, vals: vec![(y & 0xFFFF_FFFF) as u64, ((y >> 32) & 0xFFFF_FFFF) as u64] });
                            tag = "sort-ingress-alias";
                        }
                        1 => {
                            let occ = 4 * n + rng.below((nlh - 4 * n) as u64) as usize;
                            ovrs.push(Ovr { kind: 2, occ, vals: vec![rng.below(1 << 32), rng.below(2)] });
                            tag = "sort-u32lt-forge";
                        }
                        2 => {
                            let occ = rng.below(neq as u64) as usize;
                            ovrs.push(Ovr { kind: 1, occ, vals: vec![*rng.pick(&[0u64, 1, 2]), rng.edge_felt()] });
                            tag = "sort-eq-forge";
                        }
                        _ => {
                            let occ = rng.below(neq as u64) as usize;
                            ovrs.push(Ovr { kind: 1, occ, vals: vec![1, 0] });
                            tag = "sort-eq-claim-equal";
                        }
                    }
                    let o = run_with(&ev, mk(&ins), &ovrs);
                    let mut s2: Vec<Seg> = vec![vec![n as i128]];
                    s2.extend(segs.clone());
                    s2.extend(ovr_segs(&ovrs));
                    out.case(3102, tag, &s2, &o.enc());
                }
            }
        }
        // exhaustive over a 3-value digest domain for short lists (digests differ in one limb only)
        let max_n = if thorough { 5 } else { 4 };
        for n in 2..=max_n {
            let mut b = CircuitBuilder::<F, D>::new(cfg());
            let ins: Vec<[Target; 4]> = (0..n).map(|_| core::array::from_fn(|_| b.add_virtual_target())).collect();
            let outs = sort_digests4(&mut b, ins.clone());
            for d in &outs {
                for &t in d {
                    b.register_public_input(t);
                }
            }
            let data = b.build::<C>();
            let ev = CircuitEval::new(&data);
            let doms: [[u64; 4]; 3] = [[0, 0, 0, 5], [0, 0, 1, 0], [P - 1, 0, 0, 0]];
            let total = 3usize.pow(n as u32);
            for code in 0..total {
                let mut k = code;
                let vals: Vec<[u64; 4]> = (0..n)
                    .map(|_| {
                        let d = doms[k % 3];
                        k /= 3;
                        d
                    })
                    .collect();
                let mut pw = PartialWitness::new();
                for i in 0..n {
                    for j in 0..4 {
                        pw_set(&mut pw, ins[i][j], vals[i][j]);
                    }
                }
                let o = ev.run(pw, &mut no_tweak());
                out.case(3101, "sort-exhaustive-3dom", &vals.iter().map(|d| seg_u64(d)).collect::<Vec<_>>(), &o.enc());
            }
        }
    }
    out.flush();
}
