//! C06/C07 (arg `priv`) and C12/C13 (arg `pub`): the FULL circuits `PrivateBatchCircuit::new` / `PublicBatchCircuit::new`
//! (wrapper constraints + `add_recursive_verifiers` over the child proofs), filled with REAL child proofs, really proved and
//! really verified. Model side: the extracted wrapper model of group "wrappers" (coq/Circ/WrappersRun.v), same fids and
//! segment layout as bin/wrappers.rs:
//!
//!   601   [n]; n leaf PI vectors (21 felts); n dummy-nullifier preimages     -> [1, public inputs of the REAL proof] | [0]
//!   1201  [m; n]; aggregator address; m inner PI vectors (21n+8 felts)       -> [1, public inputs of the REAL proof] | [0]
//!
//! `[0]` = proving fails (witness-generation error, or the prover panics because the constraint polynomial is not
//! divisible, or - never observed - the produced proof does not verify). What this adds over bin/wrappers.rs: the inputs of
//! the wrapper are here the public inputs of the *recursively verified* child proofs, so a full circuit that builds its
//! wrapper over other targets than those of the proofs it verifies, or that does not verify every slot, or that registers
//! other outputs, disagrees with the model.
//!
//! Children of the private batch: the 21-PI fake leaf of test_helpers::fake_leaf (it range-checks PIs 1,2,3 to 32 bits, so
//! generated batches with an amount outside u32 are skipped). Children of the public batch: real private-batch proofs over
//! such leaves, built with the real `wormhole_private_batch_circuit_config()`; dummy inners are private-batch proofs whose
//! leaves are all dummies (the circuit proves them; only PrivateBatchProver::commit refuses them).
use plonky2::field::types::{Field, PrimeField64};
use plonky2::iop::target::Target;
use plonky2::iop::witness::{PartialWitness, WitnessWrite};
use plonky2::plonk::circuit_builder::CircuitBuilder;
use plonky2::plonk::circuit_data::{CircuitConfig, CircuitData, CommonCircuitData};
use plonky2::plonk::proof::ProofWithPublicInputs;
use rayon::prelude::*;
use std::collections::BTreeMap;
use std::time::Instant;
use verif_harness::batchgen::{gen_leaves, universe, Leaf, Universe};
use verif_harness::plonk::*;
use verif_harness::*;
use wormhole_aggregator::private_batch::circuit::circuit_logic::{verif_build_private_batch_constraints, PrivateBatchCircuit, PrivateBatchCircuitTargets};
use wormhole_aggregator::public_batch::circuit::circuit_logic::{verif_build_public_batch_constraints, PublicBatchCircuit, PublicBatchCircuitTargets};
use zk_circuits_common::circuit::{wormhole_private_batch_circuit_config, wormhole_public_batch_circuit_config};

type Proof = ProofWithPublicInputs<F, C, D>;
type Data = CircuitData<F, C, D>;

const U32: u64 = 1 << 32;

// ------------------------------------------------------------------------------------------ children
struct FakeLeaf {
    data: Data,
    pis: [Target; 21],
}
fn leaf_in_range(l: &Leaf) -> bool {
    l[1] < U32 && l[2] < U32 && l[3] < U32
}
fn prove_leaf(fl: &FakeLeaf, l: &Leaf) -> Proof {
    let v: [F; 21] = core::array::from_fn(|i| f(l[i]));
    test_helpers::fake_leaf::prove_fake_leaf(&fl.data, &fl.pis, v)
}
fn pis_u64(p: &Proof) -> Vec<u64> {
    p.public_inputs.iter().map(|x| x.to_canonical_u64()).collect()
}

// ------------------------------------------------------------------------------------------ full circuits
struct FullPriv {
    data: Data,
    t: PrivateBatchCircuitTargets,
    build_ms: u128,
}
fn build_full_priv(cfg: CircuitConfig, fl: &FakeLeaf, n: usize) -> FullPriv {
    let t0 = Instant::now();
    let c = PrivateBatchCircuit::new(cfg, &fl.data.common, &fl.data.verifier_only, n).expect("PrivateBatchCircuit::new");
    let t = c.targets();
    FullPriv { data: c.build_circuit(), t, build_ms: t0.elapsed().as_millis() }
}
struct FullPub {
    data: Data,
    t: PublicBatchCircuitTargets,
    build_ms: u128,
}
fn build_full_pub(inner: &Data, m: usize, n: usize) -> FullPub {
    let t0 = Instant::now();
    let c = PublicBatchCircuit::new(wormhole_public_batch_circuit_config(), inner.common.clone(), &inner.verifier_only, m, n).expect("PublicBatchCircuit::new");
    let t = c.targets();
    FullPub { data: c.build_circuit(), t, build_ms: t0.elapsed().as_millis() }
}
fn no_zk(mut c: CircuitConfig) -> CircuitConfig {
    c.zero_knowledge = false;
    c
}

/// Map `f` over `items`, at most `width()` of them at a time (the prover is itself parallel; many concurrent proofs mostly
/// compete for memory), results in input order.
fn width() -> usize {
    std::env::var("VERIF_RECURSIVE_WIDTH").ok().and_then(|s| s.parse().ok()).unwrap_or(3)
}
fn par_map<T: Sync, R: Send>(items: &[T], f: impl Fn(usize, &T) -> R + Sync) -> Vec<R> {
    let k = width().max(1);
    let mut out = Vec::with_capacity(items.len());
    for (c, chunk) in items.chunks(k).enumerate() {
        let part: Vec<R> = chunk.par_iter().enumerate().map(|(i, x)| f(c * k + i, x)).collect();
        out.extend(part);
    }
    out
}

/// real prover, then real verifier
fn prove_verify(data: &Data, pw: PartialWitness<F>) -> Result<Proof, &'static str> {
    let proof = match no_panic(|| data.prove(pw)) {
        None => return Err("prover-panicked"),
        Some(Err(_)) => return Err("prover-error"),
        Some(Ok(p)) => p,
    };
    match no_panic(|| data.verify(proof.clone())) {
        Some(Ok(())) => Ok(proof),
        _ => Err("proof-does-not-verify"),
    }
}
fn run_full_priv(c: &FullPriv, leaf_proofs: &[Proof], pre: &[[u64; 4]]) -> Result<Proof, &'static str> {
    let mut pw = PartialWitness::new();
    for (pt, p) in c.t.leaf_proofs.iter().zip(leaf_proofs) {
        pw.set_proof_with_pis_target(pt, p).expect("set leaf proof");
    }
    for (ts, vs) in c.t.dummy_nullifier_pre_images.iter().zip(pre) {
        for j in 0..4 {
            pw_set(&mut pw, ts[j], vs[j]);
        }
    }
    prove_verify(&c.data, pw)
}
fn run_full_pub(c: &FullPub, inners: &[&Proof], addr: &[u64; 4]) -> Result<Proof, &'static str> {
    let mut pw = PartialWitness::new();
    for (pt, p) in c.t.private_batch_proofs.iter().zip(inners) {
        pw.set_proof_with_pis_target(pt, p).expect("set inner proof");
    }
    for j in 0..4 {
        pw_set(&mut pw, c.t.aggregator_address[j], addr[j]);
    }
    prove_verify(&c.data, pw)
}
fn enc(r: &Result<Proof, &'static str>) -> Vec<i128> {
    match r {
        Ok(p) => std::iter::once(1i128).chain(pis_u64(p).into_iter().map(|x| x as i128)).collect(),
        Err(_) => vec![0],
    }
}

// ------------------------------------------------------------------------------------------ wrapper-only circuits
// (as in bin/wrappers.rs; used here only to PREDICT the outcome for the #note counters and to pre-filter the inner batches
// of the public part - the verdict is the Coq model's, through the runner)
struct PrivWrap {
    data: Data,
    leaf_pis: Vec<Vec<Target>>,
    pre: Vec<[Target; 4]>,
}
fn build_priv_wrap(n: usize, leaf_common: &CommonCircuitData<F, D>) -> PrivWrap {
    let mut b = CircuitBuilder::<F, D>::new(no_zk(wormhole_private_batch_circuit_config()));
    let leaf_proofs: Vec<_> = (0..n).map(|_| b.add_virtual_proof_with_pis(leaf_common)).collect();
    let pre: Vec<[Target; 4]> = (0..n).map(|_| core::array::from_fn(|_| b.add_virtual_target())).collect();
    let leaf_pis = leaf_proofs.iter().map(|p| p.public_inputs.clone()).collect();
    let targets = PrivateBatchCircuitTargets { leaf_proofs, dummy_nullifier_pre_images: pre.clone() };
    verif_build_private_batch_constraints(&mut b, &targets, n);
    PrivWrap { data: b.build::<C>(), leaf_pis, pre }
}
fn priv_wrap_run(w: &PrivWrap, ev: &CircuitEval, leaves: &[Leaf], pre: &[[u64; 4]]) -> Outcome {
    let mut pw = PartialWitness::new();
    for i in 0..leaves.len() {
        for j in 0..21 {
            pw_set(&mut pw, w.leaf_pis[i][j], leaves[i][j]);
        }
        for j in 0..4 {
            pw_set(&mut pw, w.pre[i][j], pre[i][j]);
        }
    }
    ev.run(pw, &mut no_tweak())
}
struct PubWrap {
    data: Data,
    inner_pis: Vec<Vec<Target>>,
    addr: [Target; 4],
}
fn build_pub_wrap(m: usize, n: usize, inner_common: &CommonCircuitData<F, D>) -> PubWrap {
    let mut b = CircuitBuilder::<F, D>::new(wormhole_public_batch_circuit_config());
    let proofs: Vec<_> = (0..m).map(|_| b.add_virtual_proof_with_pis(inner_common)).collect();
    let addr: [Target; 4] = core::array::from_fn(|_| b.add_virtual_target());
    let inner_pis = proofs.iter().map(|p| p.public_inputs.clone()).collect();
    let targets = PublicBatchCircuitTargets { private_batch_proofs: proofs, aggregator_address: addr };
    verif_build_public_batch_constraints(&mut b, &targets, m, n);
    PubWrap { data: b.build::<C>(), inner_pis, addr }
}

fn priv_segs(leaves: &[Leaf], pre: &[[u64; 4]]) -> Vec<Seg> {
    let mut s: Vec<Seg> = vec![vec![leaves.len() as i128]];
    for l in leaves {
        s.push(seg_u64(l));
    }
    for p in pre {
        s.push(seg_u64(p));
    }
    s
}

#[derive(Default)]
struct Counts {
    proved: usize,
    failed: BTreeMap<&'static str, usize>,
    as_predicted: usize,
    not_as_predicted: usize,
}
impl Counts {
    fn add(&mut self, r: &Result<Proof, &'static str>, predicted: &[i128]) {
        match r {
            Ok(_) => self.proved += 1,
            Err(k) => *self.failed.entry(k).or_default() += 1,
        }
        if enc(r) == predicted {
            self.as_predicted += 1;
        } else {
            self.not_as_predicted += 1;
        }
    }
    fn line(&self) -> String {
        let failed: usize = self.failed.values().sum();
        format!(
            "proved-and-verified={} proving-failed={} {:?} ; outcome equals the wrapper-only evaluation: {} differs: {}",
            self.proved, failed, self.failed, self.as_predicted, self.not_as_predicted
        )
    }
}

// ------------------------------------------------------------------------------------------ (a) private
struct PrivCase {
    leaves: Vec<Leaf>,
    pre: Vec<[u64; 4]>,
    tag: String,
    real_cfg: bool,
}

fn part_priv(out: &mut Out, rng: &mut Rng, thorough: bool, fl: &FakeLeaf, u: &Universe) {
    let sizes: Vec<usize> = if thorough { vec![1, 2, 3, 4] } else { vec![1, 2, 3] };
    let quota = if thorough { 14 } else { 3 };
    let t_all = Instant::now();
    // circuits: built once per n, both configurations, concurrently
    let t0 = Instant::now();
    let circuits: Vec<(usize, FullPriv, FullPriv, PrivWrap)> = sizes
        .par_iter()
        .map(|&n| {
            let ((a, b), w) = rayon::join(
                || rayon::join(|| build_full_priv(no_zk(wormhole_private_batch_circuit_config()), fl, n), || build_full_priv(wormhole_private_batch_circuit_config(), fl, n)),
                || build_priv_wrap(n, &fl.data.common),
            );
            (n, a, b, w)
        })
        .collect();
    out.note("full-recursive/private/build", &format!("{} circuits in {} ms wall", 2 * sizes.len(), t0.elapsed().as_millis()));
    let mut total = Counts::default();
    let mut total_altered = (0usize, 0usize);
    for (n, c_nozk, c_real, wrap) in circuits.iter() {
        let n = *n;
        out.note(
            "full-recursive/private/circuit",
            &format!(
                "n={} nozk-config: degree_bits={} build={}ms ; real config: degree_bits={} build={}ms ; pis={}",
                n,
                c_nozk.data.common.degree_bits(),
                c_nozk.build_ms,
                c_real.data.common.degree_bits(),
                c_real.build_ms,
                c_real.data.common.num_public_inputs
            ),
        );
        // stratified selection over the generator's branches: up to `quota` batches per tag (twice that for "compatible")
        let mut per_tag: BTreeMap<String, usize> = BTreeMap::new();
        let mut cases: Vec<PrivCase> = vec![];
        let mut skipped_range = 0usize;
        // a fixed number of draws (generation is cheap); a batch is kept while its tag's quota is not full
        let mut draws = 0usize;
        while draws < quota * 40 {
            draws += 1;
            let (leaves, tag) = gen_leaves(rng, n, u);
            let pre: Vec<[u64; 4]> = (0..n).map(|_| core::array::from_fn(|_| rng.next() % P)).collect();
            if !leaves.iter().all(leaf_in_range) {
                skipped_range += 1;
                continue;
            }
            let k = per_tag.entry(tag.clone()).or_default();
            if *k >= (if tag == "compatible" { 2 * quota } else { quota }) {
                continue;
            }
            *k += 1;
            // every fourth selected batch goes through the circuit built with the real (zero-knowledge) configuration
            let real_cfg = *k % 4 == 1;
            let permute = n >= 2 && rng.chance(1, 3);
            let perm_seed = rng.next();
            cases.push(PrivCase { leaves: leaves.clone(), pre: pre.clone(), tag: tag.clone(), real_cfg });
            if permute {
                // the same statements (and their preimages) in another slot order
                let mut idx: Vec<usize> = (0..n).collect();
                let mut pr = Rng::new(perm_seed);
                for i in (1..n).rev() {
                    idx.swap(i, pr.below(i as u64 + 1) as usize);
                }
                if idx.iter().enumerate().any(|(i, &j)| i != j) {
                    cases.push(PrivCase { leaves: idx.iter().map(|&i| leaves[i]).collect(), pre: idx.iter().map(|&i| pre[i]).collect(), tag: format!("{}+permuted", tag), real_cfg: false });
                }
            }
        }
        // children: really proved
        let t0 = Instant::now();
        let leaf_proofs: Vec<Vec<Proof>> = cases.par_iter().map(|c| c.leaves.iter().map(|l| prove_leaf(fl, l)).collect()).collect();
        let leaf_ms = t0.elapsed().as_millis();
        let t0 = Instant::now();
        let results: Vec<Result<Proof, &'static str>> = par_map(&cases, |i, c| run_full_priv(if c.real_cfg { c_real } else { c_nozk }, &leaf_proofs[i], &c.pre));
        let prove_ms = t0.elapsed().as_millis();
        let ev = CircuitEval::new(&wrap.data);
        let mut cnt = Counts::default();
        for (c, r) in cases.iter().zip(results.iter()) {
            let predicted = priv_wrap_run(wrap, &ev, &c.leaves, &c.pre).enc();
            cnt.add(r, &predicted);
            total.add(r, &predicted);
            let tag = format!("full-recursive/private/{}/{}", if c.real_cfg { "real-config" } else { "nozk-config" }, c.tag);
            out.case(601, &tag, &priv_segs(&c.leaves, &c.pre), &enc(r));
        }
        // A child proof whose claimed public inputs were altered after proving must not be usable. The wrapper model cannot
        // express this (it would accept the altered statement), so a proof obtained this way is reported as the observation
        // [-1], which the model never produces for fid 601; the required failures are only counted.
        let accepted: Vec<usize> = (0..cases.len()).filter(|&i| results[i].is_ok() && !cases[i].real_cfg).collect();
        let mut altered: Vec<(usize, usize, usize)> = vec![];
        // every slot in turn (thorough: three times), on a randomly chosen accepted batch
        for k in 0..(if thorough { 3 * n } else { n }) {
            if accepted.is_empty() {
                break;
            }
            let ci = accepted[rng.below(accepted.len() as u64) as usize];
            altered.push((ci, k % n, *rng.pick(&[1usize, 2, 4, 9, 13, 16, 20])));
        }
        let altered_res: Vec<Result<Proof, &'static str>> = par_map(&altered, |_, &(ci, slot, j)| {
            let mut lp = leaf_proofs[ci].clone();
            lp[slot].public_inputs[j] = lp[slot].public_inputs[j] + F::ONE;
            run_full_priv(c_nozk, &lp, &cases[ci].pre)
        });
        let mut altered_rejected = 0usize;
        for (&(ci, slot, j), r) in altered.iter().zip(altered_res.iter()) {
            if r.is_ok() {
                let mut ls = cases[ci].leaves.clone();
                ls[slot][j] = (ls[slot][j] + 1) % P;
                out.case(601, "full-recursive/private/ALTERED-CHILD-STATEMENT-ACCEPTED", &priv_segs(&ls, &cases[ci].pre), &[-1]);
            } else {
                altered_rejected += 1;
            }
        }
        total_altered.0 += altered.len();
        total_altered.1 += altered_rejected;
        out.note(
            "full-recursive/private/n",
            &format!(
                "n={} cases={} (real-config {}) draws={} skipped-not-u32={} leaf-proofs={} in {}ms full proofs in {}ms wall ; {} ; child statement altered after proving: {} tried, {} failed to prove (required)",
                n,
                cases.len(),
                cases.iter().filter(|c| c.real_cfg).count(),
                draws,
                skipped_range,
                n * cases.len(),
                leaf_ms,
                prove_ms,
                cnt.line(),
                altered.len(),
                altered_rejected
            ),
        );
    }
    out.note("full-recursive/private/total", &format!("{} ; altered child statements {} tried {} failed to prove ; {} ms wall", total.line(), total_altered.0, total_altered.1, t_all.elapsed().as_millis()));
}

// ------------------------------------------------------------------------------------------ (b) public
#[derive(Clone)]
struct Hdr {
    asset: u64,
    fee: u64,
    bh: [u64; 4],
    bn: u64,
}
/// an inner batch of n leaf statements with the given header that the private circuit accepts; `dummy` = every leaf a dummy
fn gen_inner(r: &mut Rng, n: usize, u: &Universe, h: &Hdr, dummy: bool, wrap: &PrivWrap, ev: &CircuitEval) -> (Vec<Leaf>, Vec<[u64; 4]>) {
    for _ in 0..200 {
        let (mut ls, _) = gen_leaves(r, n, u);
        for l in ls.iter_mut() {
            l[0] = h.asset;
            l[1] %= U32;
            l[2] %= U32;
            let is_real = l[16..20] != [0u64; 4];
            if dummy {
                l[16..20].copy_from_slice(&[0; 4]);
            } else if is_real {
                l[3] = h.fee;
                l[16..20].copy_from_slice(&h.bh);
                l[20] = h.bn;
            }
        }
        if !dummy && ls.iter().all(|l| l[16..20] == [0u64; 4]) {
            let i = r.below(n as u64) as usize;
            ls[i][3] = h.fee;
            ls[i][16..20].copy_from_slice(&h.bh);
            ls[i][20] = h.bn;
        }
        let pre: Vec<[u64; 4]> = (0..n).map(|_| core::array::from_fn(|_| r.next() % P)).collect();
        if priv_wrap_run(wrap, ev, &ls, &pre).accepted() {
            return (ls, pre);
        }
    }
    panic!("no acceptable inner batch generated");
}

struct PubCase {
    m: usize,
    tag: &'static str,
    addr: [u64; 4],
    /// indices into the pool of inner batches of this n
    inners: Vec<usize>,
}

fn part_pub(out: &mut Out, rng: &mut Rng, thorough: bool, fl: &FakeLeaf, u: &Universe) {
    let t_all = Instant::now();
    let ns: Vec<usize> = vec![1, 2];
    let ms: Vec<usize> = if thorough { vec![1, 2, 3] } else { vec![1, 2] };
    let reps = if thorough { 6 } else { 1 };
    let mut total = Counts::default();
    let mut total_altered = (0usize, 0usize);
    for &n in &ns {
        // the real private-batch circuit (real configuration) whose proofs are the children
        let (inner_c, wrap) = rayon::join(|| build_full_priv(wormhole_private_batch_circuit_config(), fl, n), || build_priv_wrap(n, &fl.data.common));
        let evp = CircuitEval::new(&wrap.data);
        let t0 = Instant::now();
        let pubs: Vec<(usize, FullPub, PubWrap)> = ms
            .par_iter()
            .map(|&m| {
                let (a, b) = rayon::join(|| build_full_pub(&inner_c.data, m, n), || build_pub_wrap(m, n, &inner_c.data.common));
                (m, a, b)
            })
            .collect();
        out.note(
            "full-recursive/public/circuits",
            &format!(
                "n={} inner private-batch circuit (real config) degree_bits={} build={}ms ; public circuits {:?} (m, degree_bits, build ms) in {} ms wall",
                n,
                inner_c.data.common.degree_bits(),
                inner_c.build_ms,
                pubs.iter().map(|(m, c, _)| (*m, c.data.common.degree_bits(), c.build_ms)).collect::<Vec<_>>(),
                t0.elapsed().as_millis()
            ),
        );
        // scenarios -> pool of inner batches. Per repetition and m: one header, m consistent real inners (the base); every
        // other scenario replaces the inner of one slot (`odd`) by a freshly generated variant, so each inner proof serves
        // several public cases
        let mut pool: Vec<(Vec<Leaf>, Vec<[u64; 4]>)> = vec![];
        let mut cases: Vec<PubCase> = vec![];
        for &m in &ms {
            for _ in 0..reps {
                let blk = rng.below(u.blocks.len() as u64) as usize;
                let other_blk = (blk + 1 + rng.below(u.blocks.len() as u64 - 1) as usize) % u.blocks.len();
                let h = Hdr { asset: if rng.chance(1, 3) { rng.below(5) } else { 0 }, fee: *rng.pick(&[0u64, 10, 10000]), bh: u.blocks[blk].0, bn: u.blocks[blk].1 };
                let odd = rng.below(m as u64) as usize;
                let mut fresh = |rng: &mut Rng, hi: &Hdr, dummy: bool| -> usize {
                    pool.push(gen_inner(rng, n, u, hi, dummy, &wrap, &evp));
                    pool.len() - 1
                };
                let mut addr = |rng: &mut Rng| -> [u64; 4] { core::array::from_fn(|_| rng.edge_felt()) };
                let base: Vec<usize> = (0..m).map(|_| fresh(rng, &h, false)).collect();
                let with = |k: usize| -> Vec<usize> {
                    let mut v = base.clone();
                    v[odd] = k;
                    v
                };
                cases.push(PubCase { m, tag: "consistent", addr: addr(rng), inners: base.clone() });
                let d0 = fresh(rng, &h, true);
                if m == 1 {
                    cases.push(PubCase { m, tag: "all-dummy", addr: addr(rng), inners: vec![d0] });
                    continue;
                }
                cases.push(PubCase { m, tag: "consistent(slots rotated)", addr: addr(rng), inners: (0..m).map(|i| base[(i + 1) % m]).collect() });
                cases.push(PubCase { m, tag: "one-dummy-inner", addr: addr(rng), inners: with(d0) });
                let d1 = fresh(rng, &Hdr { asset: h.asset + 1, ..h.clone() }, true);
                cases.push(PubCase { m, tag: "dummy-inner-with-other-asset", addr: addr(rng), inners: with(d1) });
                // all-dummy public batch; the dummies disagree on the asset id
                cases.push(PubCase { m, tag: "all-dummy", addr: addr(rng), inners: (0..m).map(|i| if i % 2 == 0 { d0 } else { d1 }).collect() });
                let k = fresh(rng, &Hdr { bh: u.blocks[other_blk].0, bn: u.blocks[other_blk].1, ..h.clone() }, false);
                cases.push(PubCase { m, tag: "block-mismatch", addr: addr(rng), inners: with(k) });
                // same limbs in another order / one limb off by one: a cheaper equality test would not see it
                let mut rel = if rng.chance(1, 2) { [h.bh[3], h.bh[2], h.bh[1], h.bh[0]] } else { [h.bh[0], h.bh[1], h.bh[2], (h.bh[3] + 1) % P] };
                if rel == h.bh || rel == [0u64; 4] {
                    rel = [h.bh[0], (h.bh[1] + 1) % P, h.bh[2], h.bh[3]];
                }
                let k = fresh(rng, &Hdr { bh: rel, ..h.clone() }, false);
                cases.push(PubCase { m, tag: "block-mismatch-related-digest", addr: addr(rng), inners: with(k) });
                let k = fresh(rng, &Hdr { asset: h.asset + 1, ..h.clone() }, false);
                cases.push(PubCase { m, tag: "asset-mismatch", addr: addr(rng), inners: with(k) });
                let k = fresh(rng, &Hdr { fee: h.fee + 1, ..h.clone() }, false);
                cases.push(PubCase { m, tag: "fee-mismatch", addr: addr(rng), inners: with(k) });
                let bn2 = (h.bn + 1 + rng.below(1000)) % U32;
                let k = fresh(rng, &Hdr { bn: bn2, ..h.clone() }, false);
                cases.push(PubCase { m, tag: "block-number-differs(not checked)", addr: addr(rng), inners: with(k) });
                // the very same inner proof in every slot: the public layer forwards nullifiers without a uniqueness check
                cases.push(PubCase { m, tag: "same-inner-in-every-slot", addr: addr(rng), inners: vec![base[0]; m] });
            }
        }
        // children of the children, then the children: all really proved
        let t0 = Instant::now();
        let leaf_proofs: Vec<Vec<Proof>> = pool.par_iter().map(|(ls, _)| ls.iter().map(|l| prove_leaf(fl, l)).collect()).collect();
        let inner_res: Vec<Result<Proof, &'static str>> = par_map(&pool, |i, (_, pre)| run_full_priv(&inner_c, &leaf_proofs[i], pre));
        let inner_ms = t0.elapsed().as_millis();
        let inner_failed = inner_res.iter().filter(|r| r.is_err()).count();
        let t0 = Instant::now();
        let results: Vec<Option<Result<Proof, &'static str>>> = par_map(&cases, |_, c| {
            let full = &pubs.iter().find(|(m, _, _)| *m == c.m).unwrap().1;
            let ps: Option<Vec<&Proof>> = c.inners.iter().map(|&i| inner_res[i].as_ref().ok()).collect();
            ps.map(|ps| run_full_pub(full, &ps, &c.addr))
        });
        let pub_ms = t0.elapsed().as_millis();
        let mut cnt = Counts::default();
        let mut dummy_inners = 0usize;
        let mut without_inner = 0usize;
        for (c, r) in cases.iter().zip(results.iter()) {
            let r = match r {
                Some(r) => r,
                None => {
                    // an inner batch the wrapper-only evaluation accepts did not prove: reported by the `priv` part as a disagreement
                    without_inner += 1;
                    continue;
                }
            };
            let inner_pis: Vec<Vec<u64>> = c.inners.iter().map(|&i| pis_u64(inner_res[i].as_ref().unwrap())).collect();
            dummy_inners += inner_pis.iter().filter(|v| v[3..7] == [0u64; 4]).count();
            let (_, _, pwrap) = pubs.iter().find(|(m, _, _)| *m == c.m).unwrap();
            let predicted = {
                let ev = CircuitEval::new(&pwrap.data);
                let mut pw = PartialWitness::new();
                for j in 0..4 {
                    pw_set(&mut pw, pwrap.addr[j], c.addr[j]);
                }
                for (i, v) in inner_pis.iter().enumerate() {
                    for (j, x) in v.iter().enumerate() {
                        pw_set(&mut pw, pwrap.inner_pis[i][j], *x);
                    }
                }
                ev.run(pw, &mut no_tweak()).enc()
            };
            cnt.add(r, &predicted);
            total.add(r, &predicted);
            let mut segs: Vec<Seg> = vec![vec![c.m as i128, n as i128], seg_u64(&c.addr)];
            for v in &inner_pis {
                segs.push(seg_u64(v));
            }
            out.case(1201, &format!("full-recursive/public/{}", c.tag), &segs, &enc(r));
        }
        // an inner proof whose claimed public inputs were altered after proving (see the private part)
        let accepted: Vec<usize> = (0..cases.len()).filter(|&i| matches!(&results[i], Some(Ok(_)))).collect();
        let mut altered: Vec<(usize, usize, usize)> = vec![];
        // for every m, every slot in turn (thorough: twice), on a randomly chosen accepted case of that m
        for &m in &ms {
            let acc_m: Vec<usize> = accepted.iter().copied().filter(|&i| cases[i].m == m).collect();
            for k in 0..(if thorough { 2 * m } else { m }) {
                if acc_m.is_empty() {
                    break;
                }
                let ci = acc_m[rng.below(acc_m.len() as u64) as usize];
                altered.push((ci, k % m, rng.below((21 * n + 8) as u64) as usize));
            }
        }
        let altered_res: Vec<Result<Proof, &'static str>> = par_map(&altered, |_, &(ci, slot, j)| {
            let c = &cases[ci];
            let full = &pubs.iter().find(|(m, _, _)| *m == c.m).unwrap().1;
            let mut owned: Vec<Proof> = c.inners.iter().map(|&i| inner_res[i].as_ref().unwrap().clone()).collect();
            owned[slot].public_inputs[j] = owned[slot].public_inputs[j] + F::ONE;
            run_full_pub(full, &owned.iter().collect::<Vec<_>>(), &c.addr)
        });
        let mut altered_rejected = 0usize;
        for (&(ci, slot, j), r) in altered.iter().zip(altered_res.iter()) {
            if r.is_ok() {
                let c = &cases[ci];
                let mut segs: Vec<Seg> = vec![vec![c.m as i128, n as i128], seg_u64(&c.addr)];
                for (k, &i) in c.inners.iter().enumerate() {
                    let mut v = pis_u64(inner_res[i].as_ref().unwrap());
                    if k == slot {
                        v[j] = (v[j] + 1) % P;
                    }
                    segs.push(seg_u64(&v));
                }
                out.case(1201, "full-recursive/public/ALTERED-CHILD-STATEMENT-ACCEPTED", &segs, &[-1]);
            } else {
                altered_rejected += 1;
            }
        }
        total_altered.0 += altered.len();
        total_altered.1 += altered_rejected;
        out.note(
            "full-recursive/public/n",
            &format!(
                "n={} cases={} inner private-batch proofs={} (failed to prove: {}; cases dropped for it: {}) in {}ms wall ; dummy inners used={} ; public proofs in {}ms wall ; {} ; inner statement altered after proving: {} tried, {} failed to prove (required)",
                n,
                cases.len(),
                pool.len(),
                inner_failed,
                without_inner,
                inner_ms,
                dummy_inners,
                pub_ms,
                cnt.line(),
                altered.len(),
                altered_rejected
            ),
        );
    }
    out.note("full-recursive/public/total", &format!("{} ; altered inner statements {} tried {} failed to prove ; {} ms wall", total.line(), total_altered.0, total_altered.1, t_all.elapsed().as_millis()));
}

fn main() {
    quiet_panics();
    let mut rng = Rng::new(seed_from_env());
    let thorough = tier_is_thorough();
    let mut out = Out::new();
    let which: Vec<String> = std::env::args().skip(1).collect();
    let want = |s: &str| which.is_empty() || which.iter().any(|w| w == s);
    let (data, pis) = test_helpers::fake_leaf::build_fake_leaf_circuit();
    let fl = FakeLeaf { data, pis };
    let u = universe(&mut rng);
    let (mut r_priv, mut r_pub) = (rng.fork(), rng.fork());
    if want("priv") {
        part_priv(&mut out, &mut r_priv, thorough, &fl, &u);
    }
    if want("pub") {
        part_pub(&mut out, &mut r_pub, thorough, &fl, &u);
    }
    out.flush();
}
