//! C24 / C29 (function part): public-input parsers and proof-count arithmetic, implementation side.
use plonky2::field::goldilocks_field::GoldilocksField;
use qp_wormhole_inputs::{
    public_batch_pi, validate_proof_count, BytesDigest, PrivateBatchPublicInputs,
    PublicBatchPublicInputs, PublicCircuitInputs, PublicInputsByAccount,
};
use verif_harness::*;
use wormhole_circuit::inputs::{ParsePrivateBatchPublicInputs, ParsePublicInputs};

fn dl(d: &BytesDigest, o: &mut Vec<i128>) {
    for l in digest_limbs(d) {
        o.push(l as i128);
    }
}
fn enc_leaf(r: anyhow::Result<PublicCircuitInputs>) -> Vec<i128> {
    match r {
        Err(_) => vec![0],
        Ok(s) => {
            let mut o = vec![1, s.asset_id as i128, s.output_amount_1 as i128, s.output_amount_2 as i128, s.volume_fee_bps as i128];
            dl(&s.nullifier, &mut o);
            dl(&s.exit_account_1, &mut o);
            dl(&s.exit_account_2, &mut o);
            dl(&s.block_hash, &mut o);
            o.push(s.block_number as i128);
            o
        }
    }
}
fn enc_slots(a: &[PublicInputsByAccount], o: &mut Vec<i128>) {
    for s in a {
        o.push(s.summed_output_amount as i128);
        dl(&s.exit_account, o);
    }
}
fn enc_priv(r: anyhow::Result<PrivateBatchPublicInputs>) -> Vec<i128> {
    match r {
        Err(_) => vec![0],
        Ok(s) => {
            let mut o = vec![1, s.num_exit_slots as i128, s.asset_id as i128, s.volume_fee_bps as i128];
            dl(&s.block_data.block_hash, &mut o);
            o.push(s.block_data.block_number as i128);
            enc_slots(&s.account_data, &mut o);
            for n in &s.nullifiers {
                dl(n, &mut o);
            }
            o
        }
    }
}
fn enc_pub(r: anyhow::Result<PublicBatchPublicInputs>) -> Vec<i128> {
    match r {
        Err(_) => vec![0],
        Ok(s) => {
            let mut o = vec![1];
            dl(&s.aggregator_address, &mut o);
            o.push(s.asset_id as i128);
            o.push(s.volume_fee_bps as i128);
            dl(&s.block_data.block_hash, &mut o);
            o.push(s.block_data.block_number as i128);
            o.push(s.total_exit_slots as i128);
            enc_slots(&s.account_data, &mut o);
            for n in &s.nullifiers {
                dl(n, &mut o);
            }
            o
        }
    }
}

fn felts(v: &[u64]) -> Vec<GoldilocksField> {
    v.iter().map(|&x| GoldilocksField(x)).collect()
}

/// a value that is fine for a u32 scalar position, or sometimes not
fn scalar(r: &mut Rng, bad: bool) -> u64 {
    if bad {
        *r.pick(&[1u64 << 32, (1 << 32) + 1, P - 1, P, u64::MAX, 1 << 63])
    } else {
        match r.below(3) {
            0 => r.below(1 << 32),
            1 => *r.pick(&[0, 1, 0xFFFF_FFFF, 0xFFFF_FFFE, 10000]),
            _ => r.below(100),
        }
    }
}
fn limb(r: &mut Rng, bad: bool) -> u64 {
    if bad {
        *r.pick(&[P, P + 1, u64::MAX, u64::MAX - 1])
    } else {
        match r.below(3) {
            0 => r.next() % P,
            1 => *r.pick(&[0, 1, P - 1, P - 2, 1 << 32, 0xFFFF_FFFF]),
            _ => r.below(4),
        }
    }
}

fn valid_leaf(r: &mut Rng) -> Vec<u64> {
    let mut v = vec![];
    for _ in 0..4 {
        v.push(scalar(r, false));
    }
    for _ in 0..16 {
        v.push(limb(r, false));
    }
    v.push(scalar(r, false));
    v
}
fn valid_priv(r: &mut Rng, n: usize) -> Vec<u64> {
    let mut v = vec![2 * n as u64, scalar(r, false), scalar(r, false)];
    for _ in 0..4 {
        v.push(limb(r, false));
    }
    v.push(scalar(r, false));
    for _ in 0..2 * n {
        v.push(scalar(r, false));
        for _ in 0..4 {
            v.push(limb(r, false));
        }
    }
    for _ in 0..4 * n {
        v.push(limb(r, false));
    }
    // padding up to 8 + 21 n: arbitrary garbage, must be ignored
    while v.len() < 8 + 21 * n {
        v.push(if r.chance(1, 2) { 0 } else { r.edge_u64() });
    }
    v
}
fn valid_pub(r: &mut Rng, m: usize, n: usize) -> Vec<u64> {
    let mut v = vec![];
    for _ in 0..4 {
        v.push(limb(r, false));
    }
    v.push(scalar(r, false));
    v.push(scalar(r, false));
    for _ in 0..4 {
        v.push(limb(r, false));
    }
    v.push(scalar(r, false));
    v.push((2 * m * n) as u64);
    for _ in 0..2 * m * n {
        v.push(scalar(r, false));
        for _ in 0..4 {
            v.push(limb(r, false));
        }
    }
    for _ in 0..4 * m * n {
        v.push(limb(r, false));
    }
    v
}

/// mutate: returns a tag describing the mutation
fn mutate(r: &mut Rng, v: &mut Vec<u64>) -> &'static str {
    match r.below(8) {
        0 => "valid",
        1 => {
            if !v.is_empty() {
                let i = r.below(v.len() as u64) as usize;
                v[i] = scalar(r, true);
            }
            "field-big"
        }
        2 => {
            if !v.is_empty() {
                let i = r.below(v.len() as u64) as usize;
                v[i] = limb(r, true);
            }
            "field-noncanon"
        }
        3 => {
            let k = 1 + r.below(3);
            for _ in 0..k {
                v.pop();
            }
            "shorter"
        }
        4 => {
            let k = 1 + r.below(3);
            for _ in 0..k {
                v.push(r.edge_u64());
            }
            "longer"
        }
        5 => {
            if !v.is_empty() {
                let i = r.below(v.len().min(12) as u64) as usize;
                v[i] = r.edge_u64();
            }
            "header-edge"
        }
        6 => {
            if !v.is_empty() {
                let i = r.below(v.len() as u64) as usize;
                v[i] = v[i].wrapping_add(1);
            }
            "plus-one"
        }
        _ => {
            for _ in 0..21 {
                v.push(0);
            }
            "plus-21"
        }
    }
}

fn main() {
    quiet_panics();
    let mut rng = Rng::new(seed_from_env());
    let thorough = tier_is_thorough();
    let mut out = Out::new();
    let scale = if thorough { 25 } else { 1 };

    // ---- leaf parsers
    for _ in 0..4000 * scale {
        let mut v = valid_leaf(&mut rng);
        let tag = mutate(&mut rng, &mut v);
        let r = no_panic(|| enc_leaf(PublicCircuitInputs::try_from_u64_slice(&v))).unwrap_or(PANIC.to_vec());
        out.case(2401, tag, &[seg_u64(&v)], &r);
        let f = felts(&v);
        let r = no_panic(|| enc_leaf(<PublicCircuitInputs as ParsePublicInputs>::try_from_felts(&f))).unwrap_or(PANIC.to_vec());
        out.case(2402, tag, &[seg_u64(&v)], &r);
    }
    // lengths around the boundary with all-zero / random content
    for len in 0..45usize {
        let v: Vec<u64> = (0..len).map(|_| rng.below(5)).collect();
        let r = no_panic(|| enc_leaf(PublicCircuitInputs::try_from_u64_slice(&v))).unwrap_or(PANIC.to_vec());
        out.case(2401, "len-sweep", &[seg_u64(&v)], &r);
        let f = felts(&v);
        let r = no_panic(|| enc_leaf(<PublicCircuitInputs as ParsePublicInputs>::try_from_felts(&f))).unwrap_or(PANIC.to_vec());
        out.case(2402, "len-sweep", &[seg_u64(&v)], &r);
    }

    // ---- private-batch parsers
    let ns: Vec<usize> = if thorough { (1..=66).collect() } else { vec![1, 2, 3, 5, 8, 63, 64, 65, 66] };
    for &n in &ns {
        let reps = if n <= 8 { 300 * scale } else { 12 * scale };
        for _ in 0..reps {
            let mut v = valid_priv(&mut rng, n);
            let mut tag = mutate(&mut rng, &mut v);
            if rng.chance(1, 10) {
                v[0] = rng.below(140);
                tag = "count-felt";
            }
            let r = no_panic(|| enc_priv(PrivateBatchPublicInputs::try_from_u64_slice(&v))).unwrap_or(PANIC.to_vec());
            out.case(2403, tag, &[seg_u64(&v)], &r);
            let f = felts(&v);
            let r = no_panic(|| enc_priv(<PrivateBatchPublicInputs as ParsePrivateBatchPublicInputs>::try_from_felts(&f))).unwrap_or(PANIC.to_vec());
            out.case(2404, tag, &[seg_u64(&v)], &r);
        }
    }
    for len in 0..80usize {
        let mut v: Vec<u64> = vec![0; len];
        if len > 0 {
            v[0] = rng.below(8);
        }
        let r = no_panic(|| enc_priv(PrivateBatchPublicInputs::try_from_u64_slice(&v))).unwrap_or(PANIC.to_vec());
        out.case(2403, "len-sweep", &[seg_u64(&v)], &r);
        let f = felts(&v);
        let r = no_panic(|| enc_priv(<PrivateBatchPublicInputs as ParsePrivateBatchPublicInputs>::try_from_felts(&f))).unwrap_or(PANIC.to_vec());
        out.case(2404, "len-sweep", &[seg_u64(&v)], &r);
    }

    // ---- public-batch parser
    let dims: Vec<(usize, usize)> = if thorough {
        let mut d = vec![];
        for m in 1..=8 {
            for n in 1..=8 {
                d.push((m, n));
            }
        }
        d.extend([(64, 1), (1, 64), (64, 2), (2, 64), (64, 64), (65, 1), (1, 65), (16, 16)]);
        d
    } else {
        vec![(1, 1), (1, 2), (2, 1), (2, 2), (3, 2), (2, 3), (4, 4), (64, 1), (1, 64), (8, 8)]
    };
    for &(m, n) in &dims {
        // the extracted model indexes lists in O(i): keep the huge layouts (up to 57356 felts) to a few vectors
        let reps = if m * n <= 16 { 150 * scale } else if m * n <= 128 { 6 * scale } else { 3 };
        for _ in 0..reps {
            let mut v = if m <= 64 && n <= 64 { valid_pub(&mut rng, m, n) } else { vec![0; 12] };
            let mut tag = mutate(&mut rng, &mut v);
            let (mut pm, mut pn) = (m as u64, n as u64);
            if rng.chance(1, 8) {
                // declared dimensions differ from the vector's
                let alt = [0u64, 1, 2, 64, 65, 1 << 32, 1 << 62, 1 << 63, u64::MAX, u64::MAX / 21 + 1];
                if rng.chance(1, 2) {
                    pm = *rng.pick(&alt);
                } else {
                    pn = *rng.pick(&alt);
                }
                tag = "dims-mismatch";
            }
            let r = no_panic(|| enc_pub(PublicBatchPublicInputs::try_from_u64_slice(&v, pm as usize, pn as usize))).unwrap_or(PANIC.to_vec());
            out.case(2405, tag, &[seg_u64(&v), vec![pm as i128, pn as i128]], &r);
        }
    }

    // self-consistent layouts for OUT-OF-RANGE dimensions (one count in 1..=64, the other 0 / 65 / 66, and both out of
    // range): exact length, matching total_exit_slots header, valid scalars and limbs - only the count check can reject
    for &(m, n) in &[(1usize, 65usize), (65, 1), (2, 65), (65, 2), (1, 66), (66, 1), (1, 0), (0, 1), (3, 0), (0, 3), (64, 0), (0, 64), (0, 0), (65, 65)] {
        for rep in 0..2 {
            let mut v = valid_pub(&mut rng, m, n);
            let tag = if rep == 0 { "out-of-range-dims-consistent-layout" } else { mutate(&mut rng, &mut v) };
            let r = no_panic(|| enc_pub(PublicBatchPublicInputs::try_from_u64_slice(&v, m, n))).unwrap_or(PANIC.to_vec());
            out.case(2405, tag, &[seg_u64(&v), vec![m as i128, n as i128]], &r);
        }
    }

    // ---- proof-count arithmetic
    let counts: [u64; 22] = [0, 1, 2, 63, 64, 65, 66, 100, 1 << 16, 1 << 31, (1 << 32) - 1, 1 << 32, (1 << 32) + 1, u64::MAX / 21, u64::MAX / 21 + 1, 1 << 61, 1 << 62, 1 << 63, u64::MAX / 2, u64::MAX - 1, u64::MAX, 439208192231179801];
    for c in 0..=130u64 {
        let r = if validate_proof_count(c as usize, "x").is_ok() { vec![1] } else { vec![0] };
        out.case(2901, "small", &[vec![c as i128]], &r);
    }
    for &c in &counts {
        let r = if validate_proof_count(c as usize, "x").is_ok() { vec![1] } else { vec![0] };
        out.case(2901, "edge", &[vec![c as i128]], &r);
    }
    // the aggregator's own layout helpers (unchecked usize arithmetic; release builds wrap)
    if !cfg!(debug_assertions) {
        use wormhole_aggregator::private_batch::circuit::constants::aggregated_output as pr;
        use wormhole_aggregator::public_batch::circuit::constants as pu;
        let mut cs: Vec<u64> = (0..=70).collect();
        cs.extend(counts);
        for _ in 0..200 * scale {
            cs.push(rng.edge_u64());
        }
        for &c in &cs {
            let n = c as usize;
            let o = [pr::exit_slots_count(n), pr::nullifiers_count(n), pr::exit_slots_start(), pr::nullifiers_start(n), pr::pi_len(n)];
            out.case(2904, "pr-layout", &[vec![c as i128]], &seg_usize(&o));
            // the public-batch module's view of the same private-batch layout must be the same functions
            let o2 = [pu::private_batch_exit_slots_count(n), pu::private_batch_nullifiers_count(n), pu::private_batch_exit_slots_start(), pu::private_batch_nullifiers_start(n), pu::private_batch_pi_len(n)];
            out.case(2904, "pr-layout-via-pu", &[vec![c as i128]], &seg_usize(&o2));
        }
    }
    let mut pairs: Vec<(u64, u64)> = vec![];
    for &a in &counts {
        for &b in &counts {
            pairs.push((a, b));
        }
    }
    for _ in 0..2000 * scale {
        pairs.push((rng.edge_u64(), rng.edge_u64()));
        pairs.push((rng.below(70), rng.below(70)));
    }
    // every validated pair (the domain of C29_no_wrap), exhaustively
    for a in 1..=64u64 {
        for b in 1..=64u64 {
            pairs.push((a, b));
        }
    }
    for (a, b) in pairs {
        let r = match public_batch_pi::try_pi_len(a as usize, b as usize) {
            Some(v) => vec![1, v as i128],
            None => vec![0],
        };
        out.case(2902, "try_pi_len", &[vec![a as i128, b as i128]], &r);
        // release builds wrap; debug builds (overflow-checks) panic - the model describes the wrap
        if !cfg!(debug_assertions) {
            let v = public_batch_pi::pi_len(a as usize, b as usize);
            out.case(2903, "pi_len", &[vec![a as i128, b as i128]], &[v as i128]);
            use wormhole_aggregator::public_batch::circuit::constants as pu;
            let (m, n) = (a as usize, b as usize);
            let o = [pu::public_batch_total_exit_slots(m, n), pu::public_batch_total_nullifiers(m, n), pu::public_batch_exit_slots_start(), pu::public_batch_nullifiers_start(m, n), pu::public_batch_pi_len(m, n)];
            out.case(2905, "pu-layout", &[vec![a as i128, b as i128]], &seg_usize(&o));
        }
    }
    out.flush();
}
