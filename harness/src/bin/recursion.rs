//! C11: the recursive layer of the REAL PrivateBatchCircuit / PublicBatchCircuit on own and foreign child proofs.
//! Model side: coq/Circ/Recursion.v through coq/Sys/LoadersDispatch.v.
//!
//!   1101 PrivateBatchCircuit::new over a child circuit      segs [child.num_public_inputs, n_leaf]           -> [1] | [0] | [-1]
//!   1102 PublicBatchCircuit::new over a child circuit       segs [child.num_public_inputs, n_inner, leaves]  -> [1] | [0] | [-1]
//!   1103 private-batch circuit on child proofs              segs baked key; [wrapper_ok]; then per slot: key of the producing circuit; [valid]
//!   1104 public-batch circuit on child proofs               (same)                                           -> [1] accepted | [0]
//!   1105 wires of the verifier-key region left undetermined by constants + child proofs                       -> [count]
//!
//! "accepted" = witness generation of the outer circuit succeeds AND every gate constraint holds on every row
//! (verif_harness::plonk::CircuitEval).  The prover is ADVERSARIAL about anything the circuit leaves free: if witness
//! generation stalls because the verifier-key wires are not constants, they are assigned the key of the circuit that
//! produced the child proof (the substitution attack of common/recursive.rs's module docs) and the run is repeated.
//! `wrapper_ok` is obtained independently from the wrapper constraints instantiated over free public-input targets
//! (cfg-gated forwarders, no recursive verifier).
use plonky2::field::types::{Field, PrimeField64};
use plonky2::iop::generator::GeneratedValues;
use plonky2::iop::target::Target;
use plonky2::iop::witness::{PartialWitness, PartitionWitness, Witness, WitnessWrite};
use plonky2::plonk::circuit_builder::CircuitBuilder;
use plonky2::plonk::circuit_data::{CircuitConfig, CircuitData, CommonCircuitData, VerifierOnlyCircuitData};
use plonky2::plonk::proof::{ProofWithPublicInputs, ProofWithPublicInputsTarget};
use rayon::prelude::*;
use verif_harness::plonk::*;
use verif_harness::*;
use wormhole_aggregator::private_batch::circuit::circuit_logic::{verif_build_private_batch_constraints, PrivateBatchCircuit, PrivateBatchCircuitTargets};
use wormhole_aggregator::public_batch::circuit::circuit_logic::{verif_build_public_batch_constraints, PublicBatchCircuit, PublicBatchCircuitTargets};
use zk_circuits_common::circuit::{wormhole_private_batch_circuit_config, wormhole_public_batch_circuit_config};

type Proof = ProofWithPublicInputs<F, C, D>;
type Data = CircuitData<F, C, D>;
type VO = VerifierOnlyCircuitData<C, D>;

fn vk_felts(vo: &VO) -> Vec<u64> {
    let mut v: Vec<u64> = vo.circuit_digest.elements.iter().map(|f| f.to_canonical_u64()).collect();
    for h in &vo.constants_sigmas_cap.0 {
        v.extend(h.elements.iter().map(|f| f.to_canonical_u64()));
    }
    v
}

// ------------------------------------------------------------------------------------------ child circuits
struct Child {
    name: &'static str,
    data: Data,
    pis: Vec<Target>,
}
#[derive(Clone, Copy, PartialEq)]
enum Variant {
    Base,
    Removed,
    Extra,
    Const(u64),
    Degree,
    /// one copy constraint more than the fake leaf: same gates, same degree, different permutation
    Connect,
    /// `k` unconstrained public inputs
    Pis(usize),
}
/// the fake leaf of test-helpers, re-stated so that single constraints can be varied
fn leaf_like(name: &'static str, v: Variant) -> Child {
    if v == Variant::Base {
        let (data, pis) = test_helpers::fake_leaf::build_fake_leaf_circuit();
        return Child { name, data, pis: pis.to_vec() };
    }
    let npis = if let Variant::Pis(k) = v { k } else { 21 };
    let mut b = CircuitBuilder::<F, D>::new(CircuitConfig::standard_recursion_config());
    let pis = b.add_virtual_targets(npis);
    if !matches!(v, Variant::Pis(_)) {
        b.range_check(pis[1], 32);
        b.range_check(pis[2], 32);
        if v != Variant::Removed {
            b.range_check(pis[3], 32);
        }
    }
    match v {
        Variant::Extra => b.range_check(pis[0], 32),
        Variant::Connect => b.connect(pis[5], pis[6]),
        Variant::Const(k) => {
            let _ = b.mul_const(F::from_canonical_u64(k), pis[5]);
        }
        Variant::Degree => {
            for _ in 0..700 {
                b.range_check(pis[1], 32);
            }
        }
        _ => {}
    }
    b.register_public_inputs(&pis);
    Child { name, data: b.build::<C>(), pis }
}
fn prove_child(c: &Child, vals: &[u64]) -> Proof {
    let mut vals = vals.to_vec();
    if c.name == "copy-constraint-added" {
        vals[6] = vals[5];
    }
    let mut pw = PartialWitness::new();
    for (t, v) in c.pis.iter().zip(&vals) {
        pw.set_target(*t, F::from_canonical_u64(*v)).unwrap();
    }
    c.data.prove(pw).expect("child prove")
}

fn leaf_pis(r: &mut Rng, asset: u64, dummy: bool, bh: [u64; 4], fee: u64) -> Vec<u64> {
    let d = |r: &mut Rng| -> [u64; 4] { core::array::from_fn(|_| r.next() % P) };
    let mut v = vec![asset, 0, 0, fee];
    if !dummy {
        v[1] = 1 + r.below(1000);
        v[2] = r.below(1000);
    }
    v.extend(d(r)); // nullifier
    v.extend(d(r)); // exit 1
    v.extend(d(r)); // exit 2
    v.extend(if dummy { [0; 4] } else { bh });
    v.push(if dummy { 0 } else { 9 });
    v
}

// ------------------------------------------------------------------------------------------ wrapper without recursion
struct PrivWrap {
    data: Data,
    leaf_pis: Vec<Vec<Target>>,
    pre: Vec<[Target; 4]>,
}
fn no_zk(mut c: CircuitConfig) -> CircuitConfig {
    c.zero_knowledge = false;
    c
}
fn build_priv_wrapper(n: usize, leaf_common: &CommonCircuitData<F, D>) -> PrivWrap {
    let mut b = CircuitBuilder::<F, D>::new(no_zk(wormhole_private_batch_circuit_config()));
    let leaf_proofs: Vec<_> = (0..n).map(|_| b.add_virtual_proof_with_pis(leaf_common)).collect();
    let pre: Vec<[Target; 4]> = (0..n).map(|_| core::array::from_fn(|_| b.add_virtual_target())).collect();
    let leaf_pis = leaf_proofs.iter().map(|p| p.public_inputs.clone()).collect();
    let targets = PrivateBatchCircuitTargets { leaf_proofs, dummy_nullifier_pre_images: pre.clone() };
    verif_build_private_batch_constraints(&mut b, &targets, n);
    PrivWrap { data: b.build::<C>(), leaf_pis, pre }
}
struct PubWrap {
    data: Data,
    inner_pis: Vec<Vec<Target>>,
    addr: [Target; 4],
}
fn build_pub_wrapper(m: usize, n: usize, inner_common: &CommonCircuitData<F, D>) -> PubWrap {
    let mut b = CircuitBuilder::<F, D>::new(wormhole_public_batch_circuit_config());
    let proofs: Vec<_> = (0..m).map(|_| b.add_virtual_proof_with_pis(inner_common)).collect();
    let addr: [Target; 4] = core::array::from_fn(|_| b.add_virtual_target());
    let inner_pis = proofs.iter().map(|p| p.public_inputs.clone()).collect();
    let targets = PublicBatchCircuitTargets { private_batch_proofs: proofs, aggregator_address: addr };
    verif_build_public_batch_constraints(&mut b, &targets, m, n);
    PubWrap { data: b.build::<C>(), inner_pis, addr }
}

// ------------------------------------------------------------------------------------------ adversarial evaluation
/// plonky2's witness generation, returning whatever could be determined (instead of failing when generators remain)
fn partial_generate<'a>(data: &'a Data, inputs: PartialWitness<F>) -> Option<PartitionWitness<'a, F>> {
    let po = &data.prover_only;
    let mut w = PartitionWitness::new(data.common.config.num_wires, data.common.degree(), &po.representative_map);
    for (t, v) in inputs.target_values.into_iter() {
        w.set_target(t, v).ok()?;
    }
    let gens = &po.generators;
    let mut pending: Vec<usize> = (0..gens.len()).collect();
    let mut expired = vec![false; gens.len()];
    let mut buf = GeneratedValues::empty();
    while !pending.is_empty() {
        let mut next = Vec::new();
        for &gi in &pending {
            if expired[gi] {
                continue;
            }
            if gens[gi].0.run(&w, &mut buf) {
                expired[gi] = true;
            }
            let vals: Vec<(Target, F)> = buf.target_values.drain(..).collect();
            for (t, v) in vals {
                let reps = w.set_target_returning_rep(t, v).ok()?;
                for r in reps {
                    if let Some(ws) = po.generator_indices_by_watches.get(&r) {
                        next.extend(ws.iter().filter(|&&k| !expired[k]));
                    }
                }
            }
        }
        pending = next;
    }
    Some(w)
}

/// number of the first `k` virtual targets (where add_recursive_verifiers allocates the verifier data) that constants
/// and the given inputs leave undetermined
fn free_key_wires(data: &Data, inputs: PartialWitness<F>, k: usize) -> Option<Vec<usize>> {
    let w = partial_generate(data, inputs)?;
    Some((0..k).filter(|&i| w.try_get_target(Target::VirtualTarget { index: i }).is_none()).collect())
}

/// verifier-only data in the allocation order of add_virtual_verifier_data: cap, then digest
fn key_alloc_order(vo: &VO) -> Vec<u64> {
    let mut v = Vec::new();
    for h in &vo.constants_sigmas_cap.0 {
        v.extend(h.elements.iter().map(|f| f.to_canonical_u64()));
    }
    v.extend(vo.circuit_digest.elements.iter().map(|f| f.to_canonical_u64()));
    v
}

struct Verdict {
    accepted: bool,
    how: String,
}
/// honest run first; if it does not accept, let the prover choose every undetermined verifier-key wire
fn adversarial_run(ev: &CircuitEval, data: &Data, pw: PartialWitness<F>, attacker_key: &VO) -> Verdict {
    let o = ev.run(pw.clone(), &mut no_tweak());
    if o.accepted() {
        return Verdict { accepted: true, how: "honest".into() };
    }
    let key: Vec<u64> = key_alloc_order(attacker_key);
    let free = free_key_wires(data, pw.clone(), key.len()).unwrap_or_default();
    if free.is_empty() {
        return Verdict { accepted: false, how: format!("{:?}", o).chars().take(80).collect() };
    }
    let mut pw2 = pw;
    for &i in &free {
        pw2.set_target(Target::VirtualTarget { index: i }, F::from_canonical_u64(key[i])).unwrap();
    }
    let o2 = ev.run(pw2, &mut no_tweak());
    Verdict { accepted: o2.accepted(), how: format!("prover-chosen verifier key on {} free wires", free.len()) }
}

fn set_proof(pw: &mut PartialWitness<F>, t: &ProofWithPublicInputsTarget<D>, p: &Proof) -> bool {
    matches!(no_panic(|| pw.set_proof_with_pis_target(t, p).is_ok()), Some(true))
}

struct ChildProof {
    label: String,
    key: Vec<u64>,
    vo: VO,
    valid: bool,
    proof: Proof,
}
fn pis_of(p: &Proof) -> Vec<u64> {
    p.public_inputs.iter().map(|f| f.to_canonical_u64()).collect()
}

fn main() {
    quiet_panics();
    let thorough = tier_is_thorough();
    let mut r = Rng::new(seed_from_env());
    let mut out = Out::new();
    let t0 = std::time::Instant::now();

    // ---------------- child circuits of the leaf shape (same config, same public-input count)
    let kids: Vec<Child> = vec![
        leaf_like("fake-leaf", Variant::Base),
        leaf_like("copy-constraint-added", Variant::Connect),
        leaf_like("constraint-removed", Variant::Removed),
        leaf_like("constraint-added", Variant::Extra),
        leaf_like("constant-7", Variant::Const(7)),
        leaf_like("constant-8", Variant::Const(8)),
        leaf_like("other-degree", Variant::Degree),
    ];
    for k in &kids {
        out.note(
            "child",
            &format!(
                "{}: degree_bits={} same CommonCircuitData as fake-leaf={} as constant-7={} same verifier key as fake-leaf={}",
                k.name,
                k.data.common.degree_bits(),
                k.data.common == kids[0].data.common,
                k.data.common == kids[4].data.common,
                k.data.verifier_only.circuit_digest == kids[0].data.verifier_only.circuit_digest
            ),
        );
    }
    let real_leaf = wormhole_circuit::circuit::circuit_logic::WormholeCircuit::new(zk_circuits_common::circuit::wormhole_leaf_circuit_config()).expect("leaf").build_circuit();
    out.note("child", &format!("canonical-leaf: degree_bits={} public inputs={}", real_leaf.common.degree_bits(), real_leaf.common.num_public_inputs));

    // ---------------- 1101 / 1102 constructors
    {
        let mut shapes: Vec<(usize, Data)> = Vec::new();
        for k in [0usize, 1, 20, 22, 29, 50] {
            shapes.push((k, leaf_like("pis", Variant::Pis(k)).data));
        }
        let counts: Vec<usize> = if thorough { vec![0, 1, 2, 3, 64, 65, 1000] } else { vec![0, 1, 2, 65] };
        let mut all: Vec<(usize, &Data)> = shapes.iter().map(|(k, d)| (*k, d)).collect();
        all.push((21, &kids[0].data));
        all.push((21, &real_leaf));
        for (npis, d) in &all {
            for &n in &counts {
                let res = no_panic(|| PrivateBatchCircuit::new(wormhole_private_batch_circuit_config(), &d.common, &d.verifier_only, n).map(|_| ()));
                let o = match res {
                    None => vec![-1],
                    Some(Ok(())) => vec![1],
                    Some(Err(_)) => vec![0],
                };
                out.case(1101, if *npis == 21 { "leaf-shaped-child" } else { "wrong-pi-count" }, &[vec![*npis as i128, n as i128]], &o);
            }
        }
        let ms: Vec<usize> = if thorough { vec![0, 1, 2, 64, 65] } else { vec![0, 1, 65] };
        let ls: Vec<usize> = if thorough { vec![0, 1, 2, 3, 64, 65] } else { vec![0, 1, 2, 65] };
        for (npis, d) in &all {
            for &m in &ms {
                for &l in &ls {
                    let res = no_panic(|| PublicBatchCircuit::new(wormhole_public_batch_circuit_config(), d.common.clone(), &d.verifier_only, m, l).map(|_| ()));
                    let o = match res {
                        None => vec![-1],
                        Some(Ok(())) => vec![1],
                        Some(Err(_)) => vec![0],
                    };
                    let fits = l >= 1 && *npis == 21 * l + 8;
                    out.case(1102, if fits { "private-batch-shaped-child" } else { "wrong-pi-count" }, &[vec![*npis as i128, m as i128, l as i128]], &o);
                }
            }
        }
    }
    out.note("c11", &format!("constructors after {:?}", t0.elapsed()));

    // ---------------- child proofs
    let bh: [u64; 4] = core::array::from_fn(|_| 1 + r.next() % (P - 1));
    let pis_real = leaf_pis(&mut r, 0, false, bh, 10);
    let pis_real2 = leaf_pis(&mut r, 0, false, bh, 10);
    let pis_dummy = leaf_pis(&mut r, 0, true, bh, 10);
    let pis_asset7 = leaf_pis(&mut r, 7, false, bh, 10);
    let mut cps: Vec<ChildProof> = Vec::new();
    for (i, k) in kids.iter().enumerate() {
        let sets: Vec<(&str, &Vec<u64>)> = if i == 0 { vec![("real", &pis_real), ("real2", &pis_real2), ("dummy", &pis_dummy), ("asset7", &pis_asset7)] } else { vec![("real", &pis_real), ("dummy", &pis_dummy)] };
        for (t, pis) in sets {
            let p = prove_child(k, pis);
            assert!(k.data.verify(p.clone()).is_ok());
            cps.push(ChildProof { label: format!("{}/{}", k.name, t), key: vk_felts(&k.data.verifier_only), vo: k.data.verifier_only.clone(), valid: true, proof: p });
        }
    }
    // an own-circuit "proof" that does not verify: a valid proof with one public input changed afterwards
    {
        let mut p = cps[0].proof.clone();
        p.public_inputs[1] = p.public_inputs[1] + F::ONE;
        assert!(kids[0].data.verify(p.clone()).is_err());
        cps.push(ChildProof { label: "fake-leaf/tampered-after-proving".into(), key: vk_felts(&kids[0].data.verifier_only), vo: kids[0].data.verifier_only.clone(), valid: false, proof: p });
    }
    // a genuine proof of the canonical leaf circuit (the dummy statement of the repo's test inputs)
    let real_proof = {
        use test_helpers::TestInputs as _;
        let inputs = wormhole_circuit::inputs::CircuitInputs::test_inputs_0();
        wormhole_prover::build_fresh().commit(&inputs).expect("commit").prove().expect("prove canonical leaf")
    };
    assert!(real_leaf.verify(real_proof.clone()).is_ok());
    cps.push(ChildProof { label: "canonical-leaf/test_inputs_0".into(), key: vk_felts(&real_leaf.verifier_only), vo: real_leaf.verifier_only.clone(), valid: true, proof: real_proof });
    out.note("c11", &format!("{} child proofs after {:?}", cps.len(), t0.elapsed()));

    // ---------------- private-batch circuits
    struct Outer {
        name: String,
        key: Vec<u64>,
        vo: VO,
        n: usize,
        data: Data,
        targets: PrivateBatchCircuitTargets,
    }
    let mk_outer = |name: &str, common: &CommonCircuitData<F, D>, vo: &VO, n: usize| -> Outer {
        let c = PrivateBatchCircuit::new(wormhole_private_batch_circuit_config(), common, vo, n).expect("outer private batch");
        let targets = c.targets();
        Outer { name: name.to_string(), key: vk_felts(vo), vo: vo.clone(), n, data: c.build_circuit(), targets }
    };
    let specs: Vec<(&str, &CommonCircuitData<F, D>, &VO, usize)> = vec![
        ("private-batch[fake-leaf]", &kids[0].data.common, &kids[0].data.verifier_only, 1),
        ("private-batch[constant-7]", &kids[4].data.common, &kids[4].data.verifier_only, 1),
        ("private-batch[copy-constraint-added]", &kids[1].data.common, &kids[1].data.verifier_only, 1),
        ("private-batch[canonical-leaf]", &real_leaf.common, &real_leaf.verifier_only, 1),
        ("private-batch[fake-leaf]x2", &kids[0].data.common, &kids[0].data.verifier_only, 2),
    ];
    let outers: Vec<Outer> = specs.par_iter().map(|(n, c, v, k)| mk_outer(n, c, v, *k)).collect();
    let wrap1 = build_priv_wrapper(1, &kids[0].data.common);
    let wrap2 = build_priv_wrapper(2, &kids[0].data.common);
    out.note("c11", &format!("{} private-batch circuits after {:?}", outers.len(), t0.elapsed()));
    let pre = |r: &mut Rng| -> [u64; 4] { core::array::from_fn(|_| r.next() % P) };

    let wrapper_ok = |w: &PrivWrap, pis: &[Vec<u64>], pres: &[[u64; 4]]| -> bool {
        let mut pw = PartialWitness::new();
        for (ts, vs) in w.leaf_pis.iter().zip(pis) {
            if ts.len() != vs.len() {
                return false;
            }
            for (t, v) in ts.iter().zip(vs) {
                pw_set(&mut pw, *t, *v);
            }
        }
        for (ts, vs) in w.pre.iter().zip(pres) {
            for (t, v) in ts.iter().zip(vs) {
                pw_set(&mut pw, *t, *v);
            }
        }
        CircuitEval::new(&w.data).run(pw, &mut no_tweak()).accepted()
    };

    // one evaluation: (segments, out, note)
    let eval_private = |o: &Outer, ev: &CircuitEval, slots: &[&ChildProof], pres: &[[u64; 4]]| -> (Vec<Seg>, Vec<i128>, Option<String>) {
        let w_ok = {
            let pis: Vec<Vec<u64>> = slots.iter().map(|c| pis_of(&c.proof)).collect();
            wrapper_ok(if o.n == 1 { &wrap1 } else { &wrap2 }, &pis, pres)
        };
        let mut pw = PartialWitness::new();
        let mut assignable = true;
        for (t, c) in o.targets.leaf_proofs.iter().zip(slots) {
            assignable &= set_proof(&mut pw, t, &c.proof);
        }
        for (ts, vs) in o.targets.dummy_nullifier_pre_images.iter().zip(pres) {
            for (t, v) in ts.iter().zip(vs) {
                pw_set(&mut pw, *t, *v);
            }
        }
        // the attacker's key: that of the first slot whose proof is foreign (else the circuit's own)
        let attacker = slots.iter().find(|c| c.key != o.key).map(|c| &c.vo).unwrap_or(&o.vo);
        let v = if assignable { adversarial_run(ev, &o.data, pw, attacker) } else { Verdict { accepted: false, how: "proof does not fit the proof targets".into() } };
        let mut segs: Vec<Seg> = vec![seg_u64(&o.key), vec![w_ok as i128]];
        for c in slots {
            segs.push(seg_u64(&c.key));
            segs.push(vec![c.valid as i128]);
        }
        let note = if v.accepted && v.how != "honest" {
            Some(format!("{} accepted {:?} with a {}", o.name, slots.iter().map(|c| c.label.clone()).collect::<Vec<_>>(), v.how))
        } else {
            None
        };
        (segs, vec![v.accepted as i128], note)
    };

    // (fid 1105 cases are printed last, so that the first reported disagreement is a concrete accepted foreign proof)
    let mut free_counts: Vec<(&str, i128)> = Vec::new();
    let evs: Vec<CircuitEval> = outers.iter().map(|o| CircuitEval::new(&o.data)).collect();
    // jobs: (outer index, slots, tag)
    let mut jobs: Vec<(usize, Vec<&ChildProof>, String, Vec<[u64; 4]>)> = Vec::new();
    for (oi, o) in outers.iter().enumerate().filter(|(_, o)| o.n == 1) {
        // 1105: with an own proof, does anything in the key region stay undetermined?
        if let Some(own) = cps.iter().find(|c| c.key == o.key && c.valid) {
            let mut pw = PartialWitness::new();
            set_proof(&mut pw, &o.targets.leaf_proofs[0], &own.proof);
            let k = own.key.len();
            let free = free_key_wires(&o.data, pw, k).map(|f| f.len() as i128).unwrap_or(-1);
            free_counts.push(("private-batch", free));
        }
        for c in &cps {
            // the fake-leaf circuit meets every child proof; the others their own, the fake leaf's and their nearest variant
            let near = (o.name.contains("constant-7") && c.label.starts_with("constant-8")) || c.label.starts_with("fake-leaf/real") || c.label.starts_with("fake-leaf/dummy");
            if !(thorough || oi == 0 || c.key == o.key || near) {
                continue;
            }
            let tag = if c.key == o.key {
                if c.valid {
                    "own-proof"
                } else {
                    "own-circuit-invalid-proof"
                }
            } else if c.proof.public_inputs.len() == 21 && c.proof.proof.opening_proof.query_round_proofs[0].steps.len() == cps.iter().find(|x| x.key == o.key).map(|x| x.proof.proof.opening_proof.query_round_proofs[0].steps.len()).unwrap_or(usize::MAX) {
                "foreign-proof-same-shape"
            } else {
                "foreign-proof-other-shape"
            };
            jobs.push((oi, vec![c], tag.to_string(), vec![pre(&mut r)]));
        }
    }
    {
        let oi = outers.iter().position(|o| o.n == 2).unwrap();
        let by = |l: &str| cps.iter().find(|c| c.label == l).unwrap();
        let own = by("fake-leaf/real");
        let own2 = by("fake-leaf/real2");
        let own_dummy = by("fake-leaf/dummy");
        let own_a7 = by("fake-leaf/asset7");
        let f7 = by("constant-7/real");
        let frm = by("constraint-removed/dummy");
        for (slots, tag) in [
            (vec![own, own2], "n2:own+own"),
            (vec![own, own_dummy], "n2:own+own-dummy"),
            (vec![own, own_a7], "n2:own+own-wrapper-violation"),
            (vec![own, f7], "n2:own+foreign"),
            (vec![f7, own2], "n2:foreign+own"),
            (vec![frm, own2], "n2:foreign-dummy+own"),
            // a foreign proof in a LATER slot whose statement is wrapper-compatible with the own proof in slot 0: only the
            // recursive verification of that slot can reject it (catches "verifies slot 0 only" wiring bugs)
            (vec![own, frm], "n2:own+foreign-dummy(compatible)"),
            (vec![own2, frm], "n2:own2+foreign-dummy(compatible)"),
            (vec![f7, f7], "n2:foreign+foreign"),
        ] {
            jobs.push((oi, slots, tag.to_string(), vec![pre(&mut r), pre(&mut r)]));
        }
    }
    let results: Vec<(Vec<Seg>, Vec<i128>, Option<String>)> = jobs.par_iter().map(|(oi, slots, _, pres)| eval_private(&outers[*oi], &evs[*oi], slots, pres)).collect();
    for ((_, _, tag, _), (segs, o, note)) in jobs.iter().zip(results) {
        if let Some(n) = note {
            out.note("attack", &n);
        }
        out.case(1103, tag, &segs, &o);
    }
    out.note("c11", &format!("private layer after {:?}", t0.elapsed()));

    // ---------------- public-batch layer: children are private-batch circuits over different leaves
    // (same private-batch program, different baked leaf key => same shape, different verifier key)
    let pb_kids: Vec<&Outer> = outers.iter().filter(|o| o.n == 1 && o.name != "private-batch[canonical-leaf]").collect();
    let pb_made: Vec<Option<ChildProof>> = pb_kids
        .par_iter()
        .map(|o| {
            let own = cps.iter().find(|c| c.key == o.key && c.valid)?;
            let mut pw = PartialWitness::new();
            if !set_proof(&mut pw, &o.targets.leaf_proofs[0], &own.proof) {
                return None;
            }
            for t in o.targets.dummy_nullifier_pre_images[0].iter() {
                pw_set(&mut pw, *t, 12345);
            }
            // should the circuit leave key wires to the prover, an honest prover fills in the intended key
            let key = key_alloc_order(&o.vo);
            for i in free_key_wires(&o.data, pw.clone(), key.len()).unwrap_or_default() {
                pw.set_target(Target::VirtualTarget { index: i }, F::from_canonical_u64(key[i])).ok()?;
            }
            let p = no_panic(|| o.data.prove(pw).ok()).flatten()?;
            if o.data.verify(p.clone()).is_err() {
                return None;
            }
            Some(ChildProof { label: o.name.clone(), key: vk_felts(&o.data.verifier_only), vo: o.data.verifier_only.clone(), valid: true, proof: p })
        })
        .collect();
    if pb_made.iter().any(|p| p.is_none()) || pb_made.is_empty() {
        out.note("c11", "could not prove every private-batch child circuit: public-batch layer skipped");
        for (t, f) in &free_counts {
            out.case(1105, t, &[], &[*f]);
        }
        out.flush();
        return;
    }
    let pb_proofs: Vec<ChildProof> = pb_made.into_iter().map(|p| p.unwrap()).collect();
    for (o, _) in pb_kids.iter().zip(&pb_proofs) {
        out.note(
            "child",
            &format!(
                "{}: degree_bits={} same CommonCircuitData as private-batch[fake-leaf]={} same verifier key={}",
                o.name,
                o.data.common.degree_bits(),
                o.data.common == pb_kids[0].data.common,
                o.data.verifier_only.circuit_digest == pb_kids[0].data.verifier_only.circuit_digest
            ),
        );
    }
    let mut pub_children: Vec<ChildProof> = pb_proofs;
    {
        let mut p = pub_children[0].proof.clone();
        p.public_inputs[1] = p.public_inputs[1] + F::ONE;
        pub_children.push(ChildProof { label: "private-batch[fake-leaf]/tampered-after-proving".into(), key: pub_children[0].key.clone(), vo: pub_children[0].vo.clone(), valid: false, proof: p });
        // a non-recursive circuit with the private-batch public-input count
        let f29 = leaf_like("pis", Variant::Pis(29));
        let vals = pis_of(&pub_children[0].proof);
        let p = prove_child(&f29, &vals);
        pub_children.push(ChildProof { label: "flat-29-input-circuit".into(), key: vk_felts(&f29.data.verifier_only), vo: f29.data.verifier_only.clone(), valid: true, proof: p });
    }
    out.note("c11", &format!("{} private-batch-level proofs after {:?}", pub_children.len(), t0.elapsed()));
    {
        let base = pb_kids[0];
        let c = PublicBatchCircuit::new(wormhole_public_batch_circuit_config(), base.data.common.clone(), &base.data.verifier_only, 1, 1).expect("public batch");
        let targets = c.targets();
        let data = c.build_circuit();
        let ev = CircuitEval::new(&data);
        let wrap = build_pub_wrapper(1, 1, &base.data.common);
        let key = vk_felts(&base.data.verifier_only);
        let addr: [u64; 4] = core::array::from_fn(|_| r.next() % P);
        {
            let mut pw = PartialWitness::new();
            set_proof(&mut pw, &targets.private_batch_proofs[0], &pub_children[0].proof);
            let free = free_key_wires(&data, pw, key.len()).map(|f| f.len() as i128).unwrap_or(-1);
            free_counts.push(("public-batch", free));
        }
        for c in &pub_children {
            let w_ok = {
                let pis = pis_of(&c.proof);
                if pis.len() != wrap.inner_pis[0].len() {
                    false
                } else {
                    let mut pw = PartialWitness::new();
                    for (t, v) in wrap.inner_pis[0].iter().zip(&pis) {
                        pw_set(&mut pw, *t, *v);
                    }
                    for (t, v) in wrap.addr.iter().zip(&addr) {
                        pw_set(&mut pw, *t, *v);
                    }
                    CircuitEval::new(&wrap.data).run(pw, &mut no_tweak()).accepted()
                }
            };
            let mut pw = PartialWitness::new();
            let assignable = set_proof(&mut pw, &targets.private_batch_proofs[0], &c.proof);
            for (t, v) in targets.aggregator_address.iter().zip(&addr) {
                pw_set(&mut pw, *t, *v);
            }
            let attacker = if c.key != key { &c.vo } else { &base.data.verifier_only };
            let v = if assignable { adversarial_run(&ev, &data, pw, attacker) } else { Verdict { accepted: false, how: "proof does not fit the proof targets".into() } };
            let tag = if c.key == key {
                if c.valid {
                    "own-proof"
                } else {
                    "own-circuit-invalid-proof"
                }
            } else if c.label.starts_with("private-batch") {
                "foreign-proof"
            } else {
                "foreign-proof-other-shape"
            };
            if v.accepted && v.how != "honest" {
                out.note("attack", &format!("public-batch[private-batch[fake-leaf]] accepted {} with a {}", c.label, v.how));
            }
            out.case(1104, tag, &[seg_u64(&key), vec![w_ok as i128], seg_u64(&c.key), vec![c.valid as i128]], &[v.accepted as i128]);
        }
        if thorough {
            // the evaluator's "accepted" agrees with the real prover + verifier on the own proof
            let mut pw = PartialWitness::new();
            set_proof(&mut pw, &targets.private_batch_proofs[0], &pub_children[0].proof);
            for (t, v) in targets.aggregator_address.iter().zip(&addr) {
                pw_set(&mut pw, *t, *v);
            }
            let ok = data.prove(pw).map(|p| data.verify(p).is_ok()).unwrap_or(false);
            out.note("c11", &format!("real prove+verify of the public batch over its own child: {}", ok));
            assert!(ok);
        }
    }
    for (t, f) in &free_counts {
        out.case(1105, t, &[], &[*f]);
    }
    out.note("c11", &format!("done after {:?}", t0.elapsed()));
    out.flush();
}
