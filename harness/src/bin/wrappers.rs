//! C06-C10, C12, C13, C36: the REAL wrapper-constraint builders (build_private_batch_constraints,
//! build_public_batch_constraints, through the cfg-gated forwarders) instantiated over free child
//! public-input targets (no recursive verifier), on honest and hint-overridden witnesses.
//! Model side: coq/Circ/WrappersRun.v.
use plonky2::iop::target::Target;
use plonky2::iop::witness::PartialWitness;
use plonky2::plonk::circuit_builder::CircuitBuilder;
use plonky2::plonk::circuit_data::{CircuitConfig, CircuitData, CommonCircuitData};
use verif_harness::batchgen::{gen_leaves, universe, Leaf};
use verif_harness::plonk::*;
use verif_harness::*;
use wormhole_aggregator::private_batch::circuit::circuit_logic::{verif_build_private_batch_constraints, PrivateBatchCircuitTargets};
use wormhole_aggregator::public_batch::circuit::circuit_logic::{verif_build_public_batch_constraints, PublicBatchCircuitTargets};
use zk_circuits_common::circuit::{wormhole_private_batch_circuit_config, wormhole_public_batch_circuit_config};

const EQ: &str = "EqualityGenerator";
const LH: &str = "LowHighGenerator";
const SP: &str = "BaseSplitGenerator";

pub struct PrivWrap {
    pub data: CircuitData<F, C, D>,
    pub leaf_pis: Vec<Vec<Target>>,
    pub pre: Vec<[Target; 4]>,
    pub n: usize,
}
fn no_zk(mut c: CircuitConfig) -> CircuitConfig {
    // blinding only adds random rows; the wrapper constraints are identical. Keeping it off makes runs reproducible.
    c.zero_knowledge = false;
    c
}
pub fn build_priv(n: usize, leaf_common: &CommonCircuitData<F, D>) -> PrivWrap {
    let mut b = CircuitBuilder::<F, D>::new(no_zk(wormhole_private_batch_circuit_config()));
    let leaf_proofs: Vec<_> = (0..n).map(|_| b.add_virtual_proof_with_pis(leaf_common)).collect();
    let pre: Vec<[Target; 4]> = (0..n).map(|_| core::array::from_fn(|_| b.add_virtual_target())).collect();
    let leaf_pis = leaf_proofs.iter().map(|p| p.public_inputs.clone()).collect();
    let targets = PrivateBatchCircuitTargets { leaf_proofs, dummy_nullifier_pre_images: pre.clone() };
    verif_build_private_batch_constraints(&mut b, &targets, n);
    PrivWrap { data: b.build::<C>(), leaf_pis, pre, n }
}
pub struct PubWrap {
    pub data: CircuitData<F, C, D>,
    pub inner_pis: Vec<Vec<Target>>,
    pub addr: [Target; 4],
}
pub fn build_pub(m: usize, n: usize, inner_common: &CommonCircuitData<F, D>) -> PubWrap {
    let mut b = CircuitBuilder::<F, D>::new(wormhole_public_batch_circuit_config());
    let proofs: Vec<_> = (0..m).map(|_| b.add_virtual_proof_with_pis(inner_common)).collect();
    let addr: [Target; 4] = core::array::from_fn(|_| b.add_virtual_target());
    let inner_pis = proofs.iter().map(|p| p.public_inputs.clone()).collect();
    let targets = PublicBatchCircuitTargets { private_batch_proofs: proofs, aggregator_address: addr };
    verif_build_public_batch_constraints(&mut b, &targets, m, n);
    PubWrap { data: b.build::<C>(), inner_pis, addr }
}

fn priv_pw(w: &PrivWrap, leaves: &[Leaf], pre: &[[u64; 4]]) -> PartialWitness<F> {
    let mut pw = PartialWitness::new();
    for i in 0..w.n {
        for j in 0..21 {
            pw_set(&mut pw, w.leaf_pis[i][j], leaves[i][j]);
        }
        for j in 0..4 {
            pw_set(&mut pw, w.pre[i][j], pre[i][j]);
        }
    }
    pw
}
fn priv_segs(leaves: &[Leaf], pre: &[[u64; 4]]) -> Vec<Seg> {
    let mut s: Vec<Seg> = vec![vec![leaves.len() as i128]];
    for l in leaves {
        s.push(seg_u64(l));
    }
    for p in pre {
        s.push(seg_u64(p));
    }
    s
}

#[derive(Clone)]
struct Ovr {
    kind: i128,
    occ: usize,
    vals: Vec<u64>,
}
fn run_ovr(ev: &CircuitEval, pw: PartialWitness<F>, ovrs: &[Ovr]) -> Outcome {
    let mut tw = |id: &str, occ: usize, _w: &plonky2::iop::witness::PartitionWitness<F>, vals: &mut Vec<(Target, F)>| {
        for o in ovrs {
            let pre = match o.kind {
                1 => EQ,
                2 => LH,
                _ => SP,
            };
            if id.starts_with(pre) && occ == o.occ {
                for (i, v) in o.vals.iter().enumerate() {
                    if i < vals.len() {
                        vals[i].1 = f(*v);
                    }
                }
            }
        }
    };
    ev.run(pw, &mut tw)
}
/// honest (low, high) of LowHighGenerator occurrence `occ` on this witness, re-presented through the x + p alias of the
/// split value (None when x + p >= 2^64).  For a comparator's 32/33 split the alias has high = 2^32 - 1 (not a bit).
fn lh_alias_of(ev: &CircuitEval, pw: PartialWitness<F>, occ: usize) -> Option<Ovr> {
    let mut seen: Option<(u64, u64)> = None;
    {
        let mut tw = |id: &str, o: usize, _w: &plonky2::iop::witness::PartitionWitness<F>, vals: &mut Vec<(Target, F)>| {
            if id.starts_with(LH) && o == occ && vals.len() >= 2 {
                seen = Some((plonky2::field::types::PrimeField64::to_canonical_u64(&vals[0].1), plonky2::field::types::PrimeField64::to_canonical_u64(&vals[1].1)));
            }
        };
        let _ = ev.run(pw, &mut tw);
    }
    let (lo, hi) = seen?;
    let y = lo as u128 + ((hi as u128) << 32) + P as u128;
    if y >> 64 != 0 {
        return None;
    }
    Some(Ovr { kind: 2, occ, vals: vec![(y & 0xFFFF_FFFF) as u64, (y >> 32) as u64] })
}
fn ovr_segs(ovrs: &[Ovr]) -> Vec<Seg> {
    ovrs.iter()
        .map(|o| {
            let mut s: Seg = vec![o.kind, o.occ as i128];
            s.extend(o.vals.iter().map(|&v| (v % P) as i128));
            s
        })
        .collect()
}
fn fingerprint(ev: &CircuitEval) -> Vec<i128> {
    ev.hint_fingerprint().iter().map(|id| if id.starts_with(EQ) { 1 } else if id.starts_with("WireSplitGenerator") { 2 } else { 3 }).collect()
}

fn permutations(n: usize) -> Vec<Vec<usize>> {
    fn go(cur: &mut Vec<usize>, used: &mut Vec<bool>, n: usize, out: &mut Vec<Vec<usize>>) {
        if cur.len() == n {
            out.push(cur.clone());
            return;
        }
        for i in 0..n {
            if !used[i] {
                used[i] = true;
                cur.push(i);
                go(cur, used, n, out);
                cur.pop();
                used[i] = false;
            }
        }
    }
    let mut out = vec![];
    go(&mut vec![], &mut vec![false; n], n, &mut out);
    out
}

fn main() {
    quiet_panics();
    let mut rng = Rng::new(seed_from_env());
    let thorough = tier_is_thorough();
    let mut out = Out::new();
    let which: Vec<String> = std::env::args().skip(1).collect();
    let want = |s: &str| which.is_empty() || which.iter().any(|w| w == s);

    let (fake_leaf, _t) = test_helpers::fake_leaf::build_fake_leaf_circuit();
    let leaf_common = fake_leaf.common.clone();
    let u = universe(&mut rng);

    // ------------------------------------------------------------------ private wrapper
    let mut priv_circuits: std::collections::BTreeMap<usize, PrivWrap> = Default::default();
    let sizes: Vec<usize> = if thorough { vec![1, 2, 3, 4, 5, 6, 7, 8, 12, 16, 32] } else { vec![1, 2, 3, 4, 5, 8] };
    if want("priv") || want("two") {
        for &n in &sizes {
            priv_circuits.insert(n, build_priv(n, &leaf_common));
        }
    }
    if want("priv") {
        for (&n, w) in priv_circuits.iter() {
            let ev = CircuitEval::new(&w.data);
            out.note("private-wrapper", &format!("n={} degree={} pis={} eq={} lh={} sp={}", n, w.data.common.degree(), w.data.prover_only.public_inputs.len(), ev.count_gen(EQ), ev.count_gen(LH), ev.count_gen(SP)));
            let pre0: Vec<[u64; 4]> = (0..n).map(|_| [0; 4]).collect();
            out.case(605, "fingerprint", &priv_segs(&vec![[0u64; 21]; n], &pre0), &fingerprint(&ev));
            let reps = if n <= 4 { if thorough { 600 } else { 70 } } else if n <= 8 { if thorough { 120 } else { 16 } } else if thorough { 10 } else { 3 };
            for _ in 0..reps {
                let (leaves, tag) = gen_leaves(&mut rng, n, &u);
                let pre: Vec<[u64; 4]> = (0..n).map(|_| core::array::from_fn(|_| rng.next() % P)).collect();
                let o = ev.run(priv_pw(w, &leaves, &pre), &mut no_tweak());
                out.case(601, &tag, &priv_segs(&leaves, &pre), &o.enc());
                // permutations of the slots (with their preimages): acceptance, header and nullifier region must not change
                if n >= 2 && n <= 4 && rng.chance(1, 3) {
                    let perms = permutations(n);
                    let take = if thorough { perms.len() } else { 3.min(perms.len()) };
                    for k in 0..take {
                        let pm = if thorough { perms[k].clone() } else { perms[rng.below(perms.len() as u64) as usize].clone() };
                        let l2: Vec<Leaf> = pm.iter().map(|&i| leaves[i]).collect();
                        let p2: Vec<[u64; 4]> = pm.iter().map(|&i| pre[i]).collect();
                        let o2 = ev.run(priv_pw(w, &l2, &p2), &mut no_tweak());
                        out.case(601, &format!("{}+permuted", tag), &priv_segs(&l2, &p2), &o2.enc());
                    }
                }
                // hint overrides (no witness freedom): small n only (the model evaluates every constraint)
                if n <= 3 && rng.chance(1, 2) {
                    let neq = ev.count_gen(EQ);
                    let nlh = ev.count_gen(LH);
                    let nsp = ev.count_gen(SP);
                    let mut ovrs = vec![];
                    let otag;
                    match rng.below(6) {
                        4 | 5 => {
                            // any split of the nullifier sort (ingress 32/64 or comparator 32/33) through its x + p alias
                            let mut t = "lowhigh-alias-none";
                            if nlh > 0 {
                                let occ = rng.below(nlh as u64) as usize;
                                match lh_alias_of(&ev, priv_pw(w, &leaves, &pre), occ) {
                                    Some(o) => {
                                        ovrs.push(o);
                                        t = "lowhigh-alias";
                                    }
                                    None => {
                                        ovrs.push(Ovr { kind: 2, occ, vals: vec![rng.below(1 << 32), (1 << 32) - 1] });
                                        t = "lowhigh-high-max";
                                    }
                                }
                            }
                            otag = t;
                        }
                        0 => {
                            ovrs.push(Ovr { kind: 1, occ: rng.below(neq as u64) as usize, vals: vec![*rng.pick(&[0u64, 1, 2, P - 1]), if rng.chance(1, 2) { 0 } else { rng.edge_felt() }] });
                            otag = "eq-forge";
                        }
                        1 => {
                            ovrs.push(Ovr { kind: 1, occ: rng.below(neq as u64) as usize, vals: vec![1, 0] });
                            otag = "eq-claim-equal";
                        }
                        2 => {
                            if nlh > 0 {
                                let occ = rng.below(nlh as u64) as usize;
                                ovrs.push(Ovr { kind: 2, occ, vals: vec![rng.below(1 << 32), if rng.chance(1, 2) { rng.below(2) } else { rng.below(1 << 32) }] });
                            }
                            otag = "lowhigh-forge";
                        }
                        _ => {
                            // the 2n sum range checks come first among the split_le calls
                            let occ = rng.below((2 * n).min(nsp) as u64) as usize;
                            let mut bs: Vec<u64> = (0..32).map(|_| rng.below(2)).collect();
                            if rng.chance(1, 4) {
                                bs[3] = 2;
                            }
                            ovrs.push(Ovr { kind: 3, occ, vals: bs });
                            otag = "sum-bits-forge";
                        }
                    }
                    let o3 = run_ovr(&ev, priv_pw(w, &leaves, &pre), &ovrs);
                    let mut segs = priv_segs(&leaves, &pre);
                    segs.extend(ovr_segs(&ovrs));
                    out.case(602, &format!("{}+{}", otag, tag), &segs, &o3.enc());
                }
            }
        }
        // exhaustive small domain, n = 2 (thorough: n = 2 full domain, n = 3 reduced)
        {
            let w = &priv_circuits[&2];
            let ev = CircuitEval::new(&w.data);
            let accs = [[0u64; 4], u.accounts[1], u.accounts[2]];
            let amts: Vec<u64> = if thorough { vec![0, 1, 1 << 31, (1 << 32) - 1] } else { vec![0, 1 << 31] };
            let bhs = [[0u64; 4], u.blocks[0].0];
            let nls = [u.nullifiers[0], u.nullifiers[1]];
            // per-slot domain: account pair x amount pair x bh x nullifier
            let mut dom: Vec<Leaf> = vec![];
            for a1 in 0..accs.len() {
                for a2 in 0..accs.len() {
                    for &m1 in &amts {
                        for &m2 in &amts {
                            for bh in 0..2 {
                                for nl in 0..2 {
                                    let mut l: Leaf = [0; 21];
                                    l[1] = m1;
                                    l[2] = m2;
                                    l[3] = 10;
                                    l[4..8].copy_from_slice(&nls[nl]);
                                    l[8..12].copy_from_slice(&accs[a1]);
                                    l[12..16].copy_from_slice(&accs[a2]);
                                    l[16..20].copy_from_slice(&bhs[bh]);
                                    l[20] = if bh == 1 { 42 } else { 0 };
                                    dom.push(l);
                                }
                            }
                        }
                    }
                }
            }
            let pre = [[5u64, 6, 7, 8], [9, 10, 11, 12]];
            let stride = if thorough { 1 } else { 7 };
            let mut k = 0usize;
            for x in 0..dom.len() {
                for y in 0..dom.len() {
                    k += 1;
                    if k % stride != 0 {
                        continue;
                    }
                    let leaves = vec![dom[x], dom[y]];
                    let o = ev.run(priv_pw(w, &leaves, &pre), &mut no_tweak());
                    out.case(601, "exhaustive-small-domain-n2", &priv_segs(&leaves, &pre), &o.enc());
                }
            }
            out.note("exhaustive-n2-domain", &format!("per-slot domain {} ; pairs {} ; stride {}", dom.len(), dom.len() * dom.len(), stride));
        }
    }

    // ------------------------------------------------------------------ public wrapper
    if want("pub") {
        let dims: Vec<(usize, usize)> = if thorough { vec![(1, 1), (2, 1), (3, 1), (1, 2), (2, 2), (3, 2), (2, 3), (4, 4), (8, 2), (2, 8), (16, 4)] } else { vec![(1, 1), (2, 1), (3, 1), (2, 2), (3, 2), (4, 3)] };
        for &(m, n) in &dims {
            // a circuit with the right number of public inputs to borrow a CommonCircuitData from
            let inner_common = {
                let mut b = CircuitBuilder::<F, D>::new(CircuitConfig::standard_recursion_config());
                let ts = b.add_virtual_targets(21 * n + 8);
                b.register_public_inputs(&ts);
                b.build::<C>().common
            };
            let w = build_pub(m, n, &inner_common);
            let ev = CircuitEval::new(&w.data);
            out.note("public-wrapper", &format!("m={} n={} degree={} pis={}", m, n, w.data.common.degree(), w.data.prover_only.public_inputs.len()));
            let len = 21 * n + 8;
            let mk_segs = |addr: &[u64; 4], inners: &Vec<Vec<u64>>| -> Vec<Seg> {
                let mut s: Vec<Seg> = vec![vec![m as i128, n as i128], seg_u64(addr)];
                for i in inners {
                    s.push(seg_u64(i));
                }
                s
            };
            out.case(1205, "fingerprint", &mk_segs(&[0; 4], &vec![vec![0u64; len]; m]), &fingerprint(&ev));
            let reps = if m * n <= 6 { if thorough { 500 } else { 80 } } else if thorough { 40 } else { 10 };
            for _ in 0..reps {
                let addr: [u64; 4] = core::array::from_fn(|_| rng.edge_felt());
                let asset = rng.below(2);
                let fee = *rng.pick(&[0u64, 10]);
                let blk = rng.below(u.blocks.len() as u64) as usize;
                let other_blk = (blk + 1 + rng.below(u.blocks.len() as u64 - 1) as usize) % u.blocks.len();
                let mut tag = String::from("consistent");
                let mut inners: Vec<Vec<u64>> = vec![];
                for _ in 0..m {
                    let dummy = rng.chance(1, 3);
                    let mut v: Vec<u64> = vec![0; len];
                    v[0] = (2 * n) as u64;
                    v[1] = asset;
                    v[2] = fee;
                    if !dummy {
                        v[3..7].copy_from_slice(&u.blocks[blk].0);
                        v[7] = u.blocks[blk].1;
                    } else {
                        v[7] = rng.below(100);
                        if rng.chance(1, 2) {
                            v[1] = rng.below(3);
                            v[2] = rng.below(30);
                        }
                    }
                    for k in 8..len {
                        v[k] = match rng.below(4) {
                            0 => 0,
                            1 => rng.below(4),
                            _ => rng.next() % P,
                        };
                    }
                    inners.push(v);
                }
                match rng.below(8) {
                    0 => {
                        let i = rng.below(m as u64) as usize;
                        inners[i][1] = asset + 1;
                        tag = "asset-mismatch(maybe dummy)".into();
                    }
                    1 => {
                        let i = rng.below(m as u64) as usize;
                        inners[i][2] = fee + 1;
                        tag = "fee-mismatch(maybe dummy)".into();
                    }
                    2 => {
                        let i = rng.below(m as u64) as usize;
                        inners[i][3..7].copy_from_slice(&u.blocks[other_blk].0);
                        tag = "block-mismatch".into();
                    }
                    3 => {
                        let i = rng.below(m as u64) as usize;
                        inners[i][7] = rng.below(1 << 32);
                        tag = "block-number-differs(not checked)".into();
                    }
                    4 => {
                        for v in inners.iter_mut() {
                            v[3..7].copy_from_slice(&[0; 4]);
                        }
                        tag = "all-dummy".into();
                    }
                    5 => {
                        let i = rng.below(m as u64) as usize;
                        inners[i][0] = rng.below(200);
                        tag = "inner-count-felt-garbage(not checked)".into();
                    }
                    6 => {
                        // (asset, fee) pairs that collide under a packed comparison asset * RADIX + fee for plausible radices:
                        // both real, same block, asset AND fee differ
                        if m >= 2 {
                            let radix = *rng.pick(&[10_000u64, 10_001, 16_384, 65_536, 1 << 32]);
                            let i = rng.below(m as u64) as usize;
                            let j = (i + 1 + rng.below(m as u64 - 1) as usize) % m;
                            for (k, (a, f)) in [(i, (asset, radix)), (j, (asset + 1, 0))] {
                                inners[k][1] = a;
                                inners[k][2] = f;
                                inners[k][3..7].copy_from_slice(&u.blocks[blk].0);
                                inners[k][7] = u.blocks[blk].1;
                            }
                            tag = "asset-fee-packed-collision".into();
                        }
                    }
                    _ => {}
                }
                let mut pw = PartialWitness::new();
                for j in 0..4 {
                    pw_set(&mut pw, w.addr[j], addr[j]);
                }
                for i in 0..m {
                    for j in 0..len {
                        pw_set(&mut pw, w.inner_pis[i][j], inners[i][j]);
                    }
                }
                let o = ev.run(pw.clone(), &mut no_tweak());
                out.case(1201, &tag, &mk_segs(&addr, &inners), &o.enc());
                if m * n <= 4 && rng.chance(1, 3) {
                    let neq = ev.count_gen(EQ);
                    let ovrs = vec![Ovr { kind: 1, occ: rng.below(neq as u64) as usize, vals: vec![*rng.pick(&[0u64, 1, 2]), if rng.chance(1, 2) { 0 } else { rng.edge_felt() }] }];
                    let o3 = run_ovr(&ev, pw, &ovrs);
                    let mut segs = mk_segs(&addr, &inners);
                    segs.extend(ovr_segs(&ovrs));
                    out.case(1202, &format!("eq-forge+{}", tag), &segs, &o3.enc());
                }
            }
        }
    }

    // ------------------------------------------------------------------ two layers chained
    if want("two") {
        let dims: Vec<(usize, usize)> = if thorough { vec![(1, 1), (2, 1), (1, 2), (2, 2), (3, 2), (2, 3), (3, 3), (2, 4)] } else { vec![(1, 1), (2, 1), (2, 2), (3, 2)] };
        for &(m, n) in &dims {
            let pw_circ = match priv_circuits.get(&n) {
                Some(c) => c,
                None => continue,
            };
            let evp = CircuitEval::new(&pw_circ.data);
            let inner_common = pw_circ.data.common.clone();
            let wpub = build_pub(m, n, &inner_common);
            let evu = CircuitEval::new(&wpub.data);
            let reps = if thorough { 200 } else { 40 };
            for _ in 0..reps {
                // a compatible set of real leaves split over m batches, padded with dummies; sometimes a whole dummy batch
                let (mut all, tag) = gen_leaves(&mut rng, m * n, &u);
                let whole_dummy = if m >= 2 && rng.chance(1, 3) { Some(rng.below(m as u64) as usize) } else { None };
                if let Some(g) = whole_dummy {
                    for k in 0..n {
                        all[g * n + k][16..20].copy_from_slice(&[0; 4]);
                    }
                }
                let pre: Vec<[u64; 4]> = (0..m * n).map(|_| core::array::from_fn(|_| rng.next() % P)).collect();
                let addr: [u64; 4] = core::array::from_fn(|_| rng.next() % P);
                let mut inner_outs: Vec<Vec<u64>> = vec![];
                let mut ok = true;
                for g in 0..m {
                    match evp.run(priv_pw(pw_circ, &all[g * n..(g + 1) * n], &pre[g * n..(g + 1) * n]), &mut no_tweak()) {
                        Outcome::Accept(p) => inner_outs.push(p),
                        _ => {
                            ok = false;
                            break;
                        }
                    }
                }
                let enc = if !ok {
                    vec![0]
                } else {
                    let mut pw = PartialWitness::new();
                    for j in 0..4 {
                        pw_set(&mut pw, wpub.addr[j], addr[j]);
                    }
                    for i in 0..m {
                        for j in 0..(21 * n + 8) {
                            pw_set(&mut pw, wpub.inner_pis[i][j], inner_outs[i][j]);
                        }
                    }
                    evu.run(pw, &mut no_tweak()).enc()
                };
                let mut segs: Vec<Seg> = vec![vec![m as i128, n as i128], seg_u64(&addr)];
                for l in &all {
                    segs.push(seg_u64(l));
                }
                for p in &pre {
                    segs.push(seg_u64(p));
                }
                out.case(3601, &format!("two-layer {}{}", tag, if whole_dummy.is_some() { "+dummy-batch" } else { "" }), &segs, &enc);
            }
        }
    }
    out.flush();
}
