//! C05: the REAL leaf prover end to end - WormholeProver::commit -> prove -> the canonical pinned
//! WormholeVerifier (rebuilt artifacts through new_from_bytes, i.e. through the keccak pins) -> both
//! public-input parsers - on honest inputs over every depth 0..16 and on malformed position/sibling
//! vectors. Model side: coq/Sys/LeafProver.v (prove_outcome).
use plonky2::field::types::PrimeField64;
use rayon::prelude::*;
use verif_harness::leafgen::*;
use verif_harness::*;
use wormhole_circuit::circuit::circuit_logic::WormholeCircuit;
use wormhole_circuit::inputs::{CircuitInputs, ParsePublicInputs, PrivateCircuitInputs, PublicCircuitInputs};
use wormhole_prover::WormholeProver;
use wormhole_verifier::WormholeVerifier;
use zk_circuits_common::circuit::wormhole_leaf_circuit_config;
use zk_circuits_common::utils::{bytes_to_felts, BytesDigest};

fn bd(l: &[u64; 4]) -> BytesDigest {
    BytesDigest::try_from(limbs_digest(l)).expect("canonical digest")
}

struct Case {
    tag: String,
    a: LeafAssign,
    digest_bytes: [u8; 110],
    /// what is handed to the prover: siblings (bytes) and positions, possibly malformed
    siblings: Vec<[[u8; 32]; 3]>,
    positions: Vec<u8>,
}

fn to_inputs(c: &Case) -> CircuitInputs {
    let a = &c.a;
    CircuitInputs {
        public: PublicCircuitInputs {
            asset_id: a.asset as u32,
            output_amount_1: a.out1 as u32,
            output_amount_2: a.out2 as u32,
            volume_fee_bps: a.fee as u32,
            nullifier: bd(&a.nullifier),
            exit_account_1: bd(&a.exit1),
            exit_account_2: bd(&a.exit2),
            block_hash: bd(&a.block_hash),
            block_number: a.block_number as u32,
        },
        private: PrivateCircuitInputs {
            secret: limbs_digest(&a.unsp_secret).try_into().expect("canonical secret"),
            transfer_count: (a.leaf_tc[0] << 32) | a.leaf_tc[1],
            unspendable_account: bd(&a.unsp_account),
            parent_hash: bd(&a.parent_hash),
            state_root: bd(&a.state_root),
            extrinsics_root: bd(&a.extrinsics_root),
            digest: c.digest_bytes,
            input_amount: a.input_amount as u32,
            zk_tree_root: limbs_digest(&a.tree_root),
            zk_merkle_siblings: c.siblings.clone(),
            zk_merkle_positions: c.positions.clone(),
        },
    }
}

fn segs(c: &Case) -> Vec<Seg> {
    let a = &c.a;
    let tc = (a.leaf_tc[0] << 32) | a.leaf_tc[1];
    let mut s: Vec<Seg> = vec![
        vec![a.asset as i128, a.out1 as i128, a.out2 as i128, a.fee as i128, a.input_amount as i128, tc as i128, a.block_number as i128],
        seg_u64(&a.nullifier),
        seg_u64(&a.exit1),
        seg_u64(&a.exit2),
        seg_u64(&a.block_hash),
        seg_u64(&a.unsp_secret),
        seg_u64(&a.unsp_account),
        seg_u64(&a.parent_hash),
        seg_u64(&a.state_root),
        seg_u64(&a.extrinsics_root),
        seg_u64(&a.tree_root),
        seg_u64(&a.digest),
        c.positions.iter().map(|&p| p as i128).collect(),
    ];
    for lvl in &c.siblings {
        for k in 0..3 {
            s.push(seg_u64(&digest_limbs(&lvl[k])));
        }
    }
    s
}

fn gen_case(r: &mut Rng, depth: usize, kind: usize) -> Case {
    // digest logs at the byte level; the felts the circuit hashes come from the repo's own encoder
    let mut digest_bytes = [0u8; 110];
    for b in digest_bytes.iter_mut() {
        *b = r.below(256) as u8;
    }
    let mut a = LeafAssign::honest(r, depth);
    let felts = bytes_to_felts(&digest_bytes).unwrap();
    assert_eq!(felts.len(), 28);
    for (i, f) in felts.iter().enumerate() {
        a.digest[i] = f.to_canonical_u64();
    }
    a.rederive();
    let mut siblings: Vec<[[u8; 32]; 3]> = (0..depth).map(|l| core::array::from_fn(|k| limbs_digest(&a.siblings[l][k]))).collect();
    let mut positions: Vec<u8> = (0..depth).map(|l| a.positions[l] as u8).collect();
    let tag;
    match kind {
        0 => tag = "honest".to_string(),
        1 => {
            // dummy statement: zero block hash and outputs, everything else arbitrary
            a.block_hash = [0; 4];
            a.out1 = 0;
            a.out2 = 0;
            a.nullifier = rand_digest(r);
            tag = "honest-dummy".to_string();
        }
        2 => {
            let extra = 1 + r.below(3) as usize;
            for _ in 0..(17 - depth.min(16)) + extra - 1 {
                siblings.push(core::array::from_fn(|_| limbs_digest(&rand_digest(r))));
                positions.push(r.below(4) as u8);
            }
            tag = format!("depth-{}", siblings.len());
        }
        3 => {
            if r.chance(1, 2) || positions.is_empty() {
                positions.push(r.below(4) as u8);
                tag = "positions-longer".to_string();
            } else {
                positions.pop();
                tag = "positions-shorter".to_string();
            }
        }
        4 => {
            if positions.is_empty() {
                siblings.push(core::array::from_fn(|_| limbs_digest(&rand_digest(r))));
                positions.push(4);
            } else {
                let i = r.below(positions.len() as u64) as usize;
                positions[i] = *r.pick(&[4u8, 5, 7, 128, 255]);
            }
            tag = "position-above-3".to_string();
        }
        5 => {
            // well-shaped but dishonest: commit accepts, proving must fail
            match r.below(5) {
                0 => a.nullifier = rand_digest(r),
                1 => a.tree_root = rand_digest(r),
                2 => a.out1 = (a.out1 + 1 + a.input_amount) & 0xFFFF_FFFF,
                3 => a.fee = 10001 + r.below(1000),
                _ => a.unsp_account = rand_digest(r),
            }
            tag = "dishonest-statement".to_string();
        }
        _ => {
            positions.clear();
            if siblings.is_empty() {
                positions.push(0);
            }
            tag = "positions-empty-or-extra".to_string();
        }
    }
    Case { tag, a, digest_bytes, siblings, positions }
}

fn main() {
    quiet_panics();
    let mut rng = Rng::new(seed_from_env());
    let thorough = tier_is_thorough();
    let mut out = Out::new();

    // the canonical pinned verifier, from a fresh rebuild of the leaf circuit (this also checks the two keccak pins)
    let vd = WormholeCircuit::new(wormhole_leaf_circuit_config()).expect("leaf circuit").build_verifier();
    let common_bytes = vd.common.to_bytes(&plonky2::util::serialization::DefaultGateSerializer).unwrap();
    let verifier_bytes = vd.verifier_only.to_bytes().unwrap();
    let verifier = match WormholeVerifier::new_from_bytes(&verifier_bytes, &common_bytes) {
        Ok(v) => v,
        Err(e) => {
            out.note("canonical-verifier", &format!("REJECTED the fresh rebuild: {e}"));
            out.case(501, "canonical-verifier-rejects-rebuild", &[], &[-5]);
            out.flush();
            return;
        }
    };
    out.note("canonical-verifier", "fresh rebuild accepted by WormholeVerifier::new_from_bytes (keccak pins match)");

    let per_depth = if thorough { 120 } else { 6 };
    let mut cases: Vec<Case> = vec![];
    for depth in 0..=16usize {
        for rep in 0..per_depth {
            let kind = if rep < 2 { 0 } else if rep == 2 { 1 } else { 2 + (rng.below(5) as usize) };
            cases.push(gen_case(&mut rng, depth, kind));
        }
    }
    let results: Vec<(Vec<i128>, String)> = cases
        .par_iter()
        .map(|c| {
            let r = no_panic(|| {
                let inputs = to_inputs(c);
                let prover = WormholeProver::new(wormhole_leaf_circuit_config()).expect("prover");
                let committed = match prover.commit(&inputs) {
                    Err(_) => return (vec![0], String::new()),
                    Ok(p) => p,
                };
                let proof = match committed.prove() {
                    Err(_) => return (vec![2], String::new()),
                    Ok(p) => p,
                };
                let pis: Vec<u64> = proof.public_inputs.iter().map(|x| x.to_canonical_u64()).collect();
                // canonical pinned verifier
                let vp = wormhole_verifier::ProofWithPublicInputs::from_bytes(proof.to_bytes(), &verifier.circuit_data.common);
                let verified = match vp {
                    Ok(vp) => verifier.verify_ref(&vp).is_ok(),
                    Err(_) => false,
                };
                if !verified {
                    return (vec![3], "pinned verifier rejected an honest proof".into());
                }
                // both parsers give back the statement
                let p1 = PublicCircuitInputs::try_from_u64_slice(&pis);
                let p2 = <PublicCircuitInputs as ParsePublicInputs>::try_from_felts(&proof.public_inputs);
                let ok1 = matches!(&p1, Ok(p) if *p == inputs.public);
                let ok2 = matches!(&p2, Ok(p) if *p == inputs.public);
                if !(ok1 && ok2) {
                    return (vec![4], "public inputs do not parse back to the statement".into());
                }
                let mut o: Vec<i128> = vec![1];
                o.extend(pis.iter().map(|&x| x as i128));
                (o, String::new())
            });
            r.unwrap_or((PANIC.to_vec(), "panic".into()))
        })
        .collect();
    for (c, (enc, note)) in cases.iter().zip(results.iter()) {
        if !note.is_empty() {
            out.note("anomaly", &format!("{}: {}", c.tag, note));
        }
        out.case(501, &c.tag, &segs(c), enc);
    }
    out.flush();
}
