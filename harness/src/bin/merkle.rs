//! C27 - native 4-ary Merkle proofs (common/src/zk_merkle.rs) and their circuit-side form
//! (wormhole/circuit/src/zk_merkle_proof.rs), implementation side. Model: coq/Sys/Merkle.v `dispatch_h`
//! (Poseidon2 answered by `hashd`).
//!
//! A 32-byte hash travels as its four little-endian u64 limbs.
//!   2701 ZkMerkleProof::{verify, verify_with_positions}   segs: leaf; root; positions; siblings (12 limbs / level)
//!        out: [verify, verify_with_positions]
//!   2702 ZkMerkleProof::from_unsorted                       segs: leaf; root; unsorted siblings
//!        out: 0 | 1, depth, positions, sorted siblings, leaf, root, verify(), 1, root2, verify(root := root2)
//!        where root2 = the fold of the order-independent `hash_node` over the unsorted child sets
//!   2703 insert_at_position                                 segs: current; three siblings; [position]
//!   2704 hash_node_presorted ++ hash_node                   segs: four children
//!   2705 native verify of a byte proof vs the circuit model's path constraints on the data that
//!        ZkMerkleProofData::new (the conversion the prover uses, TryFrom<&CircuitInputs>) stores for it
//!        segs: leaf hash; root felts; positions; sibling felts          out: [native verify]
//!   2706 the same for a byte proof containing a non-canonical alias limb (v + p)
//!        segs: raw leaf; raw root; positions; raw siblings; stored root felts; stored sibling felts
//!        out: [native verify of the alias proof, stored felts = limbs mod p, native verify of the original]
use plonky2::field::types::{Field, PrimeField64};
use plonky2::hash::poseidon2::Poseidon2Hash;
use plonky2::plonk::config::Hasher;
use verif_harness::*;
use wormhole_circuit::zk_merkle_proof::{ZkLeafData, ZkMerkleProofData};
use zk_circuits_common::circuit::F;
use zk_circuits_common::zk_merkle::{
    hash_node, hash_node_presorted, insert_at_position, Hash256, ZkMerkleProof, MAX_DEPTH,
};

type Level = [Hash256; 3];

fn b(x: bool) -> i128 {
    x as i128
}
fn hseg(h: &Hash256) -> Seg {
    seg_u64(&digest_limbs(h))
}
fn levels_seg(ls: &[Level]) -> Seg {
    let mut s = Seg::new();
    for l in ls {
        for h in l {
            s.extend(hseg(h));
        }
    }
    s
}
fn pos_seg(p: &[u8]) -> Seg {
    p.iter().map(|&x| x as i128).collect()
}

/// canonical limb, biased to the boundaries and to byte-order / numeric-order disagreements
fn canon_limb(r: &mut Rng) -> u64 {
    const E: [u64; 14] = [
        0,
        1,
        2,
        0x100,
        0x0100_0000_0000_0000,
        0x00ff_ffff_ffff_ffff,
        0xff,
        0xffff_ffff,
        0x1_0000_0000,
        P - 1,
        P - 2,
        0xffff_fffe_ffff_ffff,
        0xffff_ffff_0000_0000,
        0x8000_0000_0000_0000,
    ];
    match r.below(4) {
        0 => *r.pick(&E),
        1 => r.below(4),
        _ => r.next() % P,
    }
}
fn noncanon_limb(r: &mut Rng) -> u64 {
    match r.below(4) {
        0 => P,
        1 => u64::MAX,
        2 => P + 1 + r.below(0xffff_fffe),
        _ => P + r.below(4),
    }
}
fn canon_hash(r: &mut Rng) -> Hash256 {
    limbs_digest(&[canon_limb(r), canon_limb(r), canon_limb(r), canon_limb(r)])
}
/// hashes from a tiny domain: ties and first-byte/numeric disagreements are frequent
fn small_hash(r: &mut Rng) -> Hash256 {
    const D: [u64; 5] = [0, 1, 0x100, 0x0100_0000_0000_0000, 0xff];
    let mut l = [0u64; 4];
    let k = r.below(3);
    for (i, x) in l.iter_mut().enumerate() {
        *x = if k == 0 && i > 0 { 0 } else { *r.pick(&D) };
    }
    limbs_digest(&l)
}
fn any_hash(r: &mut Rng) -> Hash256 {
    if r.chance(1, 4) {
        small_hash(r)
    } else {
        canon_hash(r)
    }
}
fn level(r: &mut Rng) -> Level {
    [any_hash(r), any_hash(r), any_hash(r)]
}
/// the +p alias of a limb (needs v < 2^32 - 1)
fn alias_hash(r: &mut Rng, h: &Hash256) -> Option<Hash256> {
    let mut l = digest_limbs(h);
    let start = r.below(4) as usize;
    for k in 0..4 {
        let i = (start + k) % 4;
        if let Some(v) = l[i].checked_add(P) {
            l[i] = v;
            return Some(limbs_digest(&l));
        }
    }
    None
}
fn noncanon_hash(r: &mut Rng) -> Hash256 {
    let mut l = digest_limbs(&canon_hash(r));
    l[r.below(4) as usize] = noncanon_limb(r);
    limbs_digest(&l)
}

/// reference fold with the repo's own primitives: insert at the hinted position, hash presorted
fn fold(leaf: &Hash256, sibs: &[Level], pos: &[u8]) -> Option<Hash256> {
    let mut cur = *leaf;
    for (l, &p) in sibs.iter().zip(pos.iter()) {
        let ch = insert_at_position(cur, l, p).ok()?;
        cur = hash_node_presorted(&ch).ok()?;
    }
    Some(cur)
}

fn emit_verify(o: &mut Out, tag: &str, pr: &ZkMerkleProof) {
    let v1 = no_panic(|| pr.verify()).map(b).unwrap_or(-1);
    let v2 = no_panic(|| pr.verify_with_positions()).map(b).unwrap_or(-1);
    o.case(2701, tag, &[hseg(&pr.leaf_hash), hseg(&pr.root), pos_seg(&pr.positions), levels_seg(&pr.siblings)], &[v1, v2]);
}

fn mk(sibs: Vec<Level>, pos: Vec<u8>, leaf: Hash256, root: Hash256) -> ZkMerkleProof {
    ZkMerkleProof::new(0, sibs, pos, leaf, root)
}

/// a proof that satisfies the fold (positions arbitrary in 0..3: verify does not require sortedness)
fn valid_proof(r: &mut Rng, d: usize) -> ZkMerkleProof {
    let leaf = any_hash(r);
    let sibs: Vec<Level> = (0..d).map(|_| level(r)).collect();
    let pos: Vec<u8> = (0..d).map(|_| r.below(4) as u8).collect();
    let root = fold(&leaf, &sibs, &pos).unwrap();
    mk(sibs, pos, leaf, root)
}

fn flip(h: &mut Hash256, byte: usize, bit: u32) {
    h[byte] ^= 1u8 << bit;
}

fn corruptions(o: &mut Out, r: &mut Rng, base: &ZkMerkleProof, exhaustive: bool) {
    let d = base.siblings.len();
    emit_verify(o, "valid", base);
    // sibling bytes
    if exhaustive {
        for lv in 0..d {
            for s in 0..3 {
                for byte in 0..32 {
                    let mut p = base.clone();
                    flip(&mut p.siblings[lv][s], byte, r.below(8) as u32);
                    emit_verify(o, "flip-sibling-byte(all)", &p);
                }
            }
        }
        for byte in 0..32 {
            let mut p = base.clone();
            flip(&mut p.leaf_hash, byte, r.below(8) as u32);
            emit_verify(o, "flip-leaf-byte(all)", &p);
            let mut p = base.clone();
            flip(&mut p.root, byte, r.below(8) as u32);
            emit_verify(o, "flip-root-byte(all)", &p);
        }
    } else {
        for _ in 0..3 {
            if d > 0 {
                let mut p = base.clone();
                flip(&mut p.siblings[r.below(d as u64) as usize][r.below(3) as usize], r.below(32) as usize, r.below(8) as u32);
                emit_verify(o, "flip-sibling-byte", &p);
            }
        }
        let mut p = base.clone();
        flip(&mut p.leaf_hash, r.below(32) as usize, r.below(8) as u32);
        emit_verify(o, "flip-leaf-byte", &p);
        let mut p = base.clone();
        flip(&mut p.root, r.below(32) as usize, r.below(8) as u32);
        emit_verify(o, "flip-root-byte", &p);
    }
    // positions: every level, every other value
    for lv in 0..d {
        for q in [0u8, 1, 2, 3, 4, 5, 7, 255] {
            if q != base.positions[lv] && (exhaustive || q >= 3 || r.chance(1, 3)) {
                let mut p = base.clone();
                p.positions[lv] = q;
                emit_verify(o, if q > 3 { "position-out-of-range" } else { "position-changed" }, &p);
            }
        }
    }
    // swap two siblings of a level (same multiset, different arrangement)
    if d > 0 {
        let mut p = base.clone();
        let lv = r.below(d as u64) as usize;
        p.siblings[lv].swap(0, 1 + r.below(2) as usize);
        emit_verify(o, "swap-siblings", &p);
    }
    // depth by truncation / extension
    if d > 0 {
        let mut p = base.clone();
        p.siblings.pop();
        p.positions.pop();
        emit_verify(o, "truncate-level", &p);
        let mut p = base.clone();
        p.positions.pop();
        emit_verify(o, "truncate-positions-only", &p);
        let mut p = base.clone();
        p.siblings.pop();
        emit_verify(o, "truncate-siblings-only", &p);
        let mut p = base.clone();
        p.siblings.remove(0);
        p.positions.remove(0);
        emit_verify(o, "drop-first-level", &p);
    }
    {
        let mut p = base.clone();
        p.siblings.push(level(r));
        p.positions.push(r.below(4) as u8);
        emit_verify(o, "extend-level", &p);
        // extended AND re-rooted: valid again unless the depth bound is crossed
        let mut q = p.clone();
        q.root = fold(&q.leaf_hash, &q.siblings, &q.positions).unwrap();
        emit_verify(o, if q.siblings.len() > MAX_DEPTH { "extend-level-rerooted(over-max)" } else { "extend-level-rerooted" }, &q);
        let mut p = base.clone();
        p.positions.push(r.below(4) as u8);
        emit_verify(o, "extend-positions-only", &p);
        let mut p = base.clone();
        p.siblings.push(level(r));
        emit_verify(o, "extend-siblings-only", &p);
    }
    // wrong root
    {
        let mut p = base.clone();
        p.root = if d > 0 { p.leaf_hash } else { any_hash(r) };
        emit_verify(o, "root-unrelated", &p);
        if d > 0 {
            // the hash of the level below the root
            let mut p = base.clone();
            p.root = fold(&p.leaf_hash, &p.siblings[..d - 1], &p.positions[..d - 1]).unwrap();
            emit_verify(o, "root-of-shorter-path", &p);
        }
    }
    // non-canonical aliases v + p and plainly non-canonical limbs
    if let Some(a) = alias_hash(r, &base.leaf_hash) {
        let mut p = base.clone();
        p.leaf_hash = a;
        emit_verify(o, "leaf-alias(v+p)", &p);
        if d == 0 {
            let mut p = base.clone();
            p.leaf_hash = a;
            p.root = a;
            emit_verify(o, "leaf-alias=root,depth0", &p);
        }
    }
    if let Some(a) = alias_hash(r, &base.root) {
        let mut p = base.clone();
        p.root = a;
        emit_verify(o, "root-alias(v+p)", &p);
    }
    for lv in 0..d {
        let s = r.below(3) as usize;
        if let Some(a) = alias_hash(r, &base.siblings[lv][s]) {
            let mut p = base.clone();
            p.siblings[lv][s] = a;
            emit_verify(o, "sibling-alias(v+p)", &p);
        }
    }
    {
        let mut p = base.clone();
        p.leaf_hash = noncanon_hash(r);
        emit_verify(o, "leaf-noncanonical", &p);
        let mut p = base.clone();
        p.root = noncanon_hash(r);
        emit_verify(o, "root-noncanonical", &p);
        if d > 0 {
            let mut p = base.clone();
            p.siblings[r.below(d as u64) as usize][r.below(3) as usize] = noncanon_hash(r);
            emit_verify(o, "sibling-noncanonical", &p);
        }
    }
}

fn enc_from_unsorted(leaf: &Hash256, sibs: &[Level], r: Option<Result<ZkMerkleProof, &'static str>>) -> Seg {
    match r {
        None => PANIC.to_vec(),
        Some(Err(_)) => vec![0],
        Some(Ok(pr)) => {
            let mut o: Seg = vec![1, pr.siblings.len() as i128];
            o.extend(pos_seg(&pr.positions));
            o.extend(levels_seg(&pr.siblings));
            o.extend(hseg(&pr.leaf_hash));
            o.extend(hseg(&pr.root));
            o.push(no_panic(|| pr.verify()).map(b).unwrap_or(-1));
            // the root as the tree builder computes it: order-independent hash_node over the raw child sets
            let mut cur = Some(*leaf);
            for l in sibs {
                cur = cur.and_then(|c| hash_node(&[c, l[0], l[1], l[2]]).ok());
            }
            match cur {
                None => o.push(0),
                Some(r2) => {
                    o.push(1);
                    o.extend(hseg(&r2));
                    let mut p2 = pr.clone();
                    p2.root = r2;
                    o.push(no_panic(|| p2.verify()).map(b).unwrap_or(-1));
                }
            }
            o
        }
    }
}
fn emit_from_unsorted(o: &mut Out, tag: &str, leaf: Hash256, root: Hash256, sibs: Vec<Level>) {
    let s = [hseg(&leaf), hseg(&root), levels_seg(&sibs)];
    let res = no_panic(|| ZkMerkleProof::from_unsorted(7, sibs.clone(), leaf, root));
    o.case(2702, tag, &s, &enc_from_unsorted(&leaf, &sibs, res));
}

/// unsorted path whose levels are built against the running hash (ties with it possible)
fn adversarial_path(r: &mut Rng, d: usize) -> (Hash256, Vec<Level>, Hash256) {
    let leaf = any_hash(r);
    let mut cur = leaf;
    let mut sibs = Vec::new();
    for _ in 0..d {
        let mut l = match r.below(5) {
            0 => [small_hash(r), small_hash(r), small_hash(r)],
            1 => {
                let x = any_hash(r);
                [x, x, any_hash(r)]
            }
            2 => {
                let x = any_hash(r);
                [x, x, x]
            }
            _ => level(r),
        };
        match r.below(6) {
            0 => l[r.below(3) as usize] = cur,
            1 => {
                l[0] = cur;
                l[2] = cur;
            }
            2 => l = [cur, cur, cur],
            3 => {
                // differs from the running hash in one byte only
                let mut x = cur;
                let i = r.below(32) as usize;
                x[i] = x[i].wrapping_add(1 + r.below(255) as u8);
                if zk_circuits_common::zk_merkle::is_canonical_hash(&x) {
                    l[r.below(3) as usize] = x;
                }
            }
            _ => {}
        }
        sibs.push(l);
        cur = hash_node(&[cur, l[0], l[1], l[2]]).unwrap();
    }
    (leaf, sibs, cur)
}

fn felts_canon(v: &[F]) -> Seg {
    v.iter().map(|f| f.to_canonical_u64() as i128).collect()
}
fn data_sibs_seg(d: &ZkMerkleProofData) -> Seg {
    let mut s = Seg::new();
    for l in &d.siblings {
        for h in l {
            s.extend(felts_canon(h));
        }
    }
    s
}
fn rand_leaf_data(r: &mut Rng) -> ZkLeafData {
    ZkLeafData::new(canon_hash(r), r.next(), r.next() as u32, r.next() as u32, r.next() as u32, r.next() as u32, r.below(10001) as u32)
}

fn main() {
    quiet_panics();
    let mut rng = Rng::new(seed_from_env());
    let thorough = tier_is_thorough();
    let scale: usize = if thorough { 8 } else { 1 };
    let mut o = Out::new();
    let r = &mut rng;

    // ---------------- 2701: all 4^d position vectors for d <= 3 (each proof valid by construction)
    for d in 0..=3usize {
        for rep in 0..(2 * scale) {
            let leaf = if rep == 0 { small_hash(r) } else { any_hash(r) };
            let sibs: Vec<Level> = (0..d).map(|_| level(r)).collect();
            for code in 0..(4usize.pow(d as u32)) {
                let pos: Vec<u8> = (0..d).map(|i| ((code >> (2 * i)) & 3) as u8).collect();
                let root = fold(&leaf, &sibs, &pos).unwrap();
                emit_verify(&mut o, "all-positions-valid", &mk(sibs.clone(), pos.clone(), leaf, root));
                // the same root under a different position vector
                if d > 0 {
                    let other: Vec<u8> = pos.iter().map(|&q| (q + 1 + r.below(3) as u8) % 4).collect();
                    emit_verify(&mut o, "all-positions-other-vector", &mk(sibs.clone(), other, leaf, root));
                }
            }
        }
    }
    // ---------------- 2701: every depth 0..17(18), valid + every single corruption
    for d in 0..=18usize {
        let reps = if d <= 2 { 2 } else { 1 } * scale;
        for rep in 0..reps {
            let base = valid_proof(r, d);
            corruptions(&mut o, r, &base, d <= 2 && rep == 0);
        }
    }
    // proofs normalised by from_unsorted, then corrupted
    for d in [1usize, 2, 5, 16] {
        let (leaf, sibs, root) = adversarial_path(r, d);
        if let Ok(pr) = ZkMerkleProof::from_unsorted(0, sibs, leaf, root) {
            corruptions(&mut o, r, &pr, false);
        }
    }
    // random soup: independent fields, mostly invalid
    for _ in 0..(150 * scale) {
        let d = r.below(19) as usize;
        let dp = if r.chance(3, 4) { d } else { r.below(19) as usize };
        let hh = |r: &mut Rng| if r.chance(1, 8) { noncanon_hash(r) } else { any_hash(r) };
        let sibs: Vec<Level> = (0..d).map(|_| [hh(r), hh(r), hh(r)]).collect();
        let pos: Vec<u8> = (0..dp).map(|_| if r.chance(1, 10) { r.below(256) as u8 } else { r.below(4) as u8 }).collect();
        let leaf = hh(r);
        let root = if r.chance(1, 2) { fold(&leaf, &sibs, &pos).unwrap_or(leaf) } else { hh(r) };
        emit_verify(&mut o, "soup", &mk(sibs, pos, leaf, root));
    }

    // ---------------- 2702: from_unsorted
    for d in 0..=18usize {
        for _ in 0..(3 * scale) {
            let (leaf, sibs, root) = adversarial_path(r, d.min(16));
            let mut sibs = sibs;
            while sibs.len() < d {
                sibs.push(level(r));
            }
            let tag = if d > MAX_DEPTH { "over-max-depth" } else { "path(true root)" };
            emit_from_unsorted(&mut o, tag, leaf, root, sibs.clone());
            if d <= MAX_DEPTH {
                emit_from_unsorted(&mut o, "path(unrelated root)", leaf, any_hash(r), sibs.clone());
                emit_from_unsorted(&mut o, "path(non-canonical root)", leaf, noncanon_hash(r), sibs.clone());
                // non-canonical leaf / sibling
                emit_from_unsorted(&mut o, "leaf-noncanonical", noncanon_hash(r), root, sibs.clone());
                if let Some(a) = alias_hash(r, &leaf) {
                    emit_from_unsorted(&mut o, "leaf-alias(v+p)", a, root, sibs.clone());
                }
                if d > 0 {
                    let lv = r.below(d as u64) as usize;
                    let s = r.below(3) as usize;
                    let mut bad = sibs.clone();
                    bad[lv][s] = noncanon_hash(r);
                    emit_from_unsorted(&mut o, "sibling-noncanonical", leaf, root, bad);
                    if let Some(a) = alias_hash(r, &sibs[lv][s]) {
                        let mut bad = sibs.clone();
                        bad[lv][s] = a;
                        emit_from_unsorted(&mut o, "sibling-alias(v+p)", leaf, root, bad);
                    }
                }
            }
        }
    }
    // every order of one child set, small domain (ties, byte order vs numeric order)
    for _ in 0..(25 * scale) {
        let leaf = small_hash(r);
        let l = [small_hash(r), small_hash(r), small_hash(r)];
        let root = hash_node(&[leaf, l[0], l[1], l[2]]).unwrap();
        for perm in [[0usize, 1, 2], [0, 2, 1], [1, 0, 2], [1, 2, 0], [2, 0, 1], [2, 1, 0]] {
            emit_from_unsorted(&mut o, "small-domain-all-orders", leaf, root, vec![[l[perm[0]], l[perm[1]], l[perm[2]]]]);
        }
    }
    // byte order vs numeric order, explicitly: limb 0x0100 (bytes 00 01) sorts before limb 0x0001 (bytes 01 00)
    {
        let a = limbs_digest(&[0x0100, 0, 0, 0]);
        let c = limbs_digest(&[0x0001, 0, 0, 0]);
        let e = limbs_digest(&[0x0001_0000_0000_0000, 0, 0, 0]);
        let f = limbs_digest(&[0, 0, 0, 1]);
        let g = limbs_digest(&[0xffff_ffff_0000_0000, 0, 0, 0]);
        let all = [a, c, e, f, g];
        for i in 0..5 {
            for j in 0..5 {
                for k in 0..5 {
                    let leaf = all[(i + j + k) % 5];
                    let l = [all[i], all[j], all[k]];
                    let root = hash_node(&[leaf, l[0], l[1], l[2]]).unwrap();
                    emit_from_unsorted(&mut o, "byte-vs-numeric-order", leaf, root, vec![l]);
                }
            }
        }
    }

    // ---------------- 2703: insert_at_position, positions 0..5 and beyond
    for _ in 0..(30 * scale) {
        let hh = |r: &mut Rng| if r.chance(1, 5) { noncanon_hash(r) } else { any_hash(r) };
        let cur = hh(r);
        let l = [hh(r), hh(r), hh(r)];
        for q in [0u8, 1, 2, 3, 4, 5, 6, 128, 255] {
            let res = no_panic(|| insert_at_position(cur, &l, q));
            let out: Seg = match res {
                None => PANIC.to_vec(),
                Some(Err(_)) => vec![0],
                Some(Ok(ch)) => {
                    let mut v: Seg = vec![1];
                    for h in &ch {
                        v.extend(hseg(h));
                    }
                    v
                }
            };
            o.case(2703, if q > 3 { "position-out-of-range" } else { "position-in-range" }, &[hseg(&cur), levels_seg(&[l]), vec![q as i128]], &out);
        }
    }

    // ---------------- 2704: the two node hashes
    for i in 0..(120 * scale) {
        let hh = |r: &mut Rng| match i % 4 {
            0 => small_hash(r),
            1 => {
                if r.chance(1, 4) {
                    noncanon_hash(r)
                } else {
                    canon_hash(r)
                }
            }
            _ => any_hash(r),
        };
        let c = [hh(r), hh(r), hh(r), hh(r)];
        let enc = |x: Option<Result<Hash256, &'static str>>| -> Seg {
            match x {
                None => PANIC.to_vec(),
                Some(Err(_)) => vec![0],
                Some(Ok(h)) => {
                    let mut v: Seg = vec![1];
                    v.extend(hseg(&h));
                    v
                }
            }
        };
        let mut out = enc(no_panic(|| hash_node_presorted(&c)));
        out.extend(enc(no_panic(|| hash_node(&c))));
        let mut s = Seg::new();
        for h in &c {
            s.extend(hseg(h));
        }
        o.case(2704, if i % 4 == 0 { "small-domain" } else { "children" }, &[s], &out);
    }

    // ---------------- 2705 / 2706: native verifier vs the circuit's path constraints on the prover's data
    for d in 0..=17usize {
        for _ in 0..(2 * scale) {
            let leaf_data = rand_leaf_data(r);
            // the leaf hash of a real statement: Poseidon2 of the leaf preimage
            let lh = Poseidon2Hash::hash_no_pad(&leaf_data.collect_for_hash()).elements;
            let leaf: Hash256 = zk_circuits_common::serialization::digest_to_bytes(&lh);
            let mut sibs = Vec::new();
            let mut cur = leaf;
            for _ in 0..d {
                let l = level(r);
                sibs.push(l);
                cur = hash_node(&[cur, l[0], l[1], l[2]]).unwrap();
            }
            let root = cur;
            let mut variants: Vec<(&str, ZkMerkleProof)> = Vec::new();
            match ZkMerkleProof::from_unsorted(0, sibs.clone(), leaf, root) {
                Ok(pr) => {
                    variants.push(("honest-path", pr.clone()));
                    if d > 0 {
                        let lv = r.below(d as u64) as usize;
                        let mut p = pr.clone();
                        p.positions[lv] = (p.positions[lv] + 1 + r.below(3) as u8) % 4;
                        variants.push(("position-changed", p));
                        let mut p = pr.clone();
                        p.positions[lv] = 4 + r.below(252) as u8;
                        variants.push(("position-out-of-range", p));
                        let mut p = pr.clone();
                        flip(&mut p.siblings[lv][r.below(3) as usize], r.below(32) as usize, r.below(8) as u32);
                        if p.siblings.iter().flatten().all(zk_circuits_common::zk_merkle::is_canonical_hash) {
                            variants.push(("flip-sibling-byte", p));
                        }
                        let mut p = pr.clone();
                        p.siblings.pop();
                        p.positions.pop();
                        variants.push(("truncate-level", p));
                        let mut p = pr.clone();
                        p.positions.pop();
                        variants.push(("truncate-positions-only", p));
                    }
                    let mut p = pr.clone();
                    p.root = canon_hash(r);
                    variants.push(("root-unrelated", p));
                    let mut p = pr.clone();
                    p.siblings.push(level(r));
                    p.positions.push(r.below(4) as u8);
                    p.root = fold(&p.leaf_hash, &p.siblings, &p.positions).unwrap();
                    variants.push(("extend-level-rerooted", p));
                }
                Err(_) => {
                    // depth 17: the prover's conversion refuses it as well (bail! in try_from / fill_targets)
                    let pos: Vec<u8> = (0..d).map(|_| r.below(4) as u8).collect();
                    let rt = fold(&leaf, &sibs, &pos).unwrap();
                    variants.push(("over-max-depth", mk(sibs.clone(), pos, leaf, rt)));
                }
            }
            for (tag, pr) in variants {
                let data = ZkMerkleProofData::new(pr.root, pr.siblings.clone(), pr.positions.clone(), leaf_data.clone(), true);
                let nv = no_panic(|| pr.verify()).map(b).unwrap_or(-1);
                o.case(
                    2705,
                    tag,
                    &[felts_canon(&lh), felts_canon(&data.root_hash), pos_seg(&data.positions), data_sibs_seg(&data)],
                    &[nv],
                );
                // non-canonical alias of one sibling / of the root: byte-distinct, same field elements
                if tag == "honest-path" && d > 0 {
                    let lv = r.below(d as u64) as usize;
                    let s = r.below(3) as usize;
                    let mut al = pr.clone();
                    let mut what = "sibling-alias(v+p)";
                    match alias_hash(r, &pr.siblings[lv][s]) {
                        Some(a) => al.siblings[lv][s] = a,
                        None => match alias_hash(r, &pr.root) {
                            Some(a) => {
                                al.root = a;
                                what = "root-alias(v+p)";
                            }
                            None => continue,
                        },
                    }
                    let ad = ZkMerkleProofData::new(al.root, al.siblings.clone(), al.positions.clone(), leaf_data.clone(), true);
                    let same = ad.root_hash.iter().zip(digest_limbs(&al.root)).all(|(f, l)| f.to_canonical_u64() == l % P)
                        && ad.siblings.iter().flatten().flatten().zip(al.siblings.iter().flatten().flat_map(|h| digest_limbs(h)))
                            .all(|(f, l)| f.to_canonical_u64() == l % P);
                    o.case(
                        2706,
                        what,
                        &[
                            hseg(&al.leaf_hash),
                            hseg(&al.root),
                            pos_seg(&al.positions),
                            levels_seg(&al.siblings),
                            felts_canon(&ad.root_hash),
                            data_sibs_seg(&ad),
                        ],
                        &[no_panic(|| al.verify()).map(b).unwrap_or(-1), b(same), nv],
                    );
                }
            }
        }
    }
    let _ = F::ZERO;
    o.flush();
}
