//! C25 (byte / digest / integer encodings) and C26 (compact node hashing), implementation side.
//!
//! fids (model: coq/Sys/Encoding.v `dispatch`)
//!   2501 serialization::bytes_to_felts(bytes)            2514 utils::bytes_to_felts(bytes)
//!   2502 serialization::felts_to_bytes(raw felts)        2515 utils::felts_to_bytes(raw felts)
//!   2521 / 2522 the same two on a *described* input: seg0 = [len, fill], seg1 = literal suffix
//!   2503 BytesDigest::try_from(&[u8])                    2504 Secret::new(&mut [u8; 32])
//!   2505 serialization::bytes_to_digest                  2506 serialization::digest_to_bytes
//!   2507 utils::digest_to_bytes (the `expect`ing one)
//!   2508 u64_to_felts   2509 try_felts_to_u64   2510 u128_to_felts   2511 try_felts_to_u128
//!   2512 try_u128_to_quantized_felt            2513 try_felt_to_quantized_u128
//!   2601 hash_bytes_compact (hook H5) on literal bytes; 2611 on a described input
//!   2602 zk_merkle::hash_node   2603 hash_node_presorted   2604 is_canonical_hash
//!   2605 qp_poseidon_core bytes_to_felts_compact (the strict limb conversion the hash delegates to)
//! Hash oracle: after the input segments come (key, value) segment pairs = (felt list, native
//! Poseidon2 output felts) computed here with qp_poseidon_core::hash_to_felts.
use plonky2::field::goldilocks_field::GoldilocksField;
use plonky2::field::types::PrimeField64;
use qp_poseidon_core::Goldilocks;
use qp_wormhole_inputs::BytesDigest;
use verif_harness::*;
use wormhole_circuit::sensitive::Secret;
use zk_circuits_common::{serialization as ser, utils, zk_merkle};

const MAXB: usize = 1 << 20;
const MAXF: usize = (1 << 18) + 1;
const Q: u128 = 10_000_000_000;

fn felts(v: &[u64]) -> Vec<GoldilocksField> {
    v.iter().map(|&x| GoldilocksField(x)).collect()
}
fn canon(v: &[GoldilocksField]) -> Seg {
    v.iter().map(|f| f.to_canonical_u64() as i128).collect()
}
fn enc_felts<E>(r: Option<Result<Vec<GoldilocksField>, E>>) -> Seg {
    match r {
        None => PANIC.to_vec(),
        Some(Err(_)) => vec![0],
        Some(Ok(v)) => {
            let mut o = vec![1];
            o.extend(canon(&v));
            o
        }
    }
}
fn enc_bytes<E>(r: Option<Result<Vec<u8>, E>>) -> Seg {
    match r {
        None => PANIC.to_vec(),
        Some(Err(_)) => vec![0],
        Some(Ok(v)) => {
            let mut o = vec![1];
            o.extend(seg_bytes(&v));
            o
        }
    }
}
fn u128_seg(v: u128) -> Seg {
    vec![(v >> 64) as i128, (v & u64::MAX as u128) as i128]
}

fn edge_byte(r: &mut Rng) -> u8 {
    match r.below(3) {
        0 => *r.pick(&[0u8, 1, 2, 255, 254, 0x80]),
        1 => r.below(2) as u8,
        _ => r.below(256) as u8,
    }
}
fn rand_bytes(r: &mut Rng, n: usize) -> Vec<u8> {
    let mode = r.below(4);
    (0..n)
        .map(|_| match mode {
            0 => r.below(256) as u8,
            1 => r.below(2) as u8, // only 0 / 1: collides with marker and padding bytes
            _ => edge_byte(r),
        })
        .collect()
}
/// a u64 limb around the interesting boundaries of the 8-byte encodings
fn limb(r: &mut Rng) -> u64 {
    match r.below(5) {
        0 => *r.pick(&[P - 1, P, P + 1, u64::MAX, 0, 1, P - 2, u64::MAX - 1, 1 << 32, 0xFFFF_FFFF, 1 << 63]),
        1 => r.next() % P,
        2 => r.below(4),
        3 => P + r.below(0xFFFF_FFFF),
        _ => r.next(),
    }
}
fn canon_limb(r: &mut Rng) -> u64 {
    match r.below(4) {
        0 => *r.pick(&[P - 1, 0, 1, P - 2, 1 << 32, 0xFFFF_FFFF, 1 << 63, 0xFF00_0000_0000_0000, 0xFF]),
        1 => r.below(4),
        _ => r.next() % P,
    }
}
fn digest_of(l: [u64; 4]) -> [u8; 32] {
    limbs_digest(&l)
}

// ------------------------------------------------------------------------------------------ C25

fn edge_encode(o: &mut Out, tag: &str, b: &[u8]) {
    let s = vec![seg_bytes(b)];
    o.case(2501, tag, &s, &enc_felts(no_panic(|| ser::bytes_to_felts(b))));
    o.case(2514, tag, &s, &enc_felts(no_panic(|| utils::bytes_to_felts(b))));
}
fn edge_decode(o: &mut Out, tag: &str, raw: &[u64]) {
    let f = felts(raw);
    let s = vec![seg_u64(raw)];
    o.case(2502, tag, &s, &enc_bytes(no_panic(|| ser::felts_to_bytes(&f))));
    o.case(2515, tag, &s, &enc_bytes(no_panic(|| utils::felts_to_bytes(&f))));
}
fn described_bytes(len: usize, fill: u8, suffix: &[u8]) -> Vec<u8> {
    let mut v = vec![fill; len];
    v.extend_from_slice(suffix);
    v
}

fn c25_edge(o: &mut Out, r: &mut Rng, scale: usize) {
    // encode: every small length, many contents (0/1-only strings collide with marker/padding bytes)
    for len in 0..=9usize {
        for _ in 0..30 * scale {
            let b = rand_bytes(r, len);
            edge_encode(o, "enc-len0-9", &b);
        }
    }
    for _ in 0..150 * scale {
        let len = r.below(70) as usize;
        let b = rand_bytes(r, len);
        edge_encode(o, "enc-len<70", &b);
    }
    for _ in 0..20 * scale {
        let len = 100 + r.below(400) as usize;
        let b = rand_bytes(r, len);
        edge_encode(o, "enc-len100-500", &b);
    }
    // pairs that differ only by trailing 0 / 1 bytes (what the terminator has to separate)
    for _ in 0..40 * scale {
        let len = r.below(10) as usize;
        let mut b = rand_bytes(r, len);
        edge_encode(o, "enc-trailing", &b);
        b.push(*r.pick(&[0u8, 1]));
        edge_encode(o, "enc-trailing", &b);
        b.push(0);
        edge_encode(o, "enc-trailing", &b);
    }

    // decode: valid encodings, then one corruption each
    let raw_of = |b: &[u8]| -> Vec<u64> { qp_poseidon_core::serialization::bytes_to_u64s(b) };
    for _ in 0..200 * scale {
        let len = r.below(24) as usize;
        let b = rand_bytes(r, len);
        let raw = raw_of(&b);
        edge_decode(o, "dec-valid", &raw);
        let mut m = raw.clone();
        let last = m.len() - 1;
        match r.below(8) {
            0 => {
                m[last] = *r.pick(&[0u64, 1, 2, 0x100, 0x101, 0x1_0000, 0x1_0001, 0x100_0000, 0x100_0001, 0x200_0000, 0x0201, 0xFFFF_FFFF, 0x0101_0101, 0x0001_0100]);
                edge_decode(o, "dec-last-word", &m);
            }
            1 => {
                m[last] = r.below(1 << 32);
                edge_decode(o, "dec-last-random", &m);
            }
            2 => {
                let i = r.below(m.len() as u64) as usize;
                m[i] = *r.pick(&[1u64 << 32, (1 << 32) + 1, P - 1, 1 << 63, 0xFFFF_FFFF_0000_0000]);
                edge_decode(o, "dec-limb>=2^32", &m);
            }
            3 => {
                // raw values >= p reduce before the limb test: p+1 is the marker word, u64::MAX is 2^32-2
                let i = r.below(m.len() as u64) as usize;
                m[i] = *r.pick(&[P, P + 1, P + 0x100, P + 0xFFFF_FFFE, u64::MAX, P + 0x0100_0000]);
                edge_decode(o, "dec-raw>=p", &m);
            }
            4 => {
                m.pop();
                edge_decode(o, "dec-drop-last", &m);
            }
            5 => {
                let w = r.below(1 << 32);
                m.push(*r.pick(&[0u64, 1, 0x100, w]));
                edge_decode(o, "dec-extra-word", &m);
            }
            6 => {
                let i = r.below(m.len() as u64) as usize;
                m[i] = r.edge_u64();
                edge_decode(o, "dec-edge-u64", &m);
            }
            _ => {
                m[last] |= (r.below(255) + 1) << 32;
                edge_decode(o, "dec-last-high-bits", &m);
            }
        }
    }
    edge_decode(o, "dec-empty", &[]);
    // every single-word vector with bytes in {0,1,2}: the complete marker case analysis
    for w in 0..81u64 {
        let b = [w % 3, (w / 3) % 3, (w / 9) % 3, (w / 27) % 3];
        let word = b[0] | b[1] << 8 | b[2] << 16 | b[3] << 24;
        edge_decode(o, "dec-marker-exhaustive", &[word]);
        edge_decode(o, "dec-marker-exhaustive", &[0x0403_0201, word]);
    }
    for _ in 0..100 * scale {
        let n = r.below(6) as usize;
        let v: Vec<u64> = (0..n).map(|_| if r.chance(1, 6) { r.edge_u64() } else { r.below(1 << 32) }).collect();
        edge_decode(o, "dec-random", &v);
    }

    // the caps, on described inputs (fill^len ++ suffix)
    let mut big_enc: Vec<(usize, u8, Vec<u8>)> = vec![
        (MAXB - 1, 0x5a, vec![]),
        (MAXB, 0x00, vec![]),
        (MAXB + 1, 0x5a, vec![]),
        (MAXB - 2, 0x01, vec![7, 1]),
        (MAXB, 0x01, vec![0]),
    ];
    if scale > 1 {
        for d in [2usize, 3, 4, 5] {
            big_enc.push((MAXB - d, r.below(256) as u8, vec![1]));
            big_enc.push((MAXB + d, r.below(256) as u8, vec![]));
        }
        big_enc.push((4 * MAXB, 1, vec![]));
    }
    for (len, fill, suf) in big_enc {
        let b = described_bytes(len, fill, &suf);
        let s = vec![vec![len as i128, fill as i128], seg_bytes(&suf)];
        let tag = if b.len() > MAXB { "enc-over-cap" } else { "enc-at-cap" };
        o.case(2521, tag, &s, &enc_felts(no_panic(|| ser::bytes_to_felts(&b))));
    }
    let mut big_dec: Vec<(usize, u64, Vec<u64>)> = vec![
        (MAXF - 1, 0x5a5a_5a5a, vec![1]),       // exactly the cap, aligned terminator -> 2^20 bytes
        (MAXF, 0x01ab_cdef, vec![]),            // exactly the cap, inline terminator -> 2^20 + 3 bytes
        (MAXF, 0x5a5a_5a5a, vec![1]),           // cap + 1
        (MAXF + 1, 1, vec![]),                  // cap + 1, all marker words
        (MAXF - 1, 0x5a5a_5a5a, vec![2]),       // at the cap but malformed
    ];
    if scale > 1 {
        big_dec.push((MAXF - 2, 0xffff_ffff, vec![1 << 32, 1]));
        big_dec.push((MAXF - 2, P + 5, vec![0x0100]));
        big_dec.push((2 * MAXF, 0, vec![1]));
    }
    for (len, fill, suf) in big_dec {
        let mut raw = vec![fill; len];
        raw.extend_from_slice(&suf);
        let f = felts(&raw);
        let s = vec![vec![len as i128, fill as i128], seg_u64(&suf)];
        let tag = if raw.len() > MAXF { "dec-over-cap" } else { "dec-at-cap" };
        o.case(2522, tag, &s, &enc_bytes(no_panic(|| ser::felts_to_bytes(&f))));
    }
}

fn c25_digest(o: &mut Out, r: &mut Rng, scale: usize) {
    for _ in 0..400 * scale {
        let l = match r.below(3) {
            0 => [limb(r), limb(r), limb(r), limb(r)],
            1 => {
                // one suspicious limb among canonical ones
                let mut l = [canon_limb(r), canon_limb(r), canon_limb(r), canon_limb(r)];
                l[r.below(4) as usize] = *r.pick(&[P - 1, P, P + 1, u64::MAX, 0]);
                l
            }
            _ => [canon_limb(r), canon_limb(r), canon_limb(r), canon_limb(r)],
        };
        let b = digest_of(l);
        let s = vec![seg_bytes(&b)];
        let tag = if l.iter().all(|&x| x < P) { "digest-canonical" } else { "digest-noncanonical" };
        let enc_d = |x: Option<Result<[u8; 32], ()>>| -> Seg {
            match x {
                None => PANIC.to_vec(),
                Some(Err(_)) => vec![0],
                Some(Ok(v)) => {
                    let mut o = vec![1];
                    o.extend(seg_bytes(&v));
                    o
                }
            }
        };
        o.case(2503, tag, &s, &enc_d(no_panic(|| BytesDigest::try_from(&b[..]).map(|d| *d).map_err(|_| ()))));
        // the array impl must agree with the slice impl
        let arr = no_panic(|| BytesDigest::try_from(b).map(|d| *d).map_err(|_| ()));
        o.case(2503, "digest-array-impl", &s, &enc_d(arr));
        o.case(2504, tag, &s, &enc_d(no_panic(|| {
            let mut src = b;
            Secret::new(&mut src).map(|sec| *sec.as_bytes()).map_err(|_| ())
        })));
        // bytes -> felts: raw inner values, then canonical values
        let d = no_panic(|| ser::bytes_to_digest(&b));
        let out = match d {
            None => PANIC.to_vec(),
            Some(d) => {
                let mut v: Seg = d.iter().map(|f| f.0 as i128).collect();
                v.extend(canon(&d));
                v
            }
        };
        o.case(2505, tag, &s, &out);
        // felts -> bytes on the same limbs taken as raw field values
        let f: [GoldilocksField; 4] = [GoldilocksField(l[0]), GoldilocksField(l[1]), GoldilocksField(l[2]), GoldilocksField(l[3])];
        let sl = vec![seg_u64(&l)];
        let out = match no_panic(|| ser::digest_to_bytes(&f)) {
            None => PANIC.to_vec(),
            Some(v) => seg_bytes(&v),
        };
        o.case(2506, tag, &sl, &out);
        let out = match no_panic(|| utils::digest_to_bytes(f)) {
            None => PANIC.to_vec(),
            Some(v) => {
                let mut o = vec![1];
                o.extend(seg_bytes(&*v));
                o
            }
        };
        o.case(2507, tag, &sl, &out);
    }
    // slice impl: wrong lengths
    for len in [0usize, 1, 8, 31, 33, 40, 64] {
        for _ in 0..3 {
            let b = rand_bytes(r, len);
            let out = match no_panic(|| BytesDigest::try_from(&b[..]).map(|d| *d)) {
                None => PANIC.to_vec(),
                Some(Err(_)) => vec![0],
                Some(Ok(v)) => {
                    let mut o = vec![1];
                    o.extend(seg_bytes(&v));
                    o
                }
            };
            o.case(2503, "digest-wrong-length", &[seg_bytes(&b)], &out);
        }
    }
}

fn c25_ints(o: &mut Out, r: &mut Rng, scale: usize) {
    let lim = |r: &mut Rng| -> u64 {
        match r.below(4) {
            0 => *r.pick(&[0u64, 1, 0xFFFF_FFFE, 0xFFFF_FFFF, 1 << 32, (1 << 32) + 1, P - 1, P, P + 1, P + 0xFFFF_FFFE, u64::MAX, (P >> 1) + 5]),
            1 => r.below(1 << 32),
            2 => r.edge_u64(),
            _ => r.below(1 << 33),
        }
    };
    for _ in 0..300 * scale {
        let n = if r.chance(1, 2) { r.edge_u64() } else { r.next() };
        let f = no_panic(|| ser::u64_to_felts(n));
        o.case(2508, "u64-encode", &[vec![n as i128]], &f.map(|f| canon(&f)).unwrap_or(PANIC.to_vec()));
        let raw = if r.chance(1, 3) { [r.below(1 << 32), r.below(1 << 32)] } else { [lim(r), lim(r)] };
        let out = match no_panic(|| ser::try_felts_to_u64([GoldilocksField(raw[0]), GoldilocksField(raw[1])])) {
            None => PANIC.to_vec(),
            Some(Err(_)) => vec![0],
            Some(Ok(v)) => vec![1, v as i128],
        };
        o.case(2509, "u64-decode", &[seg_u64(&raw)], &out);
        let out2 = match no_panic(|| utils::felts_to_u64([GoldilocksField(raw[0]), GoldilocksField(raw[1])])) {
            None => PANIC.to_vec(),
            Some(Err(_)) => vec![0],
            Some(Ok(v)) => vec![1, v as i128],
        };
        o.case(2509, "u64-decode-utils", &[seg_u64(&raw)], &out2);

        let n128: u128 = match r.below(4) {
            0 => ((r.edge_u64() as u128) << 64) | r.edge_u64() as u128,
            1 => r.next() as u128,
            2 => u128::MAX - r.below(3) as u128,
            _ => ((r.next() as u128) << 64) | r.next() as u128,
        };
        let f = no_panic(|| ser::u128_to_felts(n128));
        o.case(2510, "u128-encode", &[u128_seg(n128)], &f.map(|f| canon(&f)).unwrap_or(PANIC.to_vec()));
        let raw4 = if r.chance(1, 3) {
            [r.below(1 << 32), r.below(1 << 32), r.below(1 << 32), r.below(1 << 32)]
        } else {
            let mut v = [r.below(1 << 32), r.below(1 << 32), r.below(1 << 32), r.below(1 << 32)];
            v[r.below(4) as usize] = lim(r);
            if r.chance(1, 4) {
                v[r.below(4) as usize] = lim(r);
            }
            v
        };
        let f4 = [GoldilocksField(raw4[0]), GoldilocksField(raw4[1]), GoldilocksField(raw4[2]), GoldilocksField(raw4[3])];
        let out = match no_panic(|| ser::try_felts_to_u128(f4)) {
            None => PANIC.to_vec(),
            Some(Err(_)) => vec![0],
            Some(Ok(v)) => {
                let mut o = vec![1];
                o.extend(u128_seg(v));
                o
            }
        };
        o.case(2511, "u128-decode", &[seg_u64(&raw4)], &out);
    }
    // quantisation: around (2^32-1) * 10^10
    let mut amounts: Vec<u128> = vec![0, 1, Q - 1, Q, Q + 1, u128::MAX, u128::MAX - 1, 1 << 64, (1 << 64) - 1, 1u128 << 127];
    for k in [(1u128 << 32) - 2, (1 << 32) - 1, 1 << 32, (1 << 32) + 1, 1 << 33] {
        for d in [0u128, 1, 2, Q / 2, Q - 2, Q - 1] {
            amounts.push(k * Q + d);
        }
    }
    for _ in 0..150 * scale {
        amounts.push(match r.below(4) {
            0 => r.below(1 << 33) as u128 * Q + r.below(Q as u64) as u128,
            1 => ((1u128 << 32) - 1) * Q + Q - 1 - r.below(1000) as u128,
            2 => ((1u128 << 32) - 1) * Q + Q + r.below(1000) as u128,
            _ => ((r.next() as u128) << 64) | r.next() as u128,
        });
    }
    for a in amounts {
        let out = match no_panic(|| ser::try_u128_to_quantized_felt(a)) {
            None => PANIC.to_vec(),
            Some(Err(_)) => vec![0],
            Some(Ok(f)) => vec![1, f.to_canonical_u64() as i128],
        };
        let tag = if a / Q > 0xFFFF_FFFF { "quantize-over" } else { "quantize-fits" };
        o.case(2512, tag, &[u128_seg(a)], &out);
    }
    for _ in 0..100 * scale {
        let raw = lim(r);
        let out = match no_panic(|| ser::try_felt_to_quantized_u128(GoldilocksField(raw))) {
            None => PANIC.to_vec(),
            Some(Err(_)) => vec![0],
            Some(Ok(v)) => {
                let mut o = vec![1];
                o.extend(u128_seg(v));
                o
            }
        };
        o.case(2513, "dequantize", &[vec![raw as i128]], &out);
    }
}

// ------------------------------------------------------------------------------------------ C26

/// (key, value) oracle segments for the felt list the compact hash of `b` absorbs, if the strict
/// limb conversion accepts `b`
fn oracle(b: &[u8]) -> Vec<Seg> {
    match qp_poseidon_core::serialization::bytes_to_felts_compact(b) {
        Err(_) => vec![],
        Ok(f) => {
            let key: Seg = f.iter().map(|x| x.as_canonical_u64() as i128).collect();
            let h = qp_poseidon_core::hash_to_felts(&f);
            let val: Seg = h.iter().map(|x| x.as_canonical_u64() as i128).collect();
            vec![key, val]
        }
    }
}
fn enc_hash(r: Option<Result<[u8; 32], &'static str>>) -> Seg {
    match r {
        None => PANIC.to_vec(),
        Some(Err(_)) => vec![0],
        Some(Ok(v)) => {
            let mut o = vec![1];
            o.extend(seg_bytes(&v));
            o
        }
    }
}
fn compact_case(o: &mut Out, tag: &str, b: &[u8]) {
    let mut s = vec![seg_bytes(b)];
    s.extend(oracle(b));
    o.case(2601, tag, &s, &enc_hash(no_panic(|| ser::verif_hash_bytes_compact(b))));
}
fn limb_bytes(ls: &[u64]) -> Vec<u8> {
    ls.iter().flat_map(|l| l.to_le_bytes()).collect()
}

fn c26_compact(o: &mut Out, r: &mut Rng, scale: usize) {
    // every small length: only multiples of 8 are accepted
    for len in 0..=41usize {
        for _ in 0..6 * scale {
            let b = rand_bytes(r, len);
            compact_case(o, if len % 8 == 0 { "compact-aligned" } else { "compact-unaligned" }, &b);
        }
    }
    // aligned strings built from limbs around p
    for _ in 0..300 * scale {
        let n = 1 + r.below(20) as usize;
        let mut ls: Vec<u64> = (0..n).map(|_| canon_limb(r)).collect();
        let tag = match r.below(3) {
            0 => "compact-canonical-limbs",
            1 => {
                ls[r.below(n as u64) as usize] = *r.pick(&[P, P + 1, u64::MAX, u64::MAX - 1, P + 0xFFFF_FFFE]);
                "compact-one-bad-limb"
            }
            _ => {
                ls[r.below(n as u64) as usize] = *r.pick(&[P - 1, P - 2, 0]);
                "compact-limb-p-1"
            }
        };
        let mut b = limb_bytes(&ls);
        compact_case(o, tag, &b);
        // the same, cut or extended to an unaligned length: x and x || 0 must both be rejected
        if r.chance(1, 3) {
            if r.chance(1, 2) {
                b.push(0);
            } else {
                b.pop();
            }
            compact_case(o, "compact-unaligned-neighbour", &b);
        }
    }
    // +p aliases: v and v + p in one limb
    for _ in 0..40 * scale {
        let n = 1 + r.below(6) as usize;
        let mut ls: Vec<u64> = (0..n).map(|_| canon_limb(r)).collect();
        let i = r.below(n as u64) as usize;
        ls[i] = r.below(0xFFFF_FFFF);
        compact_case(o, "compact-alias-base", &limb_bytes(&ls));
        ls[i] += P;
        compact_case(o, "compact-alias-plus-p", &limb_bytes(&ls));
    }
    // the strict limb conversion itself (zero padding of a short tail)
    for _ in 0..80 * scale {
        let len = r.below(30) as usize;
        let b = if r.chance(1, 3) { limb_bytes(&[limb(r), limb(r), limb(r)])[..len.min(24)].to_vec() } else { rand_bytes(r, len) };
        let out = match no_panic(|| qp_poseidon_core::serialization::bytes_to_felts_compact(&b)) {
            None => PANIC.to_vec(),
            Some(Err(_)) => vec![0],
            Some(Ok(f)) => {
                let mut o: Seg = vec![1];
                o.extend(f.iter().map(|x: &Goldilocks| x.as_canonical_u64() as i128));
                o
            }
        };
        o.case(2605, "strict-limbs", &[seg_bytes(&b)], &out);
    }
    // the cap, described inputs
    let mut big: Vec<(usize, u8, Vec<u8>)> = vec![
        (MAXB, 0x5a, vec![]),
        (MAXB + 8, 0x5a, vec![]),
        (MAXB - 8, 0x00, limb_bytes(&[P - 1])),
        (MAXB - 8, 0x00, limb_bytes(&[P])),
        (MAXB - 1, 0x5a, vec![]),
        (MAXB + 1, 0x5a, vec![]),
    ];
    if scale > 1 {
        big.push((MAXB, 0xff, vec![]));
        big.push((MAXB - 16, 0x01, limb_bytes(&[1, 2])));
        big.push((MAXB, 0x01, limb_bytes(&[1])));
        big.push((MAXB - 7, 0x5a, vec![]));
        big.push((2 * MAXB, 0x00, vec![]));
    }
    for (len, fill, suf) in big {
        let b = described_bytes(len, fill, &suf);
        let mut s = vec![vec![len as i128, fill as i128], seg_bytes(&suf)];
        if b.len() <= MAXB && b.len() % 8 == 0 {
            s.extend(oracle(&b));
        }
        let tag = if b.len() > MAXB { "compact-over-cap" } else { "compact-at-cap" };
        o.case(2611, tag, &s, &enc_hash(no_panic(|| ser::verif_hash_bytes_compact(&b))));
    }
}

const PERMS: [[usize; 4]; 24] = [
    [0, 1, 2, 3], [0, 1, 3, 2], [0, 2, 1, 3], [0, 2, 3, 1], [0, 3, 1, 2], [0, 3, 2, 1],
    [1, 0, 2, 3], [1, 0, 3, 2], [1, 2, 0, 3], [1, 2, 3, 0], [1, 3, 0, 2], [1, 3, 2, 0],
    [2, 0, 1, 3], [2, 0, 3, 1], [2, 1, 0, 3], [2, 1, 3, 0], [2, 3, 0, 1], [2, 3, 1, 0],
    [3, 0, 1, 2], [3, 0, 2, 1], [3, 1, 0, 2], [3, 1, 2, 0], [3, 2, 0, 1], [3, 2, 1, 0],
];

fn child(r: &mut Rng, mode: u64) -> [u8; 32] {
    match mode {
        // small domain: many ties and near-ties; byte-lexicographic order differs from limb order
        0 => {
            let mut b = [0u8; 32];
            b[*r.pick(&[0usize, 7, 8, 31])] = r.below(3) as u8;
            b[*r.pick(&[0usize, 1, 7, 15, 31])] = r.below(3) as u8;
            b
        }
        1 => digest_of([canon_limb(r), canon_limb(r), canon_limb(r), canon_limb(r)]),
        2 => digest_of([r.next() % P, r.next() % P, r.next() % P, r.next() % P]),
        _ => {
            let mut l = [canon_limb(r), canon_limb(r), canon_limb(r), canon_limb(r)];
            l[r.below(4) as usize] = *r.pick(&[P, P + 1, u64::MAX, P + 7]);
            digest_of(l)
        }
    }
}

fn node_cases(o: &mut Out, tag: &str, cs: &[[u8; 32]; 4], all_orders: bool) {
    // the preimage the implementation is specified to absorb: the sorted children, concatenated
    let mut sorted = *cs;
    sorted.sort();
    let orc = oracle(&sorted.concat());
    let orders: &[[usize; 4]] = if all_orders { &PERMS } else { &PERMS[..1] };
    for pm in orders {
        let c = [cs[pm[0]], cs[pm[1]], cs[pm[2]], cs[pm[3]]];
        let mut s: Vec<Seg> = c.iter().map(|x| seg_bytes(x)).collect();
        s.extend(orc.clone());
        o.case(2602, tag, &s, &enc_hash(no_panic(|| zk_merkle::hash_node(&c))));
        // presorted hashing on the same (generally unsorted) arrangement: plain concatenation
        let mut s: Vec<Seg> = c.iter().map(|x| seg_bytes(x)).collect();
        s.extend(oracle(&c.concat()));
        o.case(2603, if c == sorted { "presorted-on-sorted" } else { "presorted-on-unsorted" }, &s,
               &enc_hash(no_panic(|| zk_merkle::hash_node_presorted(&c))));
    }
}

fn c26_node(o: &mut Out, r: &mut Rng, scale: usize) {
    for i in 0..(40 * scale) {
        let (tag, cs) = match i % 5 {
            0 => ("node-small-domain", [child(r, 0), child(r, 0), child(r, 0), child(r, 0)]),
            1 => ("node-edge-limbs", [child(r, 1), child(r, 1), child(r, 1), child(r, 1)]),
            2 => ("node-random", [child(r, 2), child(r, 2), child(r, 2), child(r, 2)]),
            3 => {
                // duplicates
                let a = child(r, 1);
                let b = child(r, 2);
                ("node-duplicates", [a, b, a, if r.chance(1, 2) { a } else { b }])
            }
            _ => {
                let mut cs = [child(r, 2), child(r, 1), child(r, 2), child(r, 0)];
                cs[r.below(4) as usize] = child(r, 3);
                if r.chance(1, 3) {
                    cs[r.below(4) as usize] = child(r, 3);
                }
                ("node-noncanonical-child", cs)
            }
        };
        node_cases(o, tag, &cs, true);
    }
    for _ in 0..(200 * scale) {
        let m = r.below(4);
        let (m1, m2, m3) = (r.below(3), r.below(3), if r.chance(1, 8) { 3 } else { m });
        let cs = [child(r, m), child(r, m1), child(r, m2), child(r, m3)];
        node_cases(o, "node-single-order", &cs, false);
    }
    for _ in 0..(300 * scale) {
        let m = r.below(4);
        let c = child(r, m);
        o.case(2604, "is-canonical-hash", &[seg_bytes(&c)], &[zk_merkle::is_canonical_hash(&c) as i128]);
    }
}

fn main() {
    quiet_panics();
    let mut r = Rng::new(seed_from_env());
    let scale = if tier_is_thorough() { 8 } else { 1 };
    let mut o = Out::new();
    let which: Vec<String> = std::env::args().skip(1).collect();
    let want = |k: &str| which.is_empty() || which.iter().any(|w| w == k);
    if want("c25") {
        let mut r1 = r.fork();
        c25_edge(&mut o, &mut r1, scale);
        let mut r2 = r.fork();
        c25_digest(&mut o, &mut r2, scale);
        let mut r3 = r.fork();
        c25_ints(&mut o, &mut r3, scale);
    } else {
        for _ in 0..3 {
            r.fork();
        }
    }
    if want("c26") {
        let mut r4 = r.fork();
        c26_compact(&mut o, &mut r4, scale);
        let mut r5 = r.fork();
        c26_node(&mut o, &mut r5, scale);
    }
    o.flush();
}
