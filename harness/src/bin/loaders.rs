//! C17 (artifact loaders) and C18 (address binding): the REAL loaders / ProvingContext of /repo on generated
//! inputs.  Model side: coq/Sys/Loaders.v, coq/Sys/AddressBinding.v through coq/Sys/LoadersDispatch.v.
//!
//!   loaders c17 [keep-dir]      all C17 cases; leaves trace scenario directories under keep-dir (for the strace step)
//!   loaders c18                 all C18 cases
//!   loaders probe-slice <0|1>   (child of c17) new_from_bytes on an oversized slice backed by PROT_NONE memory
//!   loaders trace <which> <dir> (run under strace by lib/props/c17.py) one loader on one directory, prints the case
//!
//! fids
//!   1701 WormholeVerifier::new_from_bytes        segs v; c; keccak(v); keccak(c); keccak(canon v); keccak(canon c); [dec_ok]
//!   1702 WormholeVerifier::new_from_files        segs [exists,len]; v; [exists,len]; c; kv; kc; pin_v; pin_c; [dec_ok]
//!   1703 load_canonical_leaf_verifier_data       segs common; vo; canon common; canon vo
//!   1704 load_canonical_private_batch_verifier_data  segs common; vo; [n]; canon common(n); canon vo(n)
//!   1706 new_from_bytes on an unreadable oversized slice   segs [which, len]           -> class ++ [touched]
//!   1710 PrivateBatchProver::new_from_binaries_dir   1711 PublicBatchProver::new_from_binaries_dir
//!   1712 PublicBatchAggregator::new   1713 generate_private_batch_circuit_binaries   1714 generate_public_batch_circuit_binaries
//!        segs [args]; leaf_c; leaf_v; pb_c; pb_v; pub_c; pub_v; then per file [id,len,dec_ok,cfg_ok]; bytes|token; reserialisation
//!   172x the same with the syscall trace appended by the orchestrator; 1723 new_from_files; 1724 leaf prover
//!   1801 ProvingContext::verify   segs [expected_len]; addr; pis; [verifies]
//!   1802 ProvingContext::prove_batch   segs [expected_len]; addr; [produced]; pis; [verifies]
//! out: [1] | [0, kind] | [-1] (panic);  kind 2 = size cap, 3 = canonical pin, 4 = other  (C18: 2 length, 3 address, 4 verification, 5 other)
use plonky2::field::types::{Field, PrimeField64};
use plonky2::plonk::circuit_data::{CircuitConfig, CommonCircuitData, VerifierCircuitData, VerifierOnlyCircuitData};
use plonky2::plonk::proof::ProofWithPublicInputs;
use plonky2::util::serialization::DefaultGateSerializer;
use rayon::prelude::*;
use std::collections::BTreeMap;
use std::io::Write as _;
use std::path::{Path, PathBuf};
use verif_harness::*;
use wormhole_aggregator::aggregator::PublicBatchAggregator;
use wormhole_aggregator::common::utils as au;
use wormhole_aggregator::private_batch::circuit::build::generate_private_batch_circuit_binaries;
use wormhole_aggregator::private_batch::prover::PrivateBatchProver;
use wormhole_aggregator::public_batch::circuit::generate_public_batch_circuit_binaries;
use wormhole_aggregator::public_batch::prover::PublicBatchProver;
use wormhole_verifier::WormholeVerifier;
use zk_circuits_common::circuit::{wormhole_private_batch_circuit_config, wormhole_public_batch_circuit_config, C, D, F};

type VData = VerifierCircuitData<F, C, D>;
type Proof = ProofWithPublicInputs<F, C, D>;
type CaseRec = (u32, String, Vec<Seg>, Vec<i128>);

// ------------------------------------------------------------------------------------------ stdout discipline
/// The repo's generators `println!`; the case protocol owns stdout. Everything runs with fd 1 -> /dev/null and the
/// cases are written at the end to the saved descriptor.
struct StdoutGuard(i32);
impl StdoutGuard {
    fn new() -> Self {
        unsafe {
            let saved = libc::dup(1);
            let null = libc::open(b"/dev/null\0".as_ptr() as *const libc::c_char, libc::O_WRONLY);
            libc::dup2(null, 1);
            libc::close(null);
            StdoutGuard(saved)
        }
    }
    fn restore(self) {
        let _ = std::io::stdout().flush();
        unsafe {
            libc::dup2(self.0, 1);
            libc::close(self.0);
        }
    }
}

fn emit(cases: Vec<CaseRec>, notes: Vec<(String, String)>) {
    let mut out = Out::new();
    for (k, v) in notes {
        out.note(&k, &v);
    }
    for (fid, tag, segs, o) in cases {
        out.case(fid, &tag, &segs, &o);
    }
    out.flush();
}

fn keccak(b: &[u8]) -> Vec<u8> {
    use tiny_keccak::{Hasher, Keccak};
    let mut o = [0u8; 32];
    let mut h = Keccak::v256();
    h.update(b);
    h.finalize(&mut o);
    o.to_vec()
}

fn kind17(e: &anyhow::Error) -> i128 {
    let s = format!("{e:#}");
    if s.contains("exceeds the") {
        2
    } else if s.contains("does not match the canonical") {
        3
    } else {
        4
    }
}
fn cls17<T>(r: Option<anyhow::Result<T>>) -> Vec<i128> {
    match r {
        None => vec![-1],
        Some(Ok(_)) => vec![1],
        Some(Err(e)) => vec![0, kind17(&e)],
    }
}

fn vdata_bytes(v: &VData) -> (Vec<u8>, Vec<u8>) {
    (v.common.to_bytes(&DefaultGateSerializer).expect("common to_bytes"), v.verifier_only.to_bytes().expect("vo to_bytes"))
}

// ------------------------------------------------------------------------------------------ canonical rebuilds
struct Canon {
    leaf: Option<VData>,
    leaf_c: Vec<u8>,
    leaf_v: Vec<u8>,
    /// private batch for n: (common, verifier-only) bytes
    pb: BTreeMap<usize, (Vec<u8>, Vec<u8>)>,
    /// public batch for (m, n)
    pb_pub: BTreeMap<(usize, usize), (Vec<u8>, Vec<u8>)>,
}
impl Canon {
    fn build(pb_ns: &[usize], pubs: &[(usize, usize)]) -> Self {
        let leaf = au::canonical_leaf_verifier_data();
        let (leaf_c, leaf_v) = vdata_bytes(&leaf);
        let pbd: BTreeMap<usize, VData> = pb_ns.par_iter().map(|&n| (n, au::canonical_private_batch_verifier_data(&leaf, n).expect("canonical private batch"))).collect();
        let pb: BTreeMap<usize, (Vec<u8>, Vec<u8>)> = pbd.iter().map(|(n, v)| (*n, vdata_bytes(v))).collect();
        let pb_pub: BTreeMap<(usize, usize), (Vec<u8>, Vec<u8>)> = pubs
            .par_iter()
            .map(|&(m, n)| {
                let v = au::canonical_public_batch_verifier_data(&pbd[&n], m, n).expect("canonical public batch");
                ((m, n), vdata_bytes(&v))
            })
            .collect();
        Canon { leaf: Some(leaf), leaf_c, leaf_v, pb, pb_pub }
    }
    /// the serialisations of this run's rebuild, for the strace children (which must not spend their time rebuilding)
    fn save(&self, dir: &Path) {
        std::fs::create_dir_all(dir).unwrap();
        std::fs::write(dir.join("leaf_c"), &self.leaf_c).unwrap();
        std::fs::write(dir.join("leaf_v"), &self.leaf_v).unwrap();
        for (n, (c, v)) in &self.pb {
            std::fs::write(dir.join(format!("pb_{n}_c")), c).unwrap();
            std::fs::write(dir.join(format!("pb_{n}_v")), v).unwrap();
        }
        for ((m, n), (c, v)) in &self.pb_pub {
            std::fs::write(dir.join(format!("pub_{m}_{n}_c")), c).unwrap();
            std::fs::write(dir.join(format!("pub_{m}_{n}_v")), v).unwrap();
        }
    }
    fn load(dir: &Path) -> Option<Self> {
        let leaf_c = std::fs::read(dir.join("leaf_c")).ok()?;
        let leaf_v = std::fs::read(dir.join("leaf_v")).ok()?;
        let mut pb = BTreeMap::new();
        let mut pb_pub = BTreeMap::new();
        for e in std::fs::read_dir(dir).ok()? {
            let name = e.ok()?.file_name().to_string_lossy().to_string();
            let parts: Vec<&str> = name.split('_').collect();
            if parts.len() == 3 && parts[0] == "pb" && parts[2] == "c" {
                let n: usize = parts[1].parse().ok()?;
                pb.insert(n, (std::fs::read(dir.join(&name)).ok()?, std::fs::read(dir.join(format!("pb_{n}_v"))).ok()?));
            }
            if parts.len() == 4 && parts[0] == "pub" && parts[3] == "c" {
                let m: usize = parts[1].parse().ok()?;
                let n: usize = parts[2].parse().ok()?;
                pb_pub.insert((m, n), (std::fs::read(dir.join(&name)).ok()?, std::fs::read(dir.join(format!("pub_{m}_{n}_v"))).ok()?));
            }
        }
        Some(Canon { leaf: None, leaf_c, leaf_v, pb, pb_pub })
    }
}

// ------------------------------------------------------------------------------------------ mutations
#[derive(Clone)]
struct Mutant {
    tag: String,
    bytes: Vec<u8>,
}
fn mutants(r: &mut Rng, canon: &[u8], others: &[(&str, Vec<u8>)], flips: usize) -> Vec<Mutant> {
    let n = canon.len();
    let mut v = Vec::new();
    let mut push = |tag: String, bytes: Vec<u8>| v.push(Mutant { tag, bytes });
    for (t, ext) in [("ext-00", vec![0u8]), ("ext-ff", vec![0xff]), ("ext-8x00", vec![0u8; 8]), ("ext-self", canon.to_vec())] {
        let mut b = canon.to_vec();
        b.extend_from_slice(&ext);
        push(t.to_string(), b);
    }
    let mut pos: Vec<usize> = vec![0, n - 1];
    let step = std::cmp::max(1, n / std::cmp::max(1, flips));
    let mut at = r.below(step as u64) as usize;
    while at < n {
        pos.push(at);
        at += step;
    }
    for p in pos {
        let mut b = canon.to_vec();
        b[p] ^= 1u8 << r.below(8);
        push("bitflip".to_string(), b);
    }
    for (t, o) in others {
        push(format!("other-{}", t), o.clone());
    }
    push("zeros".to_string(), vec![0u8; n]);
    push("random".to_string(), (0..n).map(|_| r.next() as u8).collect());
    // length fields poisoned with huge values (the scenario of the repo's own regression tests)
    let mut poisoned = vec![0u8; 4096];
    for i in (0..poisoned.len()).step_by(8) {
        poisoned[i..i + 8].copy_from_slice(&(usize::MAX / 16).to_le_bytes());
    }
    push("poisoned-lengths".to_string(), poisoned);
    // (truncations last: extensions and flips are the candidates a weakened pin would let through)
    for cut in [1usize, 2, 8, n / 2, n - 1, n] {
        if cut <= n {
            push(format!("trunc-{}", cut), canon[..n - cut].to_vec());
        }
    }
    v
}

/// (common, vo) candidates for a pair loader
fn pair_candidates(r: &mut Rng, cc: &[u8], cv: &[u8], oc: &[(&str, Vec<u8>)], ov: &[(&str, Vec<u8>)], flips: usize) -> Vec<(String, Vec<u8>, Vec<u8>)> {
    let mut v = vec![("canonical".to_string(), cc.to_vec(), cv.to_vec())];
    let mc = mutants(r, cc, oc, flips);
    let mv = mutants(r, cv, ov, flips);
    for m in &mc {
        v.push((format!("common:{}", m.tag), m.bytes.clone(), cv.to_vec()));
    }
    for m in &mv {
        v.push((format!("vo:{}", m.tag), cc.to_vec(), m.bytes.clone()));
    }
    for _ in 0..6 {
        let a = r.pick(&mc).clone();
        let b = r.pick(&mv).clone();
        v.push((format!("both:{}+{}", a.tag, b.tag), a.bytes, b.bytes));
    }
    v.push(("swapped".to_string(), cv.to_vec(), cc.to_vec()));
    v
}

// ------------------------------------------------------------------------------------------ directories
const NAMES: [&str; 12] = [
    "common.bin",
    "verifier.bin",
    "dummy_proof.bin",
    "private_batch_common.bin",
    "private_batch_verifier.bin",
    "dummy_private_batch_proof.bin",
    "public_batch_common.bin",
    "public_batch_verifier.bin",
    "config.json",
    "prover.bin",
    "private_batch_prover.bin",
    "public_batch_prover.bin",
];
fn file_id(name: &str, extra_rank: usize) -> i128 {
    NAMES.iter().position(|n| *n == name).map(|i| i as i128).unwrap_or(12 + extra_rank as i128)
}

fn tmp_root(tag: &str) -> PathBuf {
    let d = std::env::temp_dir().join(format!("verif-loaders-{}-{}", tag, std::process::id()));
    let _ = std::fs::remove_dir_all(&d);
    std::fs::create_dir_all(&d).expect("create temp dir");
    d
}
fn copy_dir(from: &Path, to: &Path) {
    std::fs::create_dir_all(to).unwrap();
    for e in std::fs::read_dir(from).unwrap() {
        let e = e.unwrap();
        if e.file_type().unwrap().is_file() {
            std::fs::copy(e.path(), to.join(e.file_name())).unwrap();
        }
    }
}

#[derive(Clone)]
enum Op {
    Set(&'static str, Vec<u8>),
    Sparse(&'static str, u64),
    /// the artifact name is a file-level symlink (ConfigMap / Nix-store style deployments) to a sparse file of that length
    SymlinkSparse(&'static str, u64),
    Remove(&'static str),
    SetOwned(String, Vec<u8>),
}
fn apply(dir: &Path, ops: &[Op]) {
    for op in ops {
        match op {
            Op::Set(n, b) => std::fs::write(dir.join(n), b).unwrap(),
            Op::SetOwned(n, b) => std::fs::write(dir.join(n), b).unwrap(),
            Op::Sparse(n, len) => {
                let _ = std::fs::remove_file(dir.join(n));
                std::fs::File::create(dir.join(n)).unwrap().set_len(*len).unwrap()
            }
            Op::SymlinkSparse(n, len) => {
                let _ = std::fs::remove_file(dir.join(n));
                let t = symlink_target_path();
                std::fs::File::create(&t).unwrap().set_len(*len).unwrap();
                std::os::unix::fs::symlink(&t, dir.join(n)).unwrap();
            }
            Op::Remove(n) => {
                let _ = std::fs::remove_file(dir.join(n));
            }
        }
    }
}

/// sparse symlink targets live outside the artifact directories (which are enumerated) and are removed at exit
fn symlink_targets_dir() -> std::path::PathBuf {
    std::env::temp_dir().join(format!("verif-loaders-symlink-targets-{}", std::process::id()))
}
fn symlink_target_path() -> std::path::PathBuf {
    static N: std::sync::atomic::AtomicU64 = std::sync::atomic::AtomicU64::new(0);
    let d = symlink_targets_dir();
    std::fs::create_dir_all(&d).unwrap();
    d.join(format!("t{}", N.fetch_add(1, std::sync::atomic::Ordering::SeqCst)))
}

fn config_token(bytes: &[u8]) -> Vec<i128> {
    let Ok(v) = serde_json::from_slice::<serde_json::Value>(bytes) else { return vec![] };
    let Some(n) = v.get("num_leaf_proofs").and_then(|x| x.as_u64()) else { return vec![] };
    let m = v.get("num_private_batch_proofs").or_else(|| v.get("num_layer0_proofs"));
    match m {
        None | Some(serde_json::Value::Null) => vec![n as i128],
        Some(x) => match x.as_u64() {
            Some(m) => vec![n as i128, m as i128],
            None => vec![],
        },
    }
}

struct Templates {
    leaf: Vec<u8>,
    pb: Vec<u8>,
}

/// plonky2's own codecs, asked directly (not through the repo's loaders): (decodes, canonical config, re-serialisation)
fn reser_common(b: &[u8]) -> (bool, bool, Vec<u8>) {
    let r = no_panic(|| CommonCircuitData::<F, D>::from_bytes(b.to_vec(), &DefaultGateSerializer));
    match r {
        Some(Ok(c)) => {
            let cfg = c.config == wormhole_public_batch_circuit_config();
            match c.to_bytes(&DefaultGateSerializer) {
                Ok(x) => (true, cfg, x),
                Err(_) => (false, false, vec![]),
            }
        }
        _ => (false, false, vec![]),
    }
}
fn reser_vo(b: &[u8]) -> (bool, bool, Vec<u8>) {
    let r = no_panic(|| VerifierOnlyCircuitData::<C, D>::from_bytes(b.to_vec()));
    match r {
        Some(Ok(v)) => match v.to_bytes() {
            Ok(x) => (true, true, x),
            Err(_) => (false, false, vec![]),
        },
        _ => (false, false, vec![]),
    }
}

const BIG: u64 = 4 * 1024 * 1024;

/// segments describing a directory as the model sees it; also returns the parsed (n, m) of config.json
fn describe_dir(dir: &Path, args: Vec<i128>, canon: &Canon, tpl: &Templates, n_for_refs: Option<usize>, m_for_refs: Option<usize>) -> Vec<Seg> {
    let mut names: Vec<String> = std::fs::read_dir(dir).unwrap().map(|e| e.unwrap().file_name().to_string_lossy().to_string()).collect();
    names.sort();
    let mut cfg_tok: Vec<i128> = vec![];
    if let Ok(md) = std::fs::metadata(dir.join("config.json")) {
        if md.len() < BIG {
            cfg_tok = config_token(&std::fs::read(dir.join("config.json")).unwrap());
        }
    }
    let n = n_for_refs.or_else(|| cfg_tok.first().map(|&x| x as usize));
    let m = m_for_refs.or_else(|| cfg_tok.get(1).map(|&x| x as usize));
    let mut segs: Vec<Seg> = vec![args, seg_bytes(&canon.leaf_c), seg_bytes(&canon.leaf_v)];
    match n.and_then(|n| canon.pb.get(&n)) {
        Some((c, v)) => {
            segs.push(seg_bytes(c));
            segs.push(seg_bytes(v));
        }
        None => {
            segs.push(vec![]);
            segs.push(vec![]);
        }
    }
    match (m, n) {
        (Some(m), Some(n)) if canon.pb_pub.contains_key(&(m, n)) => {
            let (c, v) = &canon.pb_pub[&(m, n)];
            segs.push(seg_bytes(c));
            segs.push(seg_bytes(v));
        }
        _ => {
            segs.push(vec![]);
            segs.push(vec![]);
        }
    }
    let mut extra = 0usize;
    for name in names {
        let id = file_id(&name, extra);
        if id >= 12 {
            extra += 1;
        }
        let len = std::fs::metadata(dir.join(&name)).unwrap().len();
        let bytes = if len >= BIG { vec![] } else { std::fs::read(dir.join(&name)).unwrap() };
        let (mut dec, mut cfg, mut aux) = (0i128, 0i128, vec![]);
        let content: Seg = match id {
            2 => vec![(bytes == tpl.leaf) as i128],
            5 => vec![(bytes == tpl.pb) as i128],
            8 => cfg_tok.clone(),
            6 => {
                let (d, c, a) = reser_common(&bytes);
                dec = d as i128;
                cfg = c as i128;
                aux = a;
                seg_bytes(&bytes)
            }
            7 => {
                let (d, c, a) = reser_vo(&bytes);
                dec = d as i128;
                cfg = c as i128;
                aux = a;
                seg_bytes(&bytes)
            }
            0 | 1 | 3 | 4 => seg_bytes(&bytes),
            _ => vec![],
        };
        segs.push(vec![id, len as i128, dec, cfg]);
        segs.push(content);
        segs.push(seg_bytes(&aux));
    }
    segs
}

fn address(limbs: [u64; 4]) -> qp_wormhole_inputs::BytesDigest {
    // a configured address may be ANY 32 bytes (BytesDigest::new_unchecked is public): limbs >= p are kept as they are
    match qp_wormhole_inputs::BytesDigest::try_from(limbs_digest(&limbs)) {
        Ok(d) => d,
        Err(_) => qp_wormhole_inputs::BytesDigest::new_unchecked(limbs_digest(&limbs)),
    }
}

/// run dir loader `which` (0..4) on `dir`
fn run_dir_loader(which: usize, dir: &Path, args: &[i128]) -> Vec<i128> {
    match which {
        0 => cls17(no_panic(|| PrivateBatchProver::new_from_binaries_dir(dir))),
        1 => cls17(no_panic(|| PublicBatchProver::new_from_binaries_dir(dir))),
        2 => cls17(no_panic(|| PublicBatchAggregator::new(dir, address([1, 2, 3, 4])))),
        3 => cls17(no_panic(|| generate_private_batch_circuit_binaries(dir, args[0] as usize, false))),
        _ => cls17(no_panic(|| generate_public_batch_circuit_binaries(dir, args[0] as usize, args[1] as usize))),
    }
}

struct Scenario {
    which: usize,
    tag: String,
    ops: Vec<Op>,
    args: Vec<i128>,
}

/// `lean`: the subset used where every rejection costs a full circuit rebuild inside the loader
fn file_ops(name: &'static str, canon_bytes: &[u8], other: &[(&str, Vec<u8>)], cap: u64, r: &mut Rng, flips: usize, lean: bool) -> Vec<(String, Vec<Op>)> {
    let n = canon_bytes.len();
    let mut v: Vec<(String, Vec<Op>)> = Vec::new();
    let mut t = canon_bytes.to_vec();
    t.pop();
    v.push((format!("{name}:trunc-1"), vec![Op::Set(name, t)]));
    let mut e = canon_bytes.to_vec();
    e.push(0);
    v.push((format!("{name}:ext-00"), vec![Op::Set(name, e)]));
    if !lean {
        let mut e = canon_bytes.to_vec();
        e.extend_from_slice(&[0xffu8; 9]);
        v.push((format!("{name}:ext-9xff"), vec![Op::Set(name, e)]));
    }
    let mut pos = if lean { vec![] } else { vec![0usize, n - 1] };
    for _ in 0..flips {
        pos.push(r.below(n as u64) as usize);
    }
    for p in pos {
        let mut b = canon_bytes.to_vec();
        b[p] ^= 1u8 << r.below(8);
        v.push((format!("{name}:bitflip"), vec![Op::Set(name, b)]));
    }
    // structured flips: one in the trailing 32 bytes (for verifier-only data that is the circuit digest - the field a
    // "compare field by field and forget one" pin would skip), one in the leading 8 bytes (length prefix / first field)
    if n > 40 {
        let mut b = canon_bytes.to_vec();
        let p = n - 1 - r.below(32) as usize;
        b[p] ^= 1u8 << r.below(8);
        v.push((format!("{name}:bitflip-tail"), vec![Op::Set(name, b)]));
        let mut b = canon_bytes.to_vec();
        let p = r.below(8) as usize;
        b[p] ^= 1u8 << r.below(8);
        v.push((format!("{name}:bitflip-head"), vec![Op::Set(name, b)]));
    }
    for (i, (t, o)) in other.iter().enumerate() {
        if !lean || i == 0 {
            v.push((format!("{name}:other-{t}"), vec![Op::Set(name, o.clone())]));
        }
    }
    v.push((format!("{name}:oversized-sparse"), vec![Op::Sparse(name, cap + 1)]));
    v.push((format!("{name}:oversized-symlink"), vec![Op::SymlinkSparse(name, cap + 1)]));
    v.push((format!("{name}:missing"), vec![Op::Remove(name)]));
    v
}

/// keep every cheap scenario (rejected at the file read: oversized / missing) and a seeded sample of `k` of the others
/// (each of which makes the loader rebuild a recursive circuit)
fn sample_heavy(all: &[(String, Vec<Op>)], k: usize, r: &mut Rng) -> Vec<(String, Vec<Op>)> {
    let cheap = |t: &str| t.ends_with("oversized-sparse") || t.ends_with("oversized-symlink") || t.ends_with("missing");
    // the structured tail flips are always kept when anything heavy is sampled at all
    let must = |t: &str| k > 0 && t.ends_with("bitflip-tail");
    let mut out: Vec<(String, Vec<Op>)> = all.iter().filter(|(t, _)| cheap(t) || must(t)).cloned().collect();
    let mut heavy: Vec<(String, Vec<Op>)> = all.iter().filter(|(t, _)| !cheap(t) && !must(t)).cloned().collect();
    let k = k + out.iter().filter(|(t, _)| must(t)).count();
    while !heavy.is_empty() && out.iter().filter(|(t, _)| !cheap(t)).count() < k {
        let i = r.below(heavy.len() as u64) as usize;
        out.push(heavy.swap_remove(i));
    }
    out
}

fn extras_ops(r: &mut Rng) -> Vec<Op> {
    let junk = |r: &mut Rng, n: usize| -> Vec<u8> { (0..n).map(|_| r.next() as u8).collect() };
    vec![
        Op::Set("prover.bin", junk(r, 777)),
        Op::Set("private_batch_prover.bin", b"not a prover artifact".to_vec()),
        Op::Set("public_batch_prover.bin", junk(r, 4096)),
        Op::SetOwned("aggregated_prover.bin".to_string(), junk(r, 100)),
        Op::SetOwned("README.txt".to_string(), b"extra file".to_vec()),
        Op::SetOwned("common.bin.bak".to_string(), junk(r, 64)),
    ]
}

fn gen_base(dir: &Path, n: usize, m: Option<usize>) {
    circuit_builder::generate_all_circuit_binaries(dir, true, n, m).expect("generate_all_circuit_binaries");
}

// ------------------------------------------------------------------------------------------ C17
fn c17(keep: Option<PathBuf>) {
    let guard = StdoutGuard::new();
    quiet_panics();
    let thorough = tier_is_thorough();
    let mut r = Rng::new(seed_from_env());
    let mut cases: Vec<CaseRec> = Vec::new();
    let mut notes: Vec<(String, String)> = Vec::new();
    let t0 = std::time::Instant::now();

    // --- fresh rebuild of every canonical circuit, and of a full artifact directory (needed for the templates)
    let root = tmp_root("c17");
    let base = root.join("base");
    let pb_ns: Vec<usize> = if thorough { vec![1, 2] } else { vec![1] };
    let (canon, _) = rayon::join(|| Canon::build(&pb_ns, &[(1, 1), (2, 1)]), || gen_base(&base, 1, Some(1)));
    let leaf_data = canon.leaf.as_ref().unwrap();
    notes.push(("c17".into(), format!("canonical rebuild + generated bins dir after {:?}", t0.elapsed())));
    let tpl = Templates { leaf: std::fs::read(base.join("dummy_proof.bin")).unwrap(), pb: std::fs::read(base.join("dummy_private_batch_proof.bin")).unwrap() };
    // the generated directory must hold exactly the canonical serialisations
    for (name, want) in [
        ("common.bin", &canon.leaf_c),
        ("verifier.bin", &canon.leaf_v),
        ("private_batch_common.bin", &canon.pb[&1].0),
        ("private_batch_verifier.bin", &canon.pb[&1].1),
        ("public_batch_common.bin", &canon.pb_pub[&(1, 1)].0),
        ("public_batch_verifier.bin", &canon.pb_pub[&(1, 1)].1),
    ] {
        let got = std::fs::read(base.join(name)).unwrap();
        notes.push(("generated-vs-rebuild".into(), format!("{} {} bytes identical={}", name, got.len(), &got == want)));
        assert!(&got == want, "generated {name} differs from the canonical rebuild");
    }
    // the verifier crate documents its pins as the artifacts of WormholeCircuit::new(standard_recursion_config())
    let vcrate = wormhole_circuit::circuit::circuit_logic::WormholeCircuit::new(CircuitConfig::standard_recursion_config()).expect("leaf circuit").build_verifier();
    let (vc_c, vc_v) = vdata_bytes(&vcrate);
    notes.push(("verifier-crate-rebuild".into(), format!("identical to the aggregator's canonical leaf: {}", vc_c == canon.leaf_c && vc_v == canon.leaf_v)));
    let pin_v = keccak(&vc_v);
    let pin_c = keccak(&vc_c);
    notes.push(("keccak_verifier".into(), hex::encode(&pin_v)));
    notes.push(("keccak_common".into(), hex::encode(&pin_c)));

    // other-shape / other-config artifacts
    let zk_leaf = wormhole_circuit::circuit::circuit_logic::WormholeCircuit::new(CircuitConfig::standard_recursion_zk_config()).expect("zk leaf").build_verifier();
    let (zk_c, zk_v) = vdata_bytes(&zk_leaf);
    // private-batch artifacts of another shape (n = 2) and of another config; each costs a recursive-circuit build, so the
    // quick tier substitutes the public-batch artifacts (another recursive circuit) for them
    let alt_pb: Vec<(&str, Vec<u8>, Vec<u8>)> = if thorough {
        let pb_other_cfg = wormhole_aggregator::private_batch::circuit::circuit_logic::PrivateBatchCircuit::new(wormhole_public_batch_circuit_config(), &leaf_data.common, &leaf_data.verifier_only, 1)
            .expect("private batch with the public-batch config")
            .build_verifier();
        let (pbo_c, pbo_v) = vdata_bytes(&pb_other_cfg);
        vec![("shape-n2", canon.pb[&2].0.clone(), canon.pb[&2].1.clone()), ("public-config", pbo_c, pbo_v)]
    } else {
        vec![("public-batch-artifact", canon.pb_pub[&(1, 1)].0.clone(), canon.pb_pub[&(1, 1)].1.clone())]
    };
    let fake = test_helpers::fake_leaf::build_fake_leaf_circuit_data_only();
    let fake_v: VData = fake.verifier_data();
    let (fk_c, fk_v) = vdata_bytes(&fake_v);
    let flips = if thorough { 2000 } else { 120 };

    // --- 1701 / 1702 : verifier crate
    let oc = [("zk-config", zk_c.clone()), ("fake-leaf", fk_c.clone()), ("pb-common", canon.pb[&1].0.clone()), ("leaf-vo", vc_v.clone())];
    let ov = [("zk-config", zk_v.clone()), ("fake-leaf", fk_v.clone()), ("pb-vo", canon.pb[&1].1.clone()), ("leaf-common", vc_c.clone())];
    let cands = pair_candidates(&mut r, &vc_c, &vc_v, &oc, &ov, flips);
    for (tag, c, v) in &cands {
        let out = cls17(no_panic(|| WormholeVerifier::new_from_bytes(v, c)));
        cases.push((1701, tag.clone(), vec![seg_bytes(v), seg_bytes(c), seg_bytes(&keccak(v)), seg_bytes(&keccak(c)), seg_bytes(&pin_v), seg_bytes(&pin_c), vec![1]], out));
    }
    {
        let cap = wormhole_verifier::MAX_VERIFIER_ARTIFACT_BYTES;
        let vdir = root.join("verifier-files");
        std::fs::create_dir_all(&vdir).unwrap();
        let vp = vdir.join("verifier.bin");
        let cp = vdir.join("common.bin");
        let mut file_case = |tag: String, v: Option<(u64, Vec<u8>)>, c: Option<(u64, Vec<u8>)>, cases: &mut Vec<CaseRec>| {
            for (p, f) in [(&vp, &v), (&cp, &c)] {
                let _ = std::fs::remove_file(p);
                if let Some((len, bytes)) = f {
                    if *len as usize == bytes.len() {
                        std::fs::write(p, bytes).unwrap();
                    } else {
                        std::fs::File::create(p).unwrap().set_len(*len).unwrap();
                    }
                }
            }
            let out = cls17(no_panic(|| WormholeVerifier::new_from_files(&vp, &cp)));
            let meta = |f: &Option<(u64, Vec<u8>)>| -> (Seg, Vec<u8>) {
                match f {
                    None => (vec![0, 0], vec![]),
                    Some((len, b)) => (vec![1, *len as i128], b.clone()),
                }
            };
            let (mv, bv) = meta(&v);
            let (mc, bc) = meta(&c);
            cases.push((1702, tag, vec![mv, seg_bytes(&bv), mc, seg_bytes(&bc), seg_bytes(&keccak(&bv)), seg_bytes(&keccak(&bc)), seg_bytes(&pin_v), seg_bytes(&pin_c), vec![1]], out));
        };
        let full = |b: &Vec<u8>| Some((b.len() as u64, b.clone()));
        let step = if thorough { 4 } else { 9 };
        for (i, (tag, c, v)) in cands.iter().enumerate() {
            if i % step == 0 {
                file_case(format!("files:{tag}"), full(v), full(c), &mut cases);
            }
        }
        file_case("files:verifier-missing".into(), None, full(&vc_c), &mut cases);
        file_case("files:common-missing".into(), full(&vc_v), None, &mut cases);
        // sparse files: the metadata claims cap + 1 bytes, nothing is stored
        file_case("files:verifier-oversized-sparse".into(), Some((cap + 1, vec![])), full(&vc_c), &mut cases);
        file_case("files:common-oversized-sparse".into(), full(&vc_v), Some((cap + 1, vec![])), &mut cases);
        file_case("files:both-oversized-sparse".into(), Some((cap + 1, vec![])), Some((1u64 << 41, vec![])), &mut cases);
        file_case("files:verifier-huge-sparse".into(), Some((1u64 << 40, vec![])), full(&vc_c), &mut cases);
        // the same through file-level symlinks (the metadata of the link itself is a few dozen bytes)
        for (tag, which) in [("files:verifier-oversized-symlink", 0), ("files:common-oversized-symlink", 1)] {
            file_case(tag.into(), if which == 0 { None } else { full(&vc_v) }, if which == 1 { None } else { full(&vc_c) }, &mut Vec::new());
            let p = if which == 0 { &vp } else { &cp };
            let t = symlink_target_path();
            std::fs::File::create(&t).unwrap().set_len(cap + 1).unwrap();
            std::os::unix::fs::symlink(&t, p).unwrap();
            let out = cls17(no_panic(|| WormholeVerifier::new_from_files(&vp, &cp)));
            let _ = std::fs::remove_file(p);
            let big: (Seg, Vec<u8>) = (vec![1, cap as i128 + 1], vec![]);
            let okv: (Seg, Vec<u8>) = (vec![1, vc_v.len() as i128], vc_v.clone());
            let okc: (Seg, Vec<u8>) = (vec![1, vc_c.len() as i128], vc_c.clone());
            let ((mv, bv), (mc, bc)) = if which == 0 { (big, okc) } else { (okv, big) };
            cases.push((1702, tag.into(), vec![mv, seg_bytes(&bv), mc, seg_bytes(&bc), seg_bytes(&keccak(&bv)), seg_bytes(&keccak(&bc)), seg_bytes(&pin_v), seg_bytes(&pin_c), vec![1]], out));
        }
        // exactly at the cap: read and rejected by the pin, not by the size check
        file_case("files:verifier-at-cap".into(), Some((cap, vec![0u8; cap as usize])), full(&vc_c), &mut cases);
    }
    // --- 1706: slices over the cap whose memory cannot be read at all
    for which in 0..2i128 {
        let len = wormhole_verifier::MAX_VERIFIER_ARTIFACT_BYTES as i128 + 1;
        let st = std::process::Command::new(std::env::current_exe().unwrap()).args(["probe-slice", &which.to_string()]).output().expect("spawn probe");
        let out: Vec<i128> = if st.status.success() {
            let s = String::from_utf8_lossy(&st.stdout);
            let mut o: Vec<i128> = s.split_whitespace().map(|t| t.parse().unwrap()).collect();
            o.push(0);
            o
        } else {
            notes.push(("probe-slice".into(), format!("which={} child died: {:?}", which, st.status)));
            vec![0, 0, 1]
        };
        cases.push((1706, format!("unreadable-oversized-slice-{}", if which == 0 { "verifier" } else { "common" }), vec![vec![which, len]], out));
    }

    // --- 1703: aggregator leaf pin (every call rebuilds the leaf circuit)
    let oc = [("zk-config", zk_c.clone()), ("fake-leaf", fk_c.clone()), ("pb-common", canon.pb[&1].0.clone())];
    let ov = [("zk-config", zk_v.clone()), ("fake-leaf", fk_v.clone()), ("pb-vo", canon.pb[&1].1.clone())];
    let cands = pair_candidates(&mut r, &canon.leaf_c, &canon.leaf_v, &oc, &ov, if thorough { 1000 } else { 40 });
    let outs: Vec<Vec<i128>> = cands.par_iter().map(|(_, c, v)| cls17(no_panic(|| au::load_canonical_leaf_verifier_data(c, v)))).collect();
    for ((tag, c, v), out) in cands.iter().zip(outs) {
        cases.push((1703, tag.clone(), vec![seg_bytes(c), seg_bytes(v), seg_bytes(&canon.leaf_c), seg_bytes(&canon.leaf_v)], out));
    }
    // --- 1704: aggregator private-batch pin (every call rebuilds the private-batch circuit)
    {
        let (c1, v1) = &canon.pb[&1];
        let mut oc: Vec<(&str, Vec<u8>)> = alt_pb.iter().map(|(t, c, _)| (*t, c.clone())).collect();
        let mut ov: Vec<(&str, Vec<u8>)> = alt_pb.iter().map(|(t, _, v)| (*t, v.clone())).collect();
        oc.push(("leaf-common", canon.leaf_c.clone()));
        ov.push(("leaf-vo", canon.leaf_v.clone()));
        let mut cands: Vec<(String, Vec<u8>, Vec<u8>, usize)> = pair_candidates(&mut r, c1, v1, &oc, &ov, if thorough { 3 } else { 1 }).into_iter().map(|(t, c, v)| (t, c, v, 1usize)).collect();
        if !thorough {
            // every call rebuilds the private-batch circuit (tens of CPU-seconds): the canonical pair and a seeded sample of 3
            let canonical = cands.remove(0);
            let mut keep = vec![canonical];
            for _ in 0..3 {
                let i = r.below(cands.len() as u64) as usize;
                keep.push(cands.swap_remove(i));
            }
            cands = keep;
        } else {
            let (c2, v2) = &canon.pb[&2];
            cands.push(("n2:canonical".into(), c2.clone(), v2.clone(), 2));
            cands.push(("n2:artifacts-of-n1".into(), c1.clone(), v1.clone(), 2));
            cands.push(("n1:artifacts-of-n2".into(), c2.clone(), v2.clone(), 1));
        }
        cands.push(("n0".into(), c1.clone(), v1.clone(), 0));
        cands.push(("n65".into(), c1.clone(), v1.clone(), 65));
        let outs: Vec<Vec<i128>> = cands.par_iter().map(|(_, c, v, n)| cls17(no_panic(|| au::load_canonical_private_batch_verifier_data(c, v, leaf_data, *n)))).collect();
        for ((tag, c, v, n), out) in cands.iter().zip(outs) {
            let (rc, rv) = match canon.pb.get(n) {
                Some((a, b)) => (seg_bytes(a), seg_bytes(b)),
                None => (vec![], vec![]),
            };
            cases.push((1704, tag.clone(), vec![seg_bytes(c), seg_bytes(v), vec![*n as i128], rc, rv], out));
        }
    }
    notes.push(("c17".into(), format!("byte loaders done after {:?}", t0.elapsed())));

    // --- 1710..1714: directory loaders
    let cap = au::MAX_ARTIFACT_FILE_BYTES;
    let mut scen: Vec<Scenario> = Vec::new();
    let nf = if thorough { 12 } else { 2 };
    let nh = 2;
    let cfg_json = |n: usize, m: Option<usize>| -> Vec<u8> {
        match m {
            Some(m) => format!("{{\"num_leaf_proofs\": {n}, \"num_private_batch_proofs\": {m}}}").into_bytes(),
            None => format!("{{\"num_leaf_proofs\": {n}, \"num_private_batch_proofs\": null}}").into_bytes(),
        }
    };
    {
        let (c1, v1) = &canon.pb[&1];
        let (pc, pv) = &canon.pb_pub[&(1, 1)];
        let (pc2, pv2) = &canon.pb_pub[&(2, 1)];
        let leaf_files: Vec<(String, Vec<Op>)> = file_ops("common.bin", &canon.leaf_c, &[("zk-config", zk_c.clone()), ("fake-leaf", fk_c.clone())], cap, &mut r, nf, false)
            .into_iter()
            .chain(file_ops("verifier.bin", &canon.leaf_v, &[("zk-config", zk_v.clone()), ("fake-leaf", fk_v.clone())], cap, &mut r, nf, false))
            .collect();
        let pb_files: Vec<(String, Vec<Op>)> = file_ops("private_batch_common.bin", c1, &alt_pb.iter().map(|(t, c, _)| (*t, c.clone())).collect::<Vec<_>>(), cap, &mut r, nh, false)
            .into_iter()
            .chain(file_ops("private_batch_verifier.bin", v1, &alt_pb.iter().map(|(t, _, v)| (*t, v.clone())).collect::<Vec<_>>(), cap, &mut r, nh, false))
            .collect();
        let pub_files: Vec<(String, Vec<Op>)> = file_ops("public_batch_common.bin", pc, &[("shape-m2", pc2.clone()), ("private-batch", c1.clone())], cap, &mut r, nh + 1, false)
            .into_iter()
            .chain(file_ops("public_batch_verifier.bin", pv, &[("shape-m2", pv2.clone()), ("private-batch", v1.clone())], cap, &mut r, nh + 1, false))
            .collect();
        let cfg_ops: Vec<(String, Vec<Op>)> = vec![
            ("config:missing".into(), vec![Op::Remove("config.json")]),
            ("config:oversized-sparse".into(), vec![Op::Sparse("config.json", cap + 1)]),
            ("config:oversized-symlink".into(), vec![Op::SymlinkSparse("config.json", cap + 1)]),
            ("config:garbage".into(), vec![Op::Set("config.json", b"{not json".to_vec())]),
            ("config:n0".into(), vec![Op::Set("config.json", cfg_json(0, Some(1)))]),
            ("config:n65".into(), vec![Op::Set("config.json", cfg_json(65, Some(1)))]),
        ];
        let mut add = |which: usize, tag: String, ops: Vec<Op>, args: Vec<i128>| scen.push(Scenario { which, tag, ops, args });
        // 0: PrivateBatchProver
        if thorough {
            add(0, "canonical".into(), vec![], vec![]);
        }
        // (quick: the accepting runs of the three prover loaders happen in the strace step, on directories with planted
        // prover artifacts and extra files)
        if thorough {
            add(0, "canonical+extras+bogus-prover-bins".into(), extras_ops(&mut r), vec![]);
            add(0, "config:n2-with-leaf-artifacts".into(), vec![Op::Set("config.json", cfg_json(2, None))], vec![]);
            add(0, "template:garbage".into(), vec![Op::Set("dummy_proof.bin", vec![7u8; 1000])], vec![]);
        }
        add(0, "template:oversized-sparse".into(), vec![Op::Sparse("dummy_proof.bin", cap + 1)], vec![]);
        add(0, "template:oversized-symlink".into(), vec![Op::SymlinkSparse("dummy_proof.bin", cap + 1)], vec![]);
        for (t, o) in leaf_files.iter().chain(cfg_ops.iter()) {
            add(0, t.clone(), o.clone(), vec![]);
        }
        // 1: PublicBatchProver
        if thorough {
            add(1, "canonical+extras+bogus-prover-bins".into(), extras_ops(&mut r), vec![]);
        }
        add(1, "config:no-private-batch-count".into(), vec![Op::Set("config.json", cfg_json(1, None))], vec![]);
        if thorough {
            add(1, "config:n2-with-n1-artifacts".into(), vec![Op::Set("config.json", cfg_json(2, Some(1)))], vec![]);
            add(1, "template:garbage".into(), vec![Op::Set("dummy_private_batch_proof.bin", vec![7u8; 1000])], vec![]);
        }
        for (t, o) in sample_heavy(&pb_files, if thorough { 10 } else { 1 }, &mut r).iter().chain(cfg_ops.iter()) {
            add(1, t.clone(), o.clone(), vec![]);
        }
        // 2: PublicBatchAggregator
        if thorough {
            add(2, "canonical".into(), vec![], vec![]);
            add(2, "config:m2-with-m1-artifacts".into(), vec![Op::Set("config.json", cfg_json(1, Some(2)))], vec![]);
        }
        if thorough {
            add(2, "canonical+extras+bogus-prover-bins".into(), extras_ops(&mut r), vec![]);
            add(2, "template:garbage".into(), vec![Op::Set("dummy_private_batch_proof.bin", vec![7u8; 1000])], vec![]);
            add(2, "template:oversized-sparse".into(), vec![Op::Sparse("dummy_private_batch_proof.bin", cap + 1)], vec![]);
            add(2, "leaf-artifacts-garbage(unused)".into(), vec![Op::Set("common.bin", vec![1, 2, 3]), Op::Remove("verifier.bin")], vec![]);
        }
        add(2, "config:no-private-batch-count".into(), vec![Op::Set("config.json", cfg_json(1, None))], vec![]);
        for (t, o) in sample_heavy(&pb_files, if thorough { 8 } else { 0 }, &mut r).iter().chain(sample_heavy(&pub_files, if thorough { 12 } else { 2 }, &mut r).iter()).chain(cfg_ops.iter()) {
            add(2, t.clone(), o.clone(), vec![]);
        }
        // 3: generate_private_batch_circuit_binaries(dir, n, false)
        if thorough {
            add(3, "canonical".into(), vec![], vec![1]);
        }
        add(3, "canonical+extras".into(), extras_ops(&mut r), vec![1]);
        add(3, "n0".into(), vec![], vec![0]);
        add(3, "n65".into(), vec![], vec![65]);
        for (t, o) in leaf_files.iter() {
            add(3, t.clone(), o.clone(), vec![1]);
        }
        // 4: generate_public_batch_circuit_binaries(dir, m, n)
        add(4, "canonical".into(), vec![], vec![1, 1]);
        if thorough {
            add(4, "n2-with-n1-artifacts".into(), vec![], vec![1, 2]);
        }
        add(4, "m0".into(), vec![], vec![0, 1]);
        add(4, "m65".into(), vec![], vec![65, 1]);
        for (t, o) in sample_heavy(&pb_files, if thorough { 8 } else { 1 }, &mut r).iter() {
            add(4, t.clone(), o.clone(), vec![1, 1]);
        }
    }
    let sroot = root.join("scen");
    let results: Vec<CaseRec> = scen
        .par_iter()
        .enumerate()
        .map(|(i, s)| {
            let d = sroot.join(format!("s{i}"));
            copy_dir(&base, &d);
            apply(&d, &s.ops);
            let (nref, mref) = match s.which {
                3 => (Some(s.args[0] as usize), None),
                4 => (Some(s.args[1] as usize), Some(s.args[0] as usize)),
                _ => (None, None),
            };
            let segs = describe_dir(&d, s.args.clone(), &canon, &tpl, nref, mref);
            let out = run_dir_loader(s.which, &d, &s.args);
            let _ = std::fs::remove_dir_all(&d);
            (1710 + s.which as u32, s.tag.clone(), segs, out)
        })
        .collect();
    cases.extend(results);
    notes.push(("c17".into(), format!("{} directory scenarios done after {:?}", scen.len(), t0.elapsed())));

    // --- directories for the strace step
    if let Some(keep) = keep {
        let _ = std::fs::remove_dir_all(&keep);
        std::fs::create_dir_all(&keep).unwrap();
        canon.save(&keep.join("canon"));
        let t1 = keep.join("full");
        copy_dir(&base, &t1);
        apply(&t1, &extras_ops(&mut r));
        let t2 = keep.join("oversized-pb-common");
        copy_dir(&base, &t2);
        apply(&t2, &extras_ops(&mut r));
        apply(&t2, &[Op::Sparse("private_batch_common.bin", cap + 1)]);
        let t3 = keep.join("oversized-verifier");
        copy_dir(&base, &t3);
        apply(&t3, &[Op::Sparse("verifier.bin", cap + 1), Op::Set("prover.bin", b"bogus".to_vec())]);
        let t4 = keep.join("oversized-verifier-1mib");
        copy_dir(&base, &t4);
        apply(&t4, &[Op::Sparse("verifier.bin", wormhole_verifier::MAX_VERIFIER_ARTIFACT_BYTES + 1)]);
    }
    let _ = std::fs::remove_dir_all(&root);
    let _ = std::fs::remove_dir_all(symlink_targets_dir());
    guard.restore();
    emit(cases, notes);
}

/// child of c17: the oversized input lives in PROT_NONE memory; touching one byte of it kills the process
fn probe_slice(which: usize) {
    quiet_panics();
    let len = wormhole_verifier::MAX_VERIFIER_ARTIFACT_BYTES as usize + 1;
    let map_len = (len + 4095) / 4096 * 4096;
    let big: &[u8] = unsafe {
        let p = libc::mmap(std::ptr::null_mut(), map_len, libc::PROT_NONE, libc::MAP_PRIVATE | libc::MAP_ANONYMOUS, -1, 0);
        assert!(p != libc::MAP_FAILED);
        std::slice::from_raw_parts(p as *const u8, len)
    };
    let small = [1u8];
    let out = if which == 0 { cls17(no_panic(|| WormholeVerifier::new_from_bytes(big, &small))) } else { cls17(no_panic(|| WormholeVerifier::new_from_bytes(&small, big))) };
    println!("{}", out.iter().map(|x| x.to_string()).collect::<Vec<_>>().join(" "));
}

/// one loader on one existing directory (run under strace); prints the case with the result class only
fn trace(which: usize, dir: &Path) {
    let guard = StdoutGuard::new();
    quiet_panics();
    let mut cases: Vec<CaseRec> = Vec::new();
    let tag = format!("trace:{}", dir.file_name().unwrap().to_string_lossy());
    match which {
        0 | 1 | 2 => {
            let cfg = std::fs::metadata(dir.join("config.json")).ok().filter(|m| m.len() < BIG).map(|_| config_token(&std::fs::read(dir.join("config.json")).unwrap())).unwrap_or_default();
            let n = cfg.first().map(|&x| x as usize).unwrap_or(1);
            let m = cfg.get(1).map(|&x| x as usize).unwrap_or(1);
            let canon = match dir.parent().and_then(|p| Canon::load(&p.join("canon"))) {
                Some(c) => c,
                None => match which {
                    0 => Canon::build(&[], &[]),
                    1 => Canon::build(&[n], &[]),
                    _ => Canon::build(&[n], &[(m, n)]),
                },
            };
            // the templates of a freshly generated directory are not at hand here: a template counts as "the" template
            // when it deserialises and verifies, which is what the token stands for
            let tpl = Templates { leaf: std::fs::read(dir.join("dummy_proof.bin")).unwrap_or_default(), pb: std::fs::read(dir.join("dummy_private_batch_proof.bin")).unwrap_or_default() };
            let segs = describe_dir(dir, vec![], &canon, &tpl, None, None);
            // marker so that the orchestrator only looks at the syscalls of the loader itself
            let _ = std::fs::metadata(dir.join("@@BEGIN"));
            let out = run_dir_loader(which, dir, &[]);
            let _ = std::fs::metadata(dir.join("@@END"));
            cases.push((1720 + which as u32, tag, segs, out));
        }
        3 => {
            let vp = dir.join("verifier.bin");
            let cp = dir.join("common.bin");
            let rd = |p: &Path| -> (Seg, Vec<u8>) {
                match std::fs::metadata(p) {
                    Err(_) => (vec![0, 0], vec![]),
                    Ok(m) if m.len() >= BIG => (vec![1, m.len() as i128], vec![]),
                    Ok(m) => {
                        let b = std::fs::read(p).unwrap();
                        if m.len() as usize == b.len() && b.iter().any(|&x| x != 0) {
                            (vec![1, m.len() as i128], b)
                        } else {
                            (vec![1, m.len() as i128], vec![])
                        }
                    }
                }
            };
            let (mv, bv) = rd(&vp);
            let (mc, bc) = rd(&cp);
            let leaf = wormhole_circuit::circuit::circuit_logic::WormholeCircuit::new(CircuitConfig::standard_recursion_config()).expect("leaf").build_verifier();
            let (c, v) = vdata_bytes(&leaf);
            let _ = std::fs::metadata(dir.join("@@BEGIN"));
            let out = cls17(no_panic(|| WormholeVerifier::new_from_files(&vp, &cp)));
            let _ = std::fs::metadata(dir.join("@@END"));
            cases.push((1723, tag, vec![mv, seg_bytes(&bv), mc, seg_bytes(&bc), seg_bytes(&keccak(&bv)), seg_bytes(&keccak(&bc)), seg_bytes(&keccak(&v)), seg_bytes(&keccak(&c)), vec![1]], out));
        }
        _ => {
            std::env::set_current_dir(dir).unwrap();
            let _ = std::fs::metadata(dir.join("@@BEGIN"));
            let out = match no_panic(|| wormhole_prover::build_fresh()) {
                Some(_) => vec![1],
                None => vec![-1],
            };
            let _ = std::fs::metadata(dir.join("@@END"));
            cases.push((1724, tag, vec![], out));
        }
    }
    guard.restore();
    emit(cases, vec![]);
}

// ------------------------------------------------------------------------------------------ C18
fn kind18(e: &anyhow::Error) -> i128 {
    let s = format!("{e:#}");
    if s.contains("public input length mismatch") {
        2
    } else if s.contains("does not match configured aggregator address") {
        3
    } else if s.contains("aggregated proof verification failed") {
        4
    } else {
        5
    }
}
fn cls18(r: Option<anyhow::Result<()>>) -> Vec<i128> {
    match r {
        None => vec![-1],
        Some(Ok(())) => vec![1],
        Some(Err(e)) => vec![0, kind18(&e)],
    }
}
fn canon_pis(p: &Proof) -> Vec<u64> {
    p.public_inputs.iter().map(|f| f.to_canonical_u64()).collect()
}

fn c18() {
    use test_helpers::TestInputs as _;
    use wormhole_circuit::block_header::header::HeaderInputs;
    use wormhole_circuit::inputs::CircuitInputs;
    let guard = StdoutGuard::new();
    quiet_panics();
    let thorough = tier_is_thorough();
    let mut r = Rng::new(seed_from_env());
    let mut cases: Vec<CaseRec> = Vec::new();
    let mut notes: Vec<(String, String)> = Vec::new();
    let t0 = std::time::Instant::now();
    let root = tmp_root("c18");
    let dir = root.join("bins");
    gen_base(&dir, 1, Some(1));
    notes.push(("c18".into(), format!("bins dir (leaf -> private batch N=1 -> public batch M=1) generated after {:?}", t0.elapsed())));

    // a real, non-dummy leaf proof and its private batch
    let mut inputs = CircuitInputs::test_inputs_0();
    inputs.public.block_hash = HeaderInputs::try_from(&inputs).expect("header inputs").block_hash();
    let leaf = wormhole_prover::build_fresh().commit(&inputs).expect("commit leaf").prove().expect("prove leaf");
    let pb_proof = PrivateBatchProver::new_from_binaries_dir(&dir).expect("private prover").aggregate(vec![leaf]).expect("private aggregate");
    notes.push(("c18".into(), format!("private-batch proof after {:?}", t0.elapsed())));

    // the pinned public-batch verifier, rebuilt independently of the aggregator's loader
    let leaf_v = au::canonical_leaf_verifier_data();
    let pbv = au::canonical_private_batch_verifier_data(&leaf_v, 1).expect("pb verifier");
    let pubv = au::canonical_public_batch_verifier_data(&pbv, 1, 1).expect("public verifier");
    let expected_len = pubv.common.num_public_inputs;
    let verifies = |p: &Proof| -> bool { no_panic(|| pubv.verify(p.clone()).is_ok()).unwrap_or(false) };

    let rand_addr = |r: &mut Rng| -> [u64; 4] { core::array::from_fn(|_| r.next() % P) };
    let mut addrs: Vec<[u64; 4]> = vec![[0x0101010101010101; 4], rand_addr(&mut r)];
    if thorough {
        addrs.push([0, 0, 0, 0]);
        addrs.push([P - 1, P - 1, P - 1, P - 1]);
        addrs.push(rand_addr(&mut r));
    }
    // an address with a small first limb and, as a verify-only context, its NON-CANONICAL byte twin (first limb + p):
    // other bytes, same field elements.  A comparison carried out on field elements instead of bytes would let the
    // twin's aggregator accept proofs made for the canonical address.
    let small = {
        let mut a = rand_addr(&mut r);
        a[0] = 5;
        a
    };
    addrs.push(small);
    // contexts that never prove (only verify); every context costs a full PublicBatchAggregator::new (two recursive
    // circuit rebuilds), so the quick tier keeps one: the seeded address with its last limb + 1
    let mut ctx_addrs = addrs.clone();
    {
        let mut twin = small;
        twin[0] = 5 + P;
        ctx_addrs.push(twin);
    }
    {
        let mut a = addrs[1];
        a[3] = (a[3] + 1) % P;
        ctx_addrs.push(a);
        if thorough {
            ctx_addrs.push([0x0202020202020202; 4]);
            let mut b = addrs[1];
            b[0] ^= 1;
            ctx_addrs.push(b);
        }
    }

    // --- the public-batch proofs, produced INDEPENDENTLY of ProvingContext::prove_batch: the canonical public-batch
    // circuit, the private-batch proof in its slot, the address targets set (what the circuit then exposes is its own doing)
    let proofs: Vec<([u64; 4], Proof)> = {
        use plonky2::iop::witness::{PartialWitness, WitnessWrite};
        let c = wormhole_aggregator::public_batch::circuit::PublicBatchCircuit::new(wormhole_public_batch_circuit_config(), pbv.common.clone(), &pbv.verifier_only, 1, 1).expect("public batch circuit");
        let targets = c.targets();
        let data = c.build_circuit();
        addrs
            .par_iter()
            .map(|a| {
                let mut pw = PartialWitness::new();
                pw.set_proof_with_pis_target(&targets.private_batch_proofs[0], &pb_proof).expect("set proof");
                for (t, v) in targets.aggregator_address.iter().zip(a) {
                    pw.set_target(*t, F::from_canonical_u64(*v)).expect("set address");
                }
                let p = data.prove(pw).expect("independent public-batch prove");
                (*a, p)
            })
            .collect()
    };
    for (_, p) in &proofs {
        assert!(verifies(p), "independently produced public-batch proof does not verify under the canonical verifier");
    }
    notes.push(("c18".into(), format!("{} independent public-batch proofs after {:?}", proofs.len(), t0.elapsed())));

    // --- 1802: prove_batch under each proving address.  The model is told what an honest production yields (the
    // independent proof's public inputs and verdict); whatever the implementation returns is also put through the model.
    let aggs: Vec<PublicBatchAggregator> = ctx_addrs.par_iter().map(|a| PublicBatchAggregator::new(&dir, address(*a)).expect("aggregator")).collect();
    notes.push(("c18".into(), format!("{} aggregators loaded after {:?}", aggs.len(), t0.elapsed())));
    let produced: Vec<(usize, Option<anyhow::Result<Proof>>)> =
        (0..addrs.len()).into_par_iter().map(|i| (i, no_panic(|| aggs[i].proving_context().prove_batch(vec![pb_proof.clone()])))).collect();
    for (i, res) in produced {
        let a = addrs[i];
        let ind = &proofs[i].1;
        let honest = vec![vec![expected_len as i128], seg_u64(&a), vec![1], seg_u64(&canon_pis(ind)), vec![verifies(ind) as i128]];
        match res {
            None => cases.push((1802, "prove_batch".into(), honest, vec![-1])),
            Some(Err(e)) => {
                notes.push(("prove_batch-error".into(), format!("{e:#}")));
                cases.push((1802, "prove_batch".into(), honest, vec![0]));
            }
            Some(Ok(p)) => {
                cases.push((1802, "prove_batch".into(), honest, vec![1]));
                if canon_pis(&p) != canon_pis(ind) {
                    notes.push(("prove_batch".into(), "returned public inputs differ from the independently produced proof's".into()));
                }
                cases.push((1802, "prove_batch:returned-proof".into(), vec![vec![expected_len as i128], seg_u64(&a), vec![1], seg_u64(&canon_pis(&p)), vec![verifies(&p) as i128]], vec![1]));
            }
        }
    }
    // rejected inputs of prove_batch: nothing is returned
    {
        let agg = &aggs[0];
        for (tag, v) in [("prove_batch:empty", vec![]), ("prove_batch:too-many", vec![pb_proof.clone(), pb_proof.clone()])] {
            let res = no_panic(|| agg.prove_batch(v));
            let out = match res {
                None => vec![-1],
                Some(Ok(_)) => vec![1],
                Some(Err(_)) => vec![0],
            };
            cases.push((1802, tag.into(), vec![vec![expected_len as i128], seg_u64(&addrs[0]), vec![0], vec![], vec![0]], out));
        }
    }
    notes.push(("c18".into(), format!("prove_batch runs done after {:?}", t0.elapsed())));

    // --- 1801: verify, every context x every proof variant
    // (the untouched valid proofs first: a context accepting the valid proof of ANOTHER address is the headline case)
    let mut variants: Vec<(String, Proof)> = proofs.iter().enumerate().map(|(i, (_, p))| (format!("valid-proof-of-addr{i}"), p.clone())).collect();
    for (i, (a, p)) in proofs.iter().enumerate() {
        // same field elements, non-canonical representation of the address limbs (where it fits in a u64)
        let mut q = p.clone();
        for k in 0..4 {
            if a[k] < (u64::MAX - P) {
                q.public_inputs[k] = F::from_noncanonical_u64(a[k] + P);
            }
        }
        variants.push((format!("noncanonical-address-limbs-of-addr{i}"), q));
        for k in 0..4 {
            let mut q = p.clone();
            q.public_inputs[k] = F::from_canonical_u64((a[k] + 1) % P);
            variants.push((format!("address-limb{k}+1"), q));
        }
        // byte by byte: the proof's address differs from `a` in exactly one byte (lowest and highest bit of every byte
        // that can be flipped without leaving the field) - a comparison that skips bytes or limbs must not accept it
        if i == 0 {
            for byte in 0..32usize {
                for bit in [0usize, 7] {
                    let k = byte / 8;
                    let v = a[k] ^ (1u64 << (8 * (byte % 8) + bit));
                    if v < P {
                        let mut q = p.clone();
                        q.public_inputs[k] = F::from_canonical_u64(v);
                        variants.push((format!("address-byte{byte}-bit{bit}-flipped"), q));
                    }
                }
            }
        }
        for (j, b) in ctx_addrs.iter().enumerate() {
            if b != a {
                let mut q = p.clone();
                for k in 0..4 {
                    q.public_inputs[k] = F::from_canonical_u64(b[k]);
                }
                variants.push((format!("address-rewritten-to-ctx{j}"), q));
            }
        }
        for idx in [4usize, 5, 6, 10, 11, 12, expected_len - 1] {
            let mut q = p.clone();
            q.public_inputs[idx] = q.public_inputs[idx] + F::ONE;
            variants.push((format!("tampered-pi{idx}"), q));
        }
        let mut q = p.clone();
        q.public_inputs.pop();
        variants.push(("len-1".into(), q));
        let mut q = p.clone();
        q.public_inputs.push(F::ZERO);
        variants.push(("len+1".into(), q));
        for l in [0usize, 1, 3, 4, 5, 11, 12] {
            let mut q = p.clone();
            q.public_inputs.truncate(l);
            variants.push((format!("len={l}"), q));
        }
        let mut q = p.clone();
        q.public_inputs.drain(0..4);
        variants.push(("address-dropped".into(), q));
        // wrong length AND wrong address AND invalid
        let mut q = p.clone();
        q.public_inputs[0] = q.public_inputs[0] + F::ONE;
        q.public_inputs.push(F::ONE);
        variants.push(("len+1-and-address".into(), q));
        // cryptographically broken but untouched public inputs
        let mut q = p.clone();
        q.proof.openings.wires[0] = q.proof.openings.wires[0] + <<F as plonky2::field::extension::Extendable<D>>::Extension as Field>::ONE;
        variants.push(("broken-opening".into(), q));
    }
    // a proof of another circuit with the right address in front
    {
        let mut q = pb_proof.clone();
        for k in 0..4 {
            q.public_inputs[k] = F::from_canonical_u64(addrs[0][k]);
        }
        variants.push(("private-batch-proof-with-address".into(), q));
    }
    for (j, ca) in ctx_addrs.iter().enumerate() {
        let agg = &aggs[j];
        let ctx = agg.proving_context();
        for (tag, q) in &variants {
            let out = cls18(no_panic(|| ctx.verify(q.clone())));
            // the aggregator's own entry point must agree with its context
            let out2 = cls18(no_panic(|| agg.verify(q.clone())));
            if out != out2 {
                notes.push(("aggregator-vs-context".into(), format!("{tag}: {:?} vs {:?}", out2, out)));
            }
            cases.push((1801, format!("ctx{j}:{tag}"), vec![vec![expected_len as i128], seg_u64(ca), seg_u64(&canon_pis(q)), vec![verifies(q) as i128]], out));
        }
    }
    notes.push(("c18".into(), format!("done after {:?}", t0.elapsed())));
    let _ = std::fs::remove_dir_all(&root);
    guard.restore();
    emit(cases, notes);
}

fn main() {
    let a: Vec<String> = std::env::args().collect();
    match a.get(1).map(|s| s.as_str()) {
        Some("c17") => c17(a.get(2).map(PathBuf::from)),
        Some("c18") => c18(),
        Some("probe-slice") => probe_slice(a[2].parse().unwrap()),
        Some("bench") => {
            let t = std::time::Instant::now();
            let leaf = au::canonical_leaf_verifier_data();
            eprintln!("leaf build {:?}", t.elapsed());
            let t = std::time::Instant::now();
            let pb = au::canonical_private_batch_verifier_data(&leaf, 1).unwrap();
            eprintln!("private batch (n=1) build {:?}", t.elapsed());
            let t = std::time::Instant::now();
            let _ = au::canonical_public_batch_verifier_data(&pb, 1, 1).unwrap();
            eprintln!("public batch (1,1) build {:?}", t.elapsed());
        }
        Some("trace") => trace(a[2].parse().unwrap(), Path::new(&a[3])),
        _ => {
            eprintln!("usage: loaders c17 [keep-dir] | c18 | probe-slice <0|1> | trace <which> <dir>");
            std::process::exit(2);
        }
    }
}
