//! C14 / C16: the REAL batch provers (`PrivateBatchProver`, `PublicBatchProver`), their commit
//! preflights and their padding-template validators, over the fake 21-PI leaf circuit stack the repo's
//! own unit tests use (plus, for the canonical-pinned loaders, real leaf proofs).
//! Model side: coq/Sys/Preflight.v (`dispatch`).
//!
//! fids
//!   1401  PrivateBatchProver::commit           segs [n]; template pis; [verifies, pis..]*   -> [1] | [0, kind]
//!   1402  on commit Ok: every gate constraint of the real circuit on the COMMITTED witness   -> [sat]
//!   1403  the real private-batch circuit on an explicitly ordered padded batch (no commit)   -> [sat]
//!   1404  ensure_leaf_batch_compatible (cfg-gated forwarder), bulk                           -> [1] | [0, kind]
//!   1411  PublicBatchProver::commit            segs [m, inner_pi_len]; template pis; [verifies, pis..]* -> [1] | [0, kind]
//!   1412  on commit Ok: gate constraints of the real public-batch circuit on the committed witness -> [sat]
//!   1414  preflight_private_batch_proofs (what ProvingContext::prove_batch calls first), bulk -> [1] | [0, kind]
//!   1601  leaf padding template at an entry point   segs [entry]; [verifies, pis..]         -> [1] | [0, kind] (kind 0 = unattributed)
//!   1602  private-batch padding template at an entry point  segs [entry]; [verifies, pis..] -> [1] | [0, kind]
use plonky2::field::types::{Field, PrimeField64};
use plonky2::iop::target::Target;
use plonky2::iop::witness::{PartialWitness, WitnessWrite};
use plonky2::plonk::circuit_data::{CircuitConfig, CircuitData, VerifierCircuitData};
use plonky2::plonk::proof::ProofWithPublicInputs;
use rayon::prelude::*;
use std::collections::HashMap;
use std::sync::Mutex;
use test_helpers::fake_leaf::{build_fake_leaf_circuit, prove_fake_leaf};
use verif_harness::plonk::*;
use verif_harness::*;
use wormhole_aggregator::private_batch::circuit::circuit_logic::PrivateBatchCircuit;
use wormhole_aggregator::private_batch::prover::lib::{verif_ensure_leaf_batch_compatible, verif_verify_dummy_leaf_template};
use wormhole_aggregator::private_batch::prover::PrivateBatchProver;
use wormhole_aggregator::public_batch::circuit::circuit_logic::PublicBatchCircuit;
use wormhole_aggregator::public_batch::prover::lib::{verif_c21_preflight_private_batch_proofs, verif_verify_dummy_private_batch_template};
use wormhole_aggregator::public_batch::prover::{PublicBatchInputs, PublicBatchProver};
use zk_circuits_common::circuit::{wormhole_private_batch_circuit_config, wormhole_public_batch_circuit_config};
use zk_circuits_common::utils::BytesDigest;

type Proof = ProofWithPublicInputs<F, C, D>;
type Leaf = [u64; 21];

// ------------------------------------------------------------------------------------------ error classes
// stable substrings of the error chain -> class.  Never compared as text.
const K_EMPTY: i128 = 1;
const K_TOO_MANY: i128 = 2;
const K_PI_LEN: i128 = 3;
const K_INVALID: i128 = 4;
const K_PAD_ASSET: i128 = 5;
const K_ASSET: i128 = 6;
const K_BLOCK: i128 = 7;
const K_FEE: i128 = 8;
const K_DUP_NULL: i128 = 9;
const K_ALL_DUMMY: i128 = 10;
const K_SUM: i128 = 11;
const K_OTHER: i128 = 99;

fn commit_kind(msg: &str) -> i128 {
    const T: [(&str, i128); 16] = [
        ("no leaf proofs to aggregate", K_EMPTY),
        ("no private-batch proofs to aggregate", K_EMPTY),
        ("too many proofs", K_TOO_MANY),
        ("Expected at most", K_TOO_MANY),
        ("public input length mismatch", K_PI_LEN),
        ("failed verification against the pinned", K_INVALID),
        ("dummy proofs use asset_id=0", K_PAD_ASSET),
        ("asset_id exceeds u32 range", K_PAD_ASSET),
        ("asset consistency across all slots", K_ASSET),
        ("must share one asset", K_ASSET),
        ("different block than proof", K_BLOCK),
        ("must share one fee rate", K_FEE),
        ("same nullifier", K_DUP_NULL),
        ("all-dummy", K_ALL_DUMMY),
        ("grouped exit sum", K_SUM),
        ("exit sum", K_SUM),
    ];
    for (s, k) in T {
        if msg.contains(s) {
            return k;
        }
    }
    K_OTHER
}
fn enc_commit(r: &Result<(), String>) -> Vec<i128> {
    match r {
        Ok(()) => vec![1],
        Err(m) => vec![0, commit_kind(m)],
    }
}

// template classes
const T_PARSE: i128 = 1;
const T_BLOCK: i128 = 2;
const T_OUTPUT: i128 = 3;
const T_ASSET: i128 = 4;
const T_EXIT: i128 = 5;
const T_VERIFY: i128 = 6;
fn template_kind(msg: &str) -> i128 {
    const T: [(&str, i128); 9] = [
        ("failed to parse dummy", T_PARSE),
        ("non-zero block_hash", T_BLOCK),
        ("non-zero output amounts", T_OUTPUT),
        ("non-zero payout", T_OUTPUT),
        ("non-zero asset_id", T_ASSET),
        ("non-zero exit account", T_EXIT),
        ("template failed verification", T_VERIFY),
        // loaders: a proof that does not even deserialize against the pinned common data
        ("failed to deserialize dummy", T_VERIFY),
        ("Failed to deserialize dummy", T_VERIFY),
    ];
    for (s, k) in T {
        if msg.contains(s) {
            return k;
        }
    }
    0
}
fn enc_template(r: &Result<(), String>) -> Vec<i128> {
    match r {
        Ok(()) => vec![1],
        Err(m) => vec![0, template_kind(m)],
    }
}

// ------------------------------------------------------------------------------------------ fake leaf stack
struct FakeLeaf {
    data: CircuitData<F, C, D>,
    targets: [Target; 21],
    cache: Mutex<HashMap<Leaf, Proof>>,
}
impl FakeLeaf {
    fn new() -> Self {
        let (data, targets) = build_fake_leaf_circuit();
        FakeLeaf { data, targets, cache: Mutex::new(HashMap::new()) }
    }
    fn vd(&self) -> VerifierCircuitData<F, C, D> {
        self.data.verifier_data()
    }
    /// a VALID fake-leaf proof of exactly these public inputs (outputs and fee must be < 2^32: the fake leaf range-checks them)
    fn prove(&self, pis: Leaf) -> Proof {
        if let Some(p) = self.cache.lock().unwrap().get(&pis) {
            return p.clone();
        }
        let fp: [F; 21] = core::array::from_fn(|i| F::from_canonical_u64(pis[i]));
        let p = prove_fake_leaf(&self.data, &self.targets, fp);
        self.cache.lock().unwrap().insert(pis, p.clone());
        p
    }
}

/// what the model sees of a child proof: its public-input vector and whether it verifies
#[derive(Clone)]
struct Child {
    proof: Proof,
    verifies: bool,
}
impl Child {
    fn pis(&self) -> Vec<u64> {
        self.proof.public_inputs.iter().map(|x| x.to_canonical_u64()).collect()
    }
    fn seg(&self) -> Seg {
        let mut s: Seg = vec![self.verifies as i128];
        s.extend(self.pis().iter().map(|&x| x as i128));
        s
    }
}
fn valid(fl: &FakeLeaf, pis: Leaf) -> Child {
    Child { proof: fl.prove(pis), verifies: true }
}
/// prove `pis`, then overwrite public input `at` with `v` (the proof no longer verifies)
fn tampered(fl: &FakeLeaf, pis: Leaf, at: usize, v: u64) -> Child {
    let mut p = fl.prove(pis);
    let verifies = p.public_inputs[at].to_canonical_u64() == v % P;
    p.public_inputs[at] = F::from_noncanonical_u64(v);
    Child { proof: p, verifies }
}
fn wrong_len(fl: &FakeLeaf, pis: Leaf, longer: bool) -> Child {
    let mut p = fl.prove(pis);
    if longer {
        p.public_inputs.push(F::ZERO);
    } else {
        p.public_inputs.pop();
    }
    Child { proof: p, verifies: false }
}

fn no_zk(mut c: CircuitConfig) -> CircuitConfig {
    c.zero_knowledge = false;
    c
}

struct Universe {
    accounts: Vec<[u64; 4]>,
    nullifiers: Vec<[u64; 4]>,
    blocks: Vec<([u64; 4], u64)>,
}
fn universe(r: &mut Rng) -> Universe {
    let d = |r: &mut Rng| -> [u64; 4] { core::array::from_fn(|_| r.next() % P) };
    Universe {
        accounts: vec![[0; 4], d(r), d(r), [1, 0, 0, 0], [0, 0, 0, 1]],
        nullifiers: (0..4).map(|_| d(r)).collect(),
        blocks: vec![(d(r), r.below(1 << 32)), (d(r), r.below(1 << 32)), ([0, 0, 0, 7], 3)],
    }
}
fn leaf(asset: u64, o1: u64, o2: u64, fee: u64, null: [u64; 4], e1: [u64; 4], e2: [u64; 4], bh: [u64; 4], bn: u64) -> Leaf {
    let mut l = [0u64; 21];
    l[0] = asset;
    l[1] = o1;
    l[2] = o2;
    l[3] = fee;
    l[4..8].copy_from_slice(&null);
    l[8..12].copy_from_slice(&e1);
    l[12..16].copy_from_slice(&e2);
    l[16..20].copy_from_slice(&bh);
    l[20] = bn;
    l
}
fn small_amount(r: &mut Rng) -> u64 {
    match r.below(5) {
        0 => 0,
        1 => 1,
        2 => r.below(1 << 20),
        3 => r.below(1 << 28),
        _ => 1 << 29,
    }
}

/// a vector of k leaf statements: mostly compatible, with one deliberate feature per branch
fn gen_leaf_batch(r: &mut Rng, k: usize, n: usize, u: &Universe) -> (Vec<Leaf>, &'static str) {
    gen_leaf_batch_with(r, k, n, u, None)
}
/// `force`: the feature branch to take (0..=17, anything above = plain compatible batch)
fn gen_leaf_batch_with(r: &mut Rng, k: usize, n: usize, u: &Universe, force: Option<u64>) -> (Vec<Leaf>, &'static str) {
    let padding = k < n;
    let asset = if !padding && r.chance(1, 3) { *r.pick(&[1u64, 7, (1 << 32) - 1, 1 << 32, P - 1]) } else { 0 };
    let fee = *r.pick(&[0u64, 10, 10000]);
    let blk = r.below(2) as usize;
    let few = r.chance(2, 3);
    let mut ls: Vec<Leaf> = (0..k)
        .map(|_| {
            let a1 = if few { u.accounts[r.below(3) as usize] } else { *r.pick(&u.accounts) };
            let a2 = if few { u.accounts[r.below(3) as usize] } else { *r.pick(&u.accounts) };
            let nl: [u64; 4] = core::array::from_fn(|_| r.next() % P);
            leaf(asset, small_amount(r), if r.chance(1, 2) { 0 } else { small_amount(r) }, fee, nl, a1, a2, u.blocks[blk].0, u.blocks[blk].1)
        })
        .collect();
    let mut tag = "compatible";
    if k == 0 {
        return (ls, "empty");
    }
    let i = r.below(k as u64) as usize;
    let j = if k >= 2 { (i + 1 + r.below(k as u64 - 1) as usize) % k } else { i };
    let branch = r.below(22);
    match force.unwrap_or(branch) {
        0 => {
            ls[i][0] = asset + 1;
            tag = "asset-differs";
        }
        1 => {
            ls[i][3] = fee + 1;
            tag = "fee-differs";
        }
        2 => {
            ls[i][16..20].copy_from_slice(&u.blocks[1 - blk].0);
            tag = "block-differs";
        }
        3 => {
            let c: [u64; 4] = ls[i][4..8].try_into().unwrap();
            ls[j][4..8].copy_from_slice(&c);
            tag = "nullifier-shared-real-real";
        }
        4 => {
            // a supplied dummy (zero block hash) sharing its nullifier with a real one, garbage fee / outputs / exits
            let c: [u64; 4] = ls[i][4..8].try_into().unwrap();
            ls[j][4..8].copy_from_slice(&c);
            ls[j][16..20].copy_from_slice(&[0; 4]);
            ls[j][3] = fee + 5;
            ls[j][1] = (1 << 32) - 1;
            tag = "supplied-dummy-shares-nullifier";
        }
        5 => {
            for l in ls.iter_mut() {
                l[16..20].copy_from_slice(&[0; 4]);
            }
            tag = "all-supplied-dummy";
        }
        6 | 7 | 8 => {
            // grouped sums around 2^32 on one account (possibly the zero account), over both outputs
            let acc = *r.pick(&[u.accounts[0], u.accounts[1]]);
            let target: u64 = *r.pick(&[(1u64 << 32) - 1, 1 << 32, (1 << 32) + 1, 1 << 33, (1 << 32) - 2]);
            let slots = 2 * k as u64;
            let mut rest = target;
            for (q, l) in ls.iter_mut().enumerate() {
                l[8..12].copy_from_slice(&acc);
                l[12..16].copy_from_slice(&acc);
                for o in 0..2u64 {
                    let left = slots - (2 * q as u64 + o);
                    let share = if left == 1 { rest } else { (rest / left).min((1 << 32) - 1) };
                    let share = share.min((1 << 32) - 1);
                    l[1 + o as usize] = share;
                    rest -= share;
                }
            }
            tag = "one-account-sum-near-2^32";
        }
        9 => {
            // same total spread over DIFFERENT accounts: no overflow
            for (q, l) in ls.iter_mut().enumerate() {
                let mut a = [q as u64 + 1, 5, 5, 5];
                l[8..12].copy_from_slice(&a);
                a[1] = 6;
                l[12..16].copy_from_slice(&a);
                l[1] = (1 << 32) - 1;
                l[2] = (1 << 32) - 1;
            }
            tag = "max-amounts-distinct-accounts";
        }
        10 => {
            // a supplied dummy whose (masked) outputs would overflow the group if they were counted
            let acc = u.accounts[1];
            for l in ls.iter_mut() {
                l[8..12].copy_from_slice(&acc);
                l[12..16].copy_from_slice(&acc);
                l[1] = 1 << 30;
                l[2] = 0;
            }
            ls[j][16..20].copy_from_slice(&[0; 4]);
            ls[j][1] = (1 << 32) - 1;
            ls[j][2] = (1 << 32) - 1;
            tag = "supplied-dummy-with-huge-outputs";
        }
        11 => {
            // accounts differing in one limb only
            let mut a = u.accounts[1];
            for l in ls.iter_mut() {
                l[8..12].copy_from_slice(&a);
                l[1] = 1 << 31;
                l[2] = 0;
                a[3] = (a[3] + 1) % P;
            }
            tag = "accounts-differ-in-last-limb";
        }
        12 => {
            ls[i][16..20].copy_from_slice(&[0, 0, 0, 1]);
            tag = "block-hash-one-limb";
        }
        13 | 14 | 15 | 16 => {
            // two real leaves whose block hashes differ in exactly ONE limb (every limb in turn)
            let q = (force.unwrap_or(branch) - 13) as usize;
            ls[i][16 + q] = (ls[i][16 + q] + 1) % P;
            tag = match q {
                0 => "block-differs-in-limb0-only",
                1 => "block-differs-in-limb1-only",
                2 => "block-differs-in-limb2-only",
                _ => "block-differs-in-limb3-only",
            };
        }
        17 => {
            // nullifiers equal in three limbs: NOT a replay
            let q = r.below(4) as usize;
            let c: [u64; 4] = ls[i][4..8].try_into().unwrap();
            ls[j][4..8].copy_from_slice(&c);
            if i != j {
                ls[j][4 + q] = (ls[j][4 + q] + 1) % P;
            }
            tag = "nullifiers-differ-in-one-limb-only";
        }
        _ => {}
    }
    (ls, tag)
}

// ------------------------------------------------------------------------------------------ private batch
use wormhole_aggregator::private_batch::circuit::circuit_logic::PrivateBatchCircuitTargets;
use wormhole_aggregator::public_batch::circuit::circuit_logic::PublicBatchCircuitTargets;

struct PrivCtx {
    fl: FakeLeaf,
    cfg: CircuitConfig,
    template: Proof,
    /// the circuit of size n, built once: full data for explicit evaluation and as the verifier of really proved samples
    full: HashMap<usize, CircuitData<F, C, D>>,
    targets: HashMap<usize, PrivateBatchCircuitTargets>,
    /// committed-and-recycled provers (an accepted commit hands the prover back; a rejected one drops it)
    pool: Mutex<HashMap<usize, Vec<PrivateBatchProver>>>,
    builds: std::sync::atomic::AtomicUsize,
}
impl PrivCtx {
    fn new(fl: FakeLeaf, cfg: CircuitConfig, template: Proof, sizes: &[usize]) -> Self {
        let mut full = HashMap::new();
        let mut targets = HashMap::new();
        for &n in sizes {
            let c = PrivateBatchCircuit::new(cfg.clone(), &fl.data.common, &fl.data.verifier_only, n).unwrap();
            targets.insert(n, c.targets());
            full.insert(n, c.build_circuit());
        }
        PrivCtx { fl, cfg, template, full, targets, pool: Mutex::new(HashMap::new()), builds: Default::default() }
    }
    fn take_prover(&self, n: usize) -> PrivateBatchProver {
        if let Some(p) = self.pool.lock().unwrap().entry(n).or_default().pop() {
            return p;
        }
        self.builds.fetch_add(1, std::sync::atomic::Ordering::Relaxed);
        PrivateBatchProver::new(self.cfg.clone(), self.fl.data.common.clone(), &self.fl.data.verifier_only, n, self.template.clone()).expect("prover over the fake leaf")
    }
    fn give_back(&self, n: usize, p: PrivateBatchProver) {
        let p = p.verif_c15_recycle(self.targets[&n].clone());
        self.pool.lock().unwrap().entry(n).or_default().push(p);
    }
}

struct CommitObs {
    result: Result<(), String>,
    /// on Ok: does the committed witness satisfy every gate / copy constraint of the circuit?
    sat: Option<bool>,
    /// on Ok and when asked: did the real proving run succeed and the proof verify?
    proved: Option<bool>,
}

/// evaluate a committed (or hand-filled) partial witness on the circuit: witness generation (copy constraints) + all gates
fn witness_sat(data: &CircuitData<F, C, D>, pw: PartialWitness<F>) -> bool {
    let ev = CircuitEval::new(data);
    match ev.generate_with_overrides(pw, &mut no_tweak()) {
        Err(_) => false,
        Ok(w) => ev.gate_violations(&w) == 0,
    }
}

fn private_commit(ctx: &PrivCtx, n: usize, children: &[Child], really_prove: bool) -> CommitObs {
    let prover = ctx.take_prover(n);
    let proofs: Vec<Proof> = children.iter().map(|c| c.proof.clone()).collect();
    match prover.commit(proofs) {
        Err(e) => CommitObs { result: Err(format!("{:#}", e)), sat: None, proved: None },
        Ok(committed) => {
            let pw = committed.verif_partial_witness().clone();
            // the proving run of the committed prover's own circuit data on the committed witness (what prove() does),
            // verified under the independently built verifier of the same size
            let proved = if really_prove {
                Some(match committed.verif_circuit_data().prove(pw.clone()) {
                    Ok(p) => ctx.full[&n].verify(p).is_ok(),
                    Err(_) => false,
                })
            } else {
                None
            };
            let sat = witness_sat(&ctx.full[&n], pw);
            ctx.give_back(n, committed);
            CommitObs { result: Ok(()), sat: Some(sat), proved }
        }
    }
}

fn commit_segs(n: usize, extra: &[i128], template: &Proof, children: &[Child]) -> Vec<Seg> {
    let mut head: Seg = vec![n as i128];
    head.extend_from_slice(extra);
    let mut s = vec![head, template.public_inputs.iter().map(|x| x.to_canonical_u64() as i128).collect()];
    for c in children {
        s.push(c.seg());
    }
    s
}

/// fill the explicit order `proofs` into the size-n circuit and evaluate (no commit, no shuffle)
fn explicit_sat(ctx: &PrivCtx, n: usize, proofs: &[Proof], seed: u64) -> bool {
    let mut r = Rng::new(seed);
    let t = &ctx.targets[&n];
    let mut pw = PartialWitness::new();
    for (pt, p) in t.leaf_proofs.iter().zip(proofs) {
        pw.set_proof_with_pis_target(pt, p).unwrap();
    }
    for pre in &t.dummy_nullifier_pre_images {
        for l in 0..4 {
            pw.set_target(pre[l], F::from_canonical_u64(r.next() % P)).unwrap();
        }
    }
    witness_sat(&ctx.full[&n], pw)
}

fn c14_private(out: &mut Out, rng: &mut Rng, thorough: bool, t0: std::time::Instant) {
    let fl = FakeLeaf::new();
    let u = universe(rng);
    // a template that is a valid dummy in every inspected position but carries garbage elsewhere (fee, nullifier, block number)
    let mut tpl = [0u64; 21];
    tpl[3] = 10;
    tpl[4] = 77;
    tpl[20] = 5;
    let template = fl.prove(tpl);
    let sizes: Vec<usize> = if thorough { vec![1, 2, 3, 4] } else { vec![1, 2, 3] };
    let ctx = PrivCtx::new(fl, no_zk(wormhole_private_batch_circuit_config()), template, &sizes);
    out.note("c14-private", &format!("fake-leaf stack and circuits {:?} ready after {:?}", sizes, t0.elapsed()));

    // ---- the F1 regression pair: two valid real leaves paying the same account 2^31 (resp. 2^30) each.
    // Before the fix: commit Ok, prove() Err.  After: commit Err(sum class); the control still commits and proves.
    let acc = u.accounts[1];
    for (amt, tag) in [(1u64 << 31, "F1-two-leaves-2^31-same-account"), (1u64 << 30, "F1-control-two-leaves-2^30-same-account")] {
        let a = valid(&ctx.fl, leaf(0, amt, 0, 10, [1, 0, 0, 0], acc, [0; 4], [9, 0, 0, 0], 3));
        let b = valid(&ctx.fl, leaf(0, amt, 0, 10, [2, 0, 0, 0], acc, [0; 4], [9, 0, 0, 0], 3));
        let ch = vec![a, b];
        let segs = commit_segs(2, &[], &ctx.template, &ch);
        // (i) the plain client path: a fresh prover, commit, then the REAL prove()
        let real = PrivateBatchProver::new(ctx.cfg.clone(), ctx.fl.data.common.clone(), &ctx.fl.data.verifier_only, 2, ctx.template.clone())
            .unwrap()
            .commit(ch.iter().map(|c| c.proof.clone()).collect());
        // (ii) a second commit of the same vector, whose committed witness is evaluated gate by gate
        let o = private_commit(&ctx, 2, &ch, false);
        match real {
            Err(e) => {
                let m = format!("{:#}", e);
                out.note("F1", &format!("{}: commit Err class {}", tag, commit_kind(&m)));
                out.case(1401, tag, &segs, &enc_commit(&Err(m)));
            }
            Ok(committed) => {
                let pr = committed.prove();
                let sat = o.sat.unwrap_or(false);
                let shown = match &pr {
                    Ok(_) => "Ok".to_string(),
                    Err(e) => format!("Err({})", format!("{:#}", e).chars().take(140).collect::<String>()),
                };
                out.note("F1", &format!("{}: commit Ok; committed witness satisfies the circuit = {}; prove() = {}", tag, sat, shown));
                out.case(1401, tag, &segs, &[1]);
                out.case(1402, tag, &segs, &[(sat && pr.is_ok()) as i128]);
            }
        }
    }

    out.note("c14-private", &format!("F1 pair done; elapsed {:?}", t0.elapsed()));
    // ---- generated commit cases
    struct Job {
        n: usize,
        ch: Vec<Child>,
        tag: String,
        prove: bool,
    }
    let mut jobs: Vec<Job> = vec![];
    // modification applied to one proof of the vector: 0 tampered, 1 wrong PI length, 2 template supplied, 3 non-native asset
    // while padding is needed; anything else: none
    let mut plan: Vec<(usize, usize, Option<u64>, u64)> = vec![];
    // the fixed part: every feature branch once through the real commit at n = 2, the count / shape / cryptography classes,
    // and padding (k < n) with one and two real proofs
    for f in 0..=17u64 {
        plan.push((2, 2, Some(f), 99));
    }
    for m in [99u64, 0, 1, 2, 3] {
        plan.push((2, 1, Some(99), m));
    }
    plan.push((2, 0, None, 99));
    plan.push((2, 3, Some(99), 99));
    for (k, f, m) in [(1usize, 99u64, 99u64), (1, 6, 99), (1, 5, 99), (1, 99, 0)] {
        plan.push((1, k, Some(f), m));
    }
    for (k, f) in [(2usize, 99u64), (1, 99), (2, 3), (3, 7)] {
        if sizes.contains(&3) {
            plan.push((3, k, Some(f), 99));
        }
    }
    // the random part
    for &n in &sizes {
        let reps = match (n, thorough) {
            (_, false) => 0,
            (1, true) => 60,
            (2, true) => 200,
            (3, true) => 80,
            _ => 30,
        };
        for _ in 0..reps {
            let k = match rng.below(24) {
                0 => 0,
                1 => n + 1,
                _ => 1 + rng.below(n as u64) as usize,
            };
            plan.push((n, k, None, rng.below(14)));
        }
    }
    for (rep, (n, k, force, modif)) in plan.into_iter().enumerate() {
        let (ls, tag) = gen_leaf_batch_with(rng, k, n, &u, force);
        let mut ch: Vec<Child> = ls.iter().map(|l| valid(&ctx.fl, *l)).collect();
        let mut tag = tag.to_string();
        if k > 0 {
            let i = rng.below(k as u64) as usize;
            match modif {
                0 => {
                    // flip a public input after proving
                    let at = rng.below(21) as usize;
                    ch[i] = tampered(&ctx.fl, ls[i], at, ls[i][at] ^ 1);
                    tag += "+tampered";
                }
                1 => {
                    ch[i] = wrong_len(&ctx.fl, ls[i], rng.chance(1, 2));
                    tag += "+pi-len";
                }
                2 => {
                    // the padding template itself supplied as a "real" proof
                    ch[i] = Child { proof: ctx.template.clone(), verifies: true };
                    tag += "+template-supplied";
                }
                3 if k < n => {
                    // padding needed and a non-native asset
                    let mut l = ls[i];
                    l[0] = *rng.pick(&[1u64, (1 << 32) - 1, 1 << 32, P - 1]);
                    ch[i] = valid(&ctx.fl, l);
                    tag += "+nonzero-asset-with-padding";
                }
                _ => {}
            }
        }
        let tag = format!("n={},k={}:{}", n, k, tag);
        jobs.push(Job { n, ch, tag, prove: rep % 9 == 0 });
    }
    // in chunks, likely-accepted vectors first, so that provers handed back by accepted commits are reused by later cases
    // (a rejected commit drops its prover)
    jobs.sort_by_key(|j| !(j.tag.ends_with(":compatible") || j.tag.contains("max-amounts") || j.tag.contains("accounts-differ") || j.tag.contains("supplied-dummy")));
    let mut obs: Vec<CommitObs> = vec![];
    for chunk in jobs.chunks(8) {
        obs.extend(chunk.par_iter().map(|j| private_commit(&ctx, j.n, &j.ch, j.prove)).collect::<Vec<_>>());
    }
    out.note("c14-private", &format!("commits done; elapsed {:?}", t0.elapsed()));
    // explicit evaluation of the padded batch (supplied order + one random order) whenever it is a vector of valid child
    // proofs that fits: "rejected => indeed unprovable", "accepted => provable in any order"
    struct Ex {
        n: usize,
        padded: Vec<Child>,
        tag: String,
        seed: u64,
    }
    let mut exs: Vec<Ex> = vec![];
    for j in &jobs {
        let k = j.ch.len();
        if k >= 1 && k <= j.n && j.ch.iter().all(|c| c.verifies && c.proof.public_inputs.len() == 21) {
            let mut padded: Vec<Child> = j.ch.clone();
            while padded.len() < j.n {
                padded.push(Child { proof: ctx.template.clone(), verifies: true });
            }
            for round in 0..2 {
                if round == 1 {
                    if j.n == 1 {
                        break;
                    }
                    for i in (1..padded.len()).rev() {
                        let q = rng.below(i as u64 + 1) as usize;
                        padded.swap(i, q);
                    }
                }
                exs.push(Ex { n: j.n, padded: padded.clone(), tag: format!("{}{}", j.tag, if round == 1 { "+shuffled" } else { "" }), seed: rng.next() });
            }
        }
    }
    let sats: Vec<bool> = exs.par_iter().map(|e| explicit_sat(&ctx, e.n, &e.padded.iter().map(|c| c.proof.clone()).collect::<Vec<_>>(), e.seed)).collect();

    let mut n_ok = 0;
    let mut n_proved = 0;
    for (j, o) in jobs.iter().zip(&obs) {
        let segs = commit_segs(j.n, &[], &ctx.template, &j.ch);
        out.case(1401, &j.tag, &segs, &enc_commit(&o.result));
        if let Some(sat) = o.sat {
            n_ok += 1;
            if o.proved.is_some() {
                n_proved += 1;
            }
            out.case(1402, &j.tag, &segs, &[(sat && o.proved.unwrap_or(true)) as i128]);
        }
    }
    for (e, s) in exs.iter().zip(&sats) {
        let segs: Vec<Seg> = e.padded.iter().map(|c| c.seg()[1..].to_vec()).collect();
        out.case(1403, &e.tag, &segs, &[*s as i128]);
    }
    out.note(
        "c14-private",
        &format!(
            "{} commits ({} prover builds), {} accepted (committed witness evaluated on every gate), {} really proved+verified, {} explicit circuit evaluations; elapsed {:?}",
            jobs.len(),
            ctx.builds.load(std::sync::atomic::Ordering::Relaxed),
            n_ok,
            n_proved,
            exs.len(),
            t0.elapsed()
        ),
    );

    // ---- bulk: the compatibility function alone (it reads public inputs only, so one proof shell with rewritten PIs will do)
    let shell = ctx.fl.prove([0; 21]);
    let bulk = if thorough { 30000 } else { 3000 };
    for _ in 0..bulk {
        let k = 1 + rng.below(5) as usize;
        let n = if rng.chance(1, 2) { k } else { k + 1 };
        let (ls, tag) = gen_leaf_batch(rng, k, n, &u);
        let proofs: Vec<Proof> = ls
            .iter()
            .map(|l| {
                let mut p = shell.clone();
                for i in 0..21 {
                    p.public_inputs[i] = F::from_canonical_u64(l[i]);
                }
                p
            })
            .collect();
        let r = verif_ensure_leaf_batch_compatible(&proofs).map_err(|e| format!("{:#}", e));
        let segs: Vec<Seg> = ls.iter().map(|l| seg_u64(l)).collect();
        out.case(1404, tag, &segs, &enc_commit(&r));
    }
    out.note("c14-private", &format!("bulk compatibility cases {}; elapsed {:?}", bulk, t0.elapsed()));
}

// ------------------------------------------------------------------------------------------ public batch
struct InnerStack {
    fl: FakeLeaf,
    cfg: CircuitConfig,
    n_leaf: usize,
    leaf_template: Proof,
    data: CircuitData<F, C, D>,
    targets: PrivateBatchCircuitTargets,
}
impl InnerStack {
    fn new(n_leaf: usize) -> Self {
        let fl = FakeLeaf::new();
        let cfg = no_zk(wormhole_private_batch_circuit_config());
        let leaf_template = fl.prove([0; 21]);
        let c = PrivateBatchCircuit::new(cfg.clone(), &fl.data.common, &fl.data.verifier_only, n_leaf).unwrap();
        let targets = c.targets();
        let data = c.build_circuit();
        InnerStack { fl, cfg, n_leaf, leaf_template, data, targets }
    }
    fn vd(&self) -> VerifierCircuitData<F, C, D> {
        self.data.verifier_data()
    }
    fn pi_len(&self) -> usize {
        21 * self.n_leaf + 8
    }
    /// a genuine private-batch proof through the REAL PrivateBatchProver (commit + prove)
    fn real_inner(&self, leaves: &[Leaf]) -> Result<Proof, String> {
        let proofs: Vec<Proof> = leaves.iter().map(|l| self.fl.prove(*l)).collect();
        PrivateBatchProver::new(self.cfg.clone(), self.fl.data.common.clone(), &self.fl.data.verifier_only, self.n_leaf, self.leaf_template.clone())
            .map_err(|e| format!("{:#}", e))?
            .commit(proofs)
            .map_err(|e| format!("{:#}", e))?
            .prove()
            .map_err(|e| format!("prove after an accepted commit failed: {:#}", e))
    }
    /// the same, reported as a commit case (fid 1401 / 1402) when the real prover refuses or fails: these vectors are
    /// compatible by construction, so the model says Ok
    fn real_inner_or_report(&self, out: &mut Out, tag: &str, leaves: &[Leaf]) -> Option<Proof> {
        match self.real_inner(leaves) {
            Ok(p) => Some(p),
            Err(m) => {
                let ch: Vec<Child> = leaves.iter().map(|l| valid(&self.fl, *l)).collect();
                let segs = commit_segs(self.n_leaf, &[], &self.leaf_template, &ch);
                if m.starts_with("prove after") {
                    out.case(1401, tag, &segs, &[1]);
                    out.case(1402, tag, &segs, &[0]);
                } else {
                    out.case(1401, tag, &segs, &enc_commit(&Err(m)));
                }
                None
            }
        }
    }
    /// an all-dummy private-batch proof, built the way the circuit-build path builds the padding template
    fn all_dummy_inner(&self, dummy_leaf: Leaf, r: &mut Rng) -> Proof {
        let p = self.fl.prove(dummy_leaf);
        let mut pw = PartialWitness::new();
        for pt in &self.targets.leaf_proofs {
            pw.set_proof_with_pis_target(pt, &p).unwrap();
        }
        for pre in &self.targets.dummy_nullifier_pre_images {
            for l in 0..4 {
                pw.set_target(pre[l], F::from_canonical_u64(r.next() % P)).unwrap();
            }
        }
        self.data.prove(pw).expect("all-dummy inner")
    }
}
fn tamper_proof(p: &Proof, at: usize, v: u64) -> Child {
    let mut q = p.clone();
    let verifies = q.public_inputs[at].to_canonical_u64() == v % P;
    q.public_inputs[at] = F::from_noncanonical_u64(v);
    Child { proof: q, verifies }
}
fn relen_proof(p: &Proof, longer: bool) -> Child {
    let mut q = p.clone();
    if longer {
        q.public_inputs.push(F::ZERO);
    } else {
        q.public_inputs.pop();
    }
    Child { proof: q, verifies: false }
}

struct PubCtx {
    inner: InnerStack,
    template: Proof,
    full: HashMap<usize, CircuitData<F, C, D>>,
    targets: HashMap<usize, PublicBatchCircuitTargets>,
    pool: Mutex<HashMap<usize, Vec<PublicBatchProver>>>,
    builds: std::sync::atomic::AtomicUsize,
}
impl PubCtx {
    fn take_prover(&self, m: usize) -> PublicBatchProver {
        if let Some(p) = self.pool.lock().unwrap().entry(m).or_default().pop() {
            return p;
        }
        self.builds.fetch_add(1, std::sync::atomic::Ordering::Relaxed);
        let vd = self.inner.vd();
        PublicBatchProver::new(wormhole_public_batch_circuit_config(), vd.common.clone(), &vd.verifier_only, m, self.inner.n_leaf, self.template.clone()).expect("public prover")
    }
}
fn public_commit(ctx: &PubCtx, m: usize, children: &[Child], really_prove: bool) -> CommitObs {
    let prover = ctx.take_prover(m);
    let proofs: Vec<Proof> = children.iter().map(|c| c.proof.clone()).collect();
    match prover.commit(PublicBatchInputs { proofs, aggregator_address: BytesDigest::default() }) {
        Err(e) => CommitObs { result: Err(format!("{:#}", e)), sat: None, proved: None },
        Ok(committed) => {
            let pw = committed.verif_partial_witness().clone();
            let proved = if really_prove {
                Some(match committed.verif_circuit_data().prove(pw.clone()) {
                    Ok(p) => ctx.full[&m].verify(p).is_ok(),
                    Err(_) => false,
                })
            } else {
                None
            };
            let sat = witness_sat(&ctx.full[&m], pw);
            let p = committed.verif_c15_recycle(ctx.targets[&m].clone());
            ctx.pool.lock().unwrap().entry(m).or_default().push(p);
            CommitObs { result: Ok(()), sat: Some(sat), proved }
        }
    }
}

fn c14_public(out: &mut Out, rng: &mut Rng, thorough: bool, t0: std::time::Instant) {
    let inner = InnerStack::new(1);
    let bh1 = [9u64, 0, 0, 0];
    let bh2 = [8u64, 1, 0, 0];
    let acct = [5u64, 6, 7, 8];
    let mk = |asset: u64, fee: u64, bh: [u64; 4], null: u64| leaf(asset, 100, 0, fee, [null, 0, 0, 0], acct, [0; 4], bh, 3);
    // genuine inner proofs through the real private-batch prover (n = 1, so a non-native asset needs no padding)
    let specs: Vec<(&str, Leaf)> = vec![("A", mk(0, 10, bh1, 1)), ("A2", mk(0, 10, bh1, 2)), ("B-other-block", mk(0, 10, bh2, 3)), ("C-other-asset", mk(7, 10, bh1, 4)), ("D-other-fee", mk(0, 11, bh1, 5)), ("E-block-limb3-only", mk(0, 10, [9, 0, 0, 1], 6))];
    let made: Vec<Result<Proof, String>> = specs.par_iter().map(|(_, l)| inner.real_inner(&[*l])).collect();
    if made.iter().any(|r| r.is_err()) {
        // the real private-batch prover refused (or failed to prove) a single compatible real leaf: report it as what it is
        for (tag, l) in &specs {
            let _ = inner.real_inner_or_report(out, &format!("inner-proof-for-public-batch:{}", tag), &[*l]);
        }
        out.note("c14-public", "skipped: the real PrivateBatchProver did not produce the inner proofs (reported as commit cases)");
        return;
    }
    let reals: Vec<Proof> = made.into_iter().map(|r| r.unwrap()).collect();
    let template = inner.all_dummy_inner([0; 21], rng);
    // an all-dummy inner proof whose (ignored) header carries another asset: exempt from every comparison
    let mut dl = [0u64; 21];
    dl[0] = 5;
    dl[3] = 99;
    let odd_dummy = inner.all_dummy_inner(dl, rng);
    let sizes: Vec<usize> = if thorough { vec![1, 2, 3] } else { vec![2] };
    let vd = inner.vd();
    let mut full = HashMap::new();
    let mut targets = HashMap::new();
    for &m in &sizes {
        let c = PublicBatchCircuit::new(wormhole_public_batch_circuit_config(), vd.common.clone(), &vd.verifier_only, m, inner.n_leaf).unwrap();
        targets.insert(m, c.targets());
        full.insert(m, c.build_circuit());
    }
    let pi_len = inner.pi_len();
    let ctx = PubCtx { inner, template: template.clone(), full, targets, pool: Mutex::new(HashMap::new()), builds: Default::default() };
    out.note("c14-public", &format!("inner proofs (real PrivateBatchProver over the fake leaf, n=1) and public circuits {:?} ready after {:?}", sizes, t0.elapsed()));

    let ok = |p: &Proof| Child { proof: p.clone(), verifies: true };
    let a = ok(&reals[0]);
    let a2 = ok(&reals[1]);
    let b = ok(&reals[2]);
    let c = ok(&reals[3]);
    let d = ok(&reals[4]);
    let e = ok(&reals[5]);
    let t = ok(&template);
    let t2 = ok(&odd_dummy);
    // the catalogue every vector is drawn from
    let mut catalogue: Vec<(String, Child)> = vec![
        ("A".into(), a.clone()),
        ("A2".into(), a2.clone()),
        ("B".into(), b.clone()),
        ("C".into(), c.clone()),
        ("D".into(), d.clone()),
        ("T".into(), t.clone()),
        ("T'".into(), t2.clone()),
    ];
    for (at, v) in [(1usize, 9u64), (2, 12), (3, 1), (6, 1), (8, 5), (9, 1), (18, 3), (28, 1)] {
        catalogue.push((format!("A~{}", at), tamper_proof(&reals[0], at, v)));
    }
    catalogue.push(("T~3".into(), tamper_proof(&template, 3, 1)));
    catalogue.push(("A-short".into(), relen_proof(&reals[0], false)));
    catalogue.push(("A-long".into(), relen_proof(&reals[0], true)));

    // ---- commits through the real PublicBatchProver
    let mut vectors: Vec<(String, Vec<Child>)> = vec![
        ("one-real".into(), vec![a.clone()]),
        ("two-real".into(), vec![a.clone(), a2.clone()]),
        ("blocks-differ".into(), vec![a.clone(), b.clone()]),
        ("blocks-differ-in-limb3-only".into(), vec![a.clone(), e.clone()]),
        ("assets-differ".into(), vec![a.clone(), c.clone()]),
        ("fees-differ".into(), vec![a.clone(), d.clone()]),
        ("only-template".into(), vec![t.clone()]),
        ("tampered".into(), vec![tamper_proof(&reals[0], 1, 9)]),
        ("pi-len".into(), vec![relen_proof(&reals[0], false)]),
        ("odd-dummy-then-real".into(), vec![t2.clone(), a.clone()]),
        ("incompatible-and-tampered".into(), vec![b.clone(), tamper_proof(&reals[3], 2, 1)]),
    ];
    if thorough {
        vectors.push(("empty".into(), vec![]));
        vectors.push(("too-many".into(), vec![a.clone(), a2.clone(), a.clone(), a2.clone()]));
        vectors.push(("real-then-template".into(), vec![a.clone(), t.clone()]));
        vectors.push(("same-proof-twice".into(), vec![a.clone(), a.clone()]));
    }
    let extra = if thorough { 20 } else { 1 };
    for _ in 0..extra {
        let k = rng.below(4) as usize;
        let v: Vec<(String, Child)> = (0..k).map(|_| rng.pick(&catalogue).clone()).collect();
        vectors.push((format!("random[{}]", v.iter().map(|x| x.0.as_str()).collect::<Vec<_>>().join(",")), v.into_iter().map(|x| x.1).collect()));
    }
    let mut jobs: Vec<(usize, String, Vec<Child>, bool)> = vec![];
    for &m in &sizes {
        for (i, (tag, v)) in vectors.iter().enumerate() {
            jobs.push((m, tag.clone(), v.clone(), i < 1));
        }
    }
    jobs.sort_by_key(|(_, tag, _, _)| !(tag == "one-real" || tag == "two-real" || tag == "odd-dummy-then-real" || tag == "real-then-template" || tag == "same-proof-twice"));
    let mut obs: Vec<CommitObs> = vec![];
    for chunk in jobs.chunks(4) {
        obs.extend(chunk.par_iter().map(|(m, _, v, pr)| public_commit(&ctx, *m, v, *pr)).collect::<Vec<_>>());
    }
    let mut n_ok = 0;
    for ((m, tag, v, _), o) in jobs.iter().zip(&obs) {
        let segs = commit_segs(*m, &[pi_len as i128], &ctx.template, v);
        out.case(1411, tag, &segs, &enc_commit(&o.result));
        if let Some(sat) = o.sat {
            n_ok += 1;
            out.case(1412, tag, &segs, &[(sat && o.proved.unwrap_or(true)) as i128]);
        }
    }
    out.note("c14-public", &format!("{} commits ({} prover builds), {} accepted; elapsed {:?}", jobs.len(), ctx.builds.load(std::sync::atomic::Ordering::Relaxed), n_ok, t0.elapsed()));

    // ---- bulk: the preflight function itself (what ProvingContext::prove_batch runs before building the prover)
    let vd = ctx.inner.vd();
    let bulk = if thorough { 2500 } else { 260 };
    let cases: Vec<(usize, String, Vec<Child>)> = (0..bulk)
        .map(|_| {
            let m = 1 + rng.below(3) as usize;
            let k = match rng.below(8) {
                0 => 0,
                1 => m + 1,
                _ => 1 + rng.below(m as u64) as usize,
            };
            let v: Vec<(String, Child)> = (0..k)
                .map(|_| if rng.chance(3, 4) { catalogue[rng.below(7) as usize].clone() } else { rng.pick(&catalogue).clone() })
                .collect();
            (m, format!("k={}/m={}", k, m), v.into_iter().map(|x| x.1).collect())
        })
        .collect();
    let res: Vec<Result<(), String>> = cases
        .par_iter()
        .map(|(m, _, v)| {
            let proofs: Vec<Proof> = v.iter().map(|c| c.proof.clone()).collect();
            verif_c21_preflight_private_batch_proofs(&proofs, *m, &vd).map_err(|e| format!("{:#}", e))
        })
        .collect();
    for ((m, tag, v), r) in cases.iter().zip(&res) {
        out.case(1414, tag, &commit_segs(*m, &[pi_len as i128], &ctx.template, v), &enc_commit(r));
    }
    out.note("c14-public", &format!("bulk preflight cases {}; elapsed {:?}", bulk, t0.elapsed()));
}

// ------------------------------------------------------------------------------------------ C16: templates
// entry points (segment 0 of fids 1601 / 1602)
const E_DIRECT: i128 = 1; // the validator function itself (cfg-gated forwarder)
const E_PRIV_NEW: i128 = 2; // PrivateBatchProver::new
const E_PRIV_BYTES: i128 = 3; // PrivateBatchProver::new_from_bytes        (canonical leaf)
const E_PRIV_FILES: i128 = 4; // PrivateBatchProver::new_from_files        (canonical leaf)
const E_PRIV_DIR: i128 = 5; // PrivateBatchProver::new_from_binaries_dir (canonical leaf)
const E_BUILD: i128 = 6; // generate_private_batch_circuit_binaries(dir, n, true)
const E_PUB_NEW: i128 = 7; // PublicBatchProver::new
const E_PUB_BYTES: i128 = 8; // PublicBatchProver::new_from_bytes         (canonical stack)
const E_PUB_FILES: i128 = 9; // PublicBatchProver::new_from_files
const E_PUB_DIR: i128 = 10; // PublicBatchProver::new_from_binaries_dir
const E_AGG: i128 = 11; // PublicBatchAggregator::with_limits / ::new

fn template_segs(entry: i128, c: &Child) -> Vec<Seg> {
    vec![vec![entry], c.seg()]
}
/// at an entry point only the class accept / reject-with-attribution is compared: the wrappers add context but keep the
/// validator's message in the chain
fn run_template_entry(out: &mut Out, fid: u32, entry: i128, tag: &str, c: &Child, r: Result<(), String>) {
    out.case(fid, tag, &template_segs(entry, c), &enc_template(&r));
}

fn leaf_template_variants(fl: &FakeLeaf, rng: &mut Rng, thorough: bool) -> Vec<(String, Child)> {
    let mut good = [0u64; 21];
    good[3] = 10;
    good[4] = 77;
    good[20] = 5;
    let mut v: Vec<(String, Child)> = vec![("good".into(), valid(fl, good)), ("all-zero".into(), valid(fl, [0; 21]))];
    // every single position deviating, with a VALID proof of the deviating statement
    for i in 0..21 {
        let vals: Vec<u64> = if (1..=3).contains(&i) { vec![1, (1 << 32) - 1] } else { vec![1, P - 1, 1 << 32] };
        for (q, val) in vals.iter().enumerate() {
            if q > 0 && !thorough && !rng.chance(1, 3) {
                continue;
            }
            let mut l = good;
            l[i] = *val;
            v.push((format!("valid-deviation@{}", i), valid(fl, l)));
        }
    }
    // pairs
    let pairs = if thorough { 120 } else { 24 };
    for _ in 0..pairs {
        let i = rng.below(21) as usize;
        let j = rng.below(21) as usize;
        let mut l = good;
        l[i] = 1;
        l[j] = if (1..=3).contains(&j) { 2 } else { *rng.pick(&[2u64, P - 1]) };
        v.push((format!("valid-deviation@{}+{}", i.min(j), i.max(j)), valid(fl, l)));
    }
    // deviations that CANCEL under a cheaper test (u32 sums wrapping to 0, limb sums that are 0 mod p, xor-equal values): a
    // validator that checks "a + b == 0" or "sum of limbs == 0" instead of each field would accept these
    let mut cancelling: Vec<Vec<(usize, u64)>> = vec![
        vec![(1, 1 << 31), (2, 1 << 31)],
        vec![(1, 1), (2, (1 << 32) - 1)],
        vec![(1, (1 << 32) - 1), (2, 1)],
        vec![(1, 7), (2, 7)],
        vec![(0, 1), (1, (1 << 32) - 1)],
        vec![(0, (1 << 32) - 1), (2, 1)],
        vec![(8, 1), (12, P - 1)],
        vec![(8, 5), (12, 5)],
    ];
    for base in [8usize, 12, 16] {
        for _ in 0..2 {
            let i = rng.below(4) as usize;
            let j = (i + 1 + rng.below(3) as usize) % 4;
            let k = 1 + rng.below(5);
            cancelling.push(vec![(base + i, k), (base + j, P - k)]);
        }
        cancelling.push(vec![(base, 1), (base + 1, 1), (base + 2, P - 1), (base + 3, P - 1)]);
    }
    for devs in cancelling {
        let mut l = good;
        let mut name = String::from("valid-cancelling");
        for (i, val) in &devs {
            l[*i] = *val;
            name.push_str(&format!("@{}", i));
        }
        v.push((name, valid(fl, l)));
    }
    // invalid proofs: tampered after proving, at inspected and uninspected positions; values outside what the fake leaf can prove
    for i in 0..21 {
        v.push((format!("tampered@{}", i), tampered(fl, good, i, good[i] ^ 1)));
    }
    for i in [0usize, 1, 2, 3, 20] {
        v.push((format!("tampered-not-u32@{}", i), tampered(fl, good, i, 1 << 32)));
    }
    v.push(("short".into(), wrong_len(fl, good, false)));
    v.push(("long".into(), wrong_len(fl, good, true)));
    v
}

fn c16_leaf(out: &mut Out, rng: &mut Rng, thorough: bool, t0: std::time::Instant) {
    let fl = FakeLeaf::new();
    let vd = fl.vd();
    let variants = leaf_template_variants(&fl, rng, thorough);
    // (1) the validator itself
    for (tag, c) in &variants {
        let r = verif_verify_dummy_leaf_template(&c.proof, &vd).map_err(|e| format!("{:#}", e));
        run_template_entry(out, 1601, E_DIRECT, tag, c, r);
    }
    // (2) the direct constructor: every single-position class + a sample of the rest
    let cfg = no_zk(wormhole_private_batch_circuit_config());
    let mut seen_tags: std::collections::HashSet<String> = Default::default();
    let wanted: Vec<String> = ["good", "all-zero", "short", "tampered@4", "tampered@16"]
        .iter()
        .map(|s| s.to_string())
        .chain([0usize, 1, 2, 3, 4, 8, 11, 12, 15, 16, 19, 20].iter().map(|i| format!("valid-deviation@{}", i)))
        .collect();
    let picked: Vec<&(String, Child)> = variants
        .iter()
        .enumerate()
        .filter(|(i, (tag, _))| thorough || (wanted.contains(tag) && seen_tags.insert(tag.clone())) || (tag.contains('+') && i % 12 == 0))
        .map(|(_, x)| x)
        .collect();
    let res: Vec<Result<(), String>> = picked
        .par_iter()
        .map(|(_, c)| PrivateBatchProver::new(cfg.clone(), fl.data.common.clone(), &fl.data.verifier_only, 1, c.proof.clone()).map(|_| ()).map_err(|e| format!("{:#}", e)))
        .collect();
    for ((tag, c), r) in picked.iter().zip(res) {
        run_template_entry(out, 1601, E_PRIV_NEW, tag, c, r);
    }
    out.note("c16-leaf", &format!("{} templates at the validator, {} at PrivateBatchProver::new (fake leaf); elapsed {:?}", variants.len(), picked.len(), t0.elapsed()));
}

/// real leaf proofs against the CANONICAL leaf circuit
fn canonical_leaf_templates(thorough: bool) -> Vec<(String, Child)> {
    use test_helpers::TestInputs as _;
    use wormhole_circuit::block_header::header::HeaderInputs;
    use wormhole_circuit::inputs::CircuitInputs;
    let prove = |i: &CircuitInputs| wormhole_prover::build_fresh().commit(i).and_then(|p| p.prove());
    let mut v: Vec<(String, Child)> = vec![];
    let dummy = prove(&wormhole_aggregator::build_dummy_circuit_inputs().unwrap()).expect("canonical dummy");
    v.push(("canonical-dummy".into(), Child { proof: dummy.clone(), verifies: true }));
    // valid dummy statements deviating in one inspected field
    let marked = prove(&CircuitInputs::test_inputs_0()).expect("test_inputs_0");
    v.push(("valid-dummy-with-exit-account".into(), Child { proof: marked, verifies: true }));
    let mut i2 = wormhole_aggregator::build_dummy_circuit_inputs().unwrap();
    i2.public.asset_id = 7;
    if let Ok(p) = prove(&i2) {
        v.push(("valid-dummy-with-asset-7".into(), Child { proof: p, verifies: true }));
    }
    // a real statement (non-zero block hash)
    let mut real = CircuitInputs::test_inputs_0();
    real.public.block_hash = HeaderInputs::try_from(&real).expect("header").block_hash();
    if let Ok(p) = prove(&real) {
        v.push(("valid-real-statement".into(), Child { proof: p, verifies: true }));
    }
    // uninspected field differs (fee): still a fine template
    let mut i3 = wormhole_aggregator::build_dummy_circuit_inputs().unwrap();
    i3.public.volume_fee_bps = 11;
    if let Ok(p) = prove(&i3) {
        v.push(("valid-dummy-other-fee".into(), Child { proof: p, verifies: true }));
    }
    // invalid proofs
    v.push(("tampered-nullifier".into(), tamper_proof(&dummy, 4, 0xdead_beef)));
    v.push(("tampered-output".into(), tamper_proof(&dummy, 1, 7)));
    if thorough {
        for i in [0usize, 2, 8, 15, 16, 19] {
            v.push((format!("tampered@{}", i), tamper_proof(&dummy, i, 1)));
        }
    }
    v
}

fn write_leaf_artifacts(dir: &std::path::Path, dummy_bytes: &[u8]) {
    use plonky2::util::serialization::DefaultGateSerializer;
    let leaf = wormhole_aggregator::common::utils::canonical_leaf_verifier_data();
    std::fs::create_dir_all(dir).unwrap();
    std::fs::write(dir.join("common.bin"), leaf.common.to_bytes(&DefaultGateSerializer).unwrap()).unwrap();
    std::fs::write(dir.join("verifier.bin"), leaf.verifier_only.to_bytes().unwrap()).unwrap();
    std::fs::write(dir.join("dummy_proof.bin"), dummy_bytes).unwrap();
}
fn tmp_dir(tag: &str) -> std::path::PathBuf {
    let d = std::env::temp_dir().join(format!("verif-provers-{}-{}", std::process::id(), tag));
    let _ = std::fs::remove_dir_all(&d);
    std::fs::create_dir_all(&d).unwrap();
    d
}

/// the artifact generators print progress lines to stdout: while they run, fd 1 points to stderr
struct StdoutToStderr(i32);
impl StdoutToStderr {
    fn new() -> Self {
        use std::io::Write as _;
        std::io::stdout().flush().unwrap();
        unsafe {
            let saved = libc::dup(1);
            libc::dup2(2, 1);
            StdoutToStderr(saved)
        }
    }
}
impl Drop for StdoutToStderr {
    fn drop(&mut self) {
        use std::io::Write as _;
        let _ = std::io::stdout().flush();
        unsafe {
            libc::dup2(self.0, 1);
            libc::close(self.0);
        }
    }
}

fn c16_canonical(out: &mut Out, thorough: bool, t0: std::time::Instant) {
    use wormhole_aggregator::private_batch::circuit::build::generate_private_batch_circuit_binaries;
    let templates = canonical_leaf_templates(thorough);
    out.note("c16-canonical", &format!("{} real leaf proofs against the canonical leaf circuit; elapsed {:?}", templates.len(), t0.elapsed()));
    let leaf_vd = wormhole_aggregator::common::utils::canonical_leaf_verifier_data();
    // the model's `verifies` bit is what the canonical verifier says
    for (tag, c) in &templates {
        assert_eq!(leaf_vd.verify(c.proof.clone()).is_ok(), c.verifies, "canonical template {} verifies flag", tag);
    }
    // build step: validates BEFORE the expensive circuit build, so rejections are cheap; one accepted run in quick
    let jobs: Vec<(i128, usize)> = {
        let mut j: Vec<(i128, usize)> = (0..templates.len()).filter(|&i| thorough || i != 4).map(|i| (E_BUILD, i)).collect();
        // loaders: the circuit is rebuilt before the template is looked at (~seconds each): a few in quick, all in thorough
        if thorough {
            for i in 0..templates.len() {
                j.push((E_PRIV_BYTES, i));
            }
            j.push((E_PRIV_FILES, 0));
            j.push((E_PRIV_FILES, 1));
            j.push((E_PRIV_FILES, 3));
            j.push((E_PRIV_DIR, 0));
            j.push((E_PRIV_DIR, 1));
            j.push((E_PRIV_DIR, 5));
        } else {
            j.push((E_PRIV_BYTES, 1));
            j.push((E_PRIV_FILES, 3.min(templates.len() - 1)));
            j.push((E_PRIV_DIR, 5.min(templates.len() - 1)));
        }
        j
    };
    out.flush();
    let quiet = StdoutToStderr::new();
    let res: Vec<Result<(), String>> = jobs
        .par_iter()
        .enumerate()
        .map(|(q, (entry, i))| {
            use plonky2::util::serialization::DefaultGateSerializer;
            let c = &templates[*i].1;
            let bytes = c.proof.to_bytes();
            let e = |r: anyhow::Result<()>| r.map_err(|e| format!("{:#}", e));
            match *entry {
                E_BUILD => {
                    let d = tmp_dir(&format!("build-{}", q));
                    write_leaf_artifacts(&d, &bytes);
                    let r = e(generate_private_batch_circuit_binaries(&d, 1, true));
                    // a rejected template must not publish anything
                    let published = d.join("dummy_private_batch_proof.bin").exists() || d.join("private_batch_common.bin").exists();
                    let _ = std::fs::remove_dir_all(&d);
                    match (&r, published) {
                        (Err(_), true) => Err("PUBLISHED-DESPITE-REJECTION".to_string()),
                        _ => r,
                    }
                }
                E_PRIV_BYTES => {
                    let leaf = wormhole_aggregator::common::utils::canonical_leaf_verifier_data();
                    e(PrivateBatchProver::new_from_bytes(&leaf.common.to_bytes(&DefaultGateSerializer).unwrap(), &leaf.verifier_only.to_bytes().unwrap(), &bytes, 1).map(|_| ()))
                }
                E_PRIV_FILES => {
                    let d = tmp_dir(&format!("files-{}", q));
                    write_leaf_artifacts(&d, &bytes);
                    let r = e(PrivateBatchProver::new_from_files(&d.join("common.bin"), &d.join("verifier.bin"), &d.join("dummy_proof.bin"), 1).map(|_| ()));
                    let _ = std::fs::remove_dir_all(&d);
                    r
                }
                _ => {
                    let d = tmp_dir(&format!("dir-{}", q));
                    write_leaf_artifacts(&d, &bytes);
                    wormhole_aggregator::config::CircuitBinsConfig::new(1, None).unwrap().save(&d).unwrap();
                    let r = e(PrivateBatchProver::new_from_binaries_dir(&d).map(|_| ()));
                    let _ = std::fs::remove_dir_all(&d);
                    r
                }
            }
        })
        .collect();
    drop(quiet);
    for ((entry, i), r) in jobs.iter().zip(res) {
        let (tag, c) = &templates[*i];
        run_template_entry(out, 1601, *entry, tag, c, r);
    }
    out.note("c16-canonical", &format!("{} canonical-pinned entry-point runs (build step, new_from_bytes/files/binaries_dir); elapsed {:?}", jobs.len(), t0.elapsed()));

    if thorough {
        // the public-batch loaders and aggregator init need the whole canonical artifact set (n = 1, m = 1)
        out.flush();
        let quiet = StdoutToStderr::new();
        let base = tmp_dir("all");
        circuit_builder::generate_all_circuit_binaries(&base, true, 1, Some(1)).expect("canonical artifact set");
        let leaf = wormhole_aggregator::common::utils::canonical_leaf_verifier_data();
        let pb_vd = wormhole_aggregator::common::utils::canonical_private_batch_verifier_data(&leaf, 1).unwrap();
        let good = Proof::from_bytes(std::fs::read(base.join("dummy_private_batch_proof.bin")).unwrap(), &pb_vd.common).unwrap();
        // a genuine real private-batch proof through the canonical prover
        use test_helpers::TestInputs as _;
        use wormhole_circuit::block_header::header::HeaderInputs;
        use wormhole_circuit::inputs::CircuitInputs;
        let mut real = CircuitInputs::test_inputs_0();
        real.public.block_hash = HeaderInputs::try_from(&real).expect("header").block_hash();
        let real_leaf = wormhole_prover::build_fresh().commit(&real).unwrap().prove().unwrap();
        let real_inner = PrivateBatchProver::new_from_binaries_dir(&base).unwrap().commit(vec![real_leaf]).unwrap().prove().unwrap();
        let mut tpls: Vec<(String, Child)> = vec![("canonical-all-dummy".into(), Child { proof: good.clone(), verifies: true }), ("valid-real-inner".into(), Child { proof: real_inner, verifies: true })];
        for (at, v) in [(3usize, 1u64), (8, 1), (9, 1), (1, 9), (20, 1), (0, 3)] {
            tpls.push((format!("tampered@{}", at), tamper_proof(&good, at, v)));
        }
        for (tag, c) in &tpls {
            assert_eq!(pb_vd.verify(c.proof.clone()).is_ok(), c.verifies, "canonical inner template {} verifies flag", tag);
        }
        let entries = [E_PUB_BYTES, E_PUB_FILES, E_PUB_DIR, E_AGG];
        let jobs: Vec<(i128, usize)> = entries.iter().flat_map(|e| (0..tpls.len()).map(move |i| (*e, i))).collect();
        let res: Vec<Result<(), String>> = jobs
            .par_iter()
            .enumerate()
            .map(|(q, (entry, i))| {
                let d = tmp_dir(&format!("pub-{}", q));
                for f in std::fs::read_dir(&base).unwrap() {
                    let f = f.unwrap();
                    std::fs::copy(f.path(), d.join(f.file_name())).unwrap();
                }
                std::fs::write(d.join("dummy_private_batch_proof.bin"), tpls[*i].1.proof.to_bytes()).unwrap();
                let e = |r: anyhow::Result<()>| r.map_err(|e| format!("{:#}", e));
                let r = match *entry {
                    E_PUB_BYTES => e(PublicBatchProver::new_from_bytes(&std::fs::read(d.join("private_batch_common.bin")).unwrap(), &std::fs::read(d.join("private_batch_verifier.bin")).unwrap(), &std::fs::read(d.join("dummy_private_batch_proof.bin")).unwrap(), (1, 1)).map(|_| ())),
                    E_PUB_FILES => e(PublicBatchProver::new_from_files(&d.join("private_batch_common.bin"), &d.join("private_batch_verifier.bin"), &d.join("dummy_private_batch_proof.bin"), (1, 1)).map(|_| ())),
                    E_PUB_DIR => e(PublicBatchProver::new_from_binaries_dir(&d).map(|_| ())),
                    _ => e(wormhole_aggregator::aggregator::PublicBatchAggregator::new(&d, BytesDigest::default()).map(|_| ())),
                };
                let _ = std::fs::remove_dir_all(&d);
                r
            })
            .collect();
        drop(quiet);
        for ((entry, i), r) in jobs.iter().zip(res) {
            let (tag, c) = &tpls[*i];
            run_template_entry(out, 1602, *entry, tag, c, r);
        }
        let _ = std::fs::remove_dir_all(&base);
        out.note("c16-canonical", &format!("{} canonical public-batch loader / aggregator-init runs; elapsed {:?}", jobs.len(), t0.elapsed()));
    }
}

fn c16_private_batch_templates(out: &mut Out, rng: &mut Rng, thorough: bool, t0: std::time::Instant) {
    let mut n_direct = 0;
    let mut n_ctor = 0;
    for n_leaf in if thorough { vec![1usize, 2, 3] } else { vec![1usize, 2] } {
        let inner = InnerStack::new(n_leaf);
        let vd = inner.vd();
        let len = inner.pi_len();
        let good = inner.all_dummy_inner([0; 21], rng);
        let mut dl = [0u64; 21];
        dl[0] = 5;
        dl[3] = 99;
        dl[8] = 4; // a dummy leaf with an exit account: masked by the circuit, so the inner proof is still a clean template
        let odd = inner.all_dummy_inner(dl, rng);
        let mut rl = vec![leaf(0, 100, 3, 10, [1, 0, 0, 0], [5, 6, 7, 8], [1, 1, 1, 1], [9, 0, 0, 0], 3)];
        for q in 1..n_leaf {
            rl.push(leaf(0, 1, 0, 10, [1 + q as u64, 0, 0, 0], [5, 6, 7, 8], [0; 4], [9, 0, 0, 0], 3));
        }
        let real = inner.real_inner(&rl);
        let mut v: Vec<(String, Child)> = vec![
            ("all-dummy".into(), Child { proof: good.clone(), verifies: true }),
            ("all-dummy-other-asset".into(), Child { proof: odd, verifies: true }),
        ];
        if let Ok(real) = &real {
            v.push(("valid-real-batch".into(), Child { proof: real.clone(), verifies: true }));
        } else {
            out.note("c16-private-batch", "no valid real batch proof available (the private-batch prover refused a compatible vector; see C14)");
        }
        v.extend(vec![
            ("short".into(), relen_proof(&good, false)),
            ("long".into(), relen_proof(&good, true)),
            ("leaf-proof-as-template".into(), Child { proof: inner.fl.prove([0; 21]), verifies: false }),
        ]);
        // every single position deviating (the proof then no longer verifies; the sentinel is checked first, so the class
        // still tells which condition fired)
        for i in 0..len {
            v.push((format!("tampered@{}{}", if i < 8 { "header" } else if i < 8 + 10 * n_leaf { "slots" } else if i < 8 + 14 * n_leaf { "nullifiers" } else { "padding" }, ""), tamper_proof(&good, i, 1)));
            if thorough || rng.chance(1, 4) {
                v.push(("tampered-not-u32".into(), tamper_proof(&good, i, 1 << 32)));
            }
        }
        // cancelling tampering inside the inspected regions (block hash limbs summing to 0 mod p; slot sums wrapping in u32;
        // slot account limbs cancelling)
        {
            let mut canc: Vec<Vec<(usize, u64)>> = vec![vec![(3, 1), (4, P - 1)], vec![(5, 2), (6, P - 2)], vec![(3, 1), (6, P - 1)]];
            if n_leaf >= 1 {
                canc.push(vec![(8, 1 << 31), (13, 1 << 31)]);
                canc.push(vec![(8, 1), (13, (1 << 32) - 1)]);
                canc.push(vec![(9, 1), (10, P - 1)]);
                canc.push(vec![(9, 3), (14, P - 3)]);
            }
            for devs in canc {
                let (i0, v0) = devs[0];
                let mut c = tamper_proof(&good, i0, v0);
                for (i, val) in devs.iter().skip(1) {
                    if *i < len {
                        c.proof.public_inputs[*i] = F::from_noncanonical_u64(*val);
                    }
                }
                c.verifies = false;
                v.push(("tampered-cancelling".into(), c));
            }
        }
        let pairs = if thorough { 80 } else { 12 };
        for _ in 0..pairs {
            let i = rng.below(len as u64) as usize;
            let j = rng.below(len as u64) as usize;
            let mut c = tamper_proof(&good, i, 1);
            c.proof.public_inputs[j] = F::from_canonical_u64(2);
            c.verifies = false;
            v.push(("tampered-pair".into(), c));
        }
        // a real batch proof with its block hash zeroed afterwards: sentinel-clean header, live exit slots
        if let Ok(real) = &real {
            let mut z = real.clone();
            for i in 3..7 {
                z.public_inputs[i] = F::ZERO;
            }
            v.push(("real-batch-with-zeroed-block-hash".into(), Child { proof: z, verifies: false }));
        }
        for (tag, c) in &v {
            let r = verif_verify_dummy_private_batch_template(&c.proof, &vd).map_err(|e| format!("{:#}", e));
            run_template_entry(out, 1602, E_DIRECT, &format!("n={}:{}", n_leaf, tag), c, r);
            n_direct += 1;
        }
        // the direct constructor
        let picked: Vec<&(String, Child)> = v.iter().enumerate().filter(|(i, (tag, _))| !tag.starts_with("tampered") || (thorough && i % 3 == 0) || (!thorough && n_leaf == 1 && i % 9 == 0)).map(|(_, x)| x).collect();
        let res: Vec<Result<(), String>> = picked
            .par_iter()
            .map(|(_, c)| PublicBatchProver::new(wormhole_public_batch_circuit_config(), vd.common.clone(), &vd.verifier_only, 1, n_leaf, c.proof.clone()).map(|_| ()).map_err(|e| format!("{:#}", e)))
            .collect();
        for ((tag, c), r) in picked.iter().zip(res) {
            run_template_entry(out, 1602, E_PUB_NEW, &format!("n={}:{}", n_leaf, tag), c, r);
            n_ctor += 1;
        }
    }
    out.note("c16-private-batch", &format!("{} templates at the validator, {} at PublicBatchProver::new (private-batch proofs over the fake leaf); elapsed {:?}", n_direct, n_ctor, t0.elapsed()));
}

fn main() {
    quiet_panics();
    let seed = seed_from_env();
    let mut rng = Rng::new(seed);
    let thorough = tier_is_thorough();
    let mut out = Out::new();
    let which: Vec<String> = std::env::args().skip(1).collect();
    let want = |s: &str| which.is_empty() || which.iter().any(|w| w == s);
    let t0 = std::time::Instant::now();
    if want("c14") || want("c14priv") {
        c14_private(&mut out, &mut rng.fork(), thorough, t0);
    }
    if want("c14") || want("c14pub") {
        c14_public(&mut out, &mut rng.fork(), thorough, t0);
    }
    if want("c16") || want("c16leaf") {
        c16_leaf(&mut out, &mut rng.fork(), thorough, t0);
    }
    if want("c16") || want("c16pb") {
        c16_private_batch_templates(&mut out, &mut rng.fork(), thorough, t0);
    }
    if want("c16") || want("c16canon") {
        c16_canonical(&mut out, thorough, t0);
    }
    out.flush();
}
