//! C14 / C16: the REAL batch provers (`PrivateBatchProver`, `PublicBatchProver`), their commit
//! preflights and their padding-template validators, over the fake 21-PI leaf circuit stack the repo's
//! own unit tests use (plus, for the canonical-pinned loaders, real leaf proofs).
//! Model side: coq/Sys/Preflight.v (`dispatch`).
//!
//! fids
//!   1401  PrivateBatchProver::commit           segs [n]; template pis; [verifies, pis..]*   -> [1] | [0, kind]
//!   1402  on commit Ok: every gate constraint of the real circuit on the COMMITTED witness   -> [sat]
//!   1403  the real private-batch circuit on an explicitly ordered padded batch (no commit)   -> [sat]
//!   1404  ensure_leaf_batch_compatible (cfg-gated forwarder), bulk                           -> [1] | [0, kind]
//!   1411  PublicBatchProver::commit            segs [m, inner_pi_len]; template pis; [verifies, pis..]* -> [1] | [0, kind]
//!   1412  on commit Ok: gate constraints of the real public-batch circuit on the committed witness -> [sat]
//!   1414  preflight_private_batch_proofs (what ProvingContext::prove_batch calls first), bulk -> [1] | [0, kind]
//!   1601  leaf padding template at an entry point   segs [entry]; [verifies, pis..]         -> [1] | [0, kind] (kind 0 = unattributed)
//!   1602  private-batch padding template at an entry point  segs [entry]; [verifies, pis..] -> [1] | [0, kind]
use plonky2::field::types::{Field, PrimeField64};
use plonky2::iop::target::Target;
use plonky2::iop::witness::{PartialWitness, WitnessWrite};
use plonky2::plonk::circuit_data::{CircuitConfig, CircuitData, VerifierCircuitData};
use plonky2::plonk::proof::ProofWithPublicInputs;
use rayon::prelude::*;
use std::collections::HashMap;
use std::sync::Mutex;
use test_helpers::fake_leaf::{build_fake_leaf_circuit, prove_fake_leaf};
use verif_harness::plonk::*;
use verif_harness::*;
use wormhole_aggregator::private_batch::circuit::circuit_logic::PrivateBatchCircuit;
use wormhole_aggregator::private_batch::prover::lib::{verif_ensure_leaf_batch_compatible, verif_verify_dummy_leaf_template};
use wormhole_aggregator::private_batch::prover::PrivateBatchProver;
use wormhole_aggregator::public_batch::circuit::circuit_logic::PublicBatchCircuit;
use wormhole_aggregator::public_batch::prover::lib::{verif_c21_preflight_private_batch_proofs, verif_verify_dummy_private_batch_template};
use wormhole_aggregator::public_batch::prover::{PublicBatchInputs, PublicBatchProver};
use zk_circuits_common::circuit::{wormhole_private_batch_circuit_config, wormhole_public_batch_circuit_config};
use zk_circuits_common::utils::BytesDigest;

type Proof = ProofWithPublicInputs<F, C, D>;
type Leaf = [u64; 21];

// ------------------------------------------------------------------------------------------ error classes
// stable substrings of the error chain -> class.  Never compared as text.
const K_EMPTY: i128 = 1;
const K_TOO_MANY: i128 = 2;
const K_PI_LEN: i128 = 3;
const K_INVALID: i128 = 4;
const K_PAD_ASSET: i128 = 5;
const K_ASSET: i128 = 6;
const K_BLOCK: i128 = 7;
const K_FEE: i128 = 8;
const K_DUP_NULL: i128 = 9;
const K_ALL_DUMMY: i128 = 10;
const K_SUM: i128 = 11;
const K_OTHER: i128 = 99;

fn commit_kind(msg: &str) -> i128 {
    const T: [(&str, i128); 16] = [
        ("no leaf proofs to aggregate", K_EMPTY),
        ("no private-batch proofs to aggregate", K_EMPTY),
        ("too many proofs", K_TOO_MANY),
        ("Expected at most", K_TOO_MANY),
        ("public input length mismatch", K_PI_LEN),
        ("failed verification against the pinned", K_INVALID),
        ("dummy proofs use asset_id=0", K_PAD_ASSET),
        ("asset_id exceeds u32 range", K_PAD_ASSET),
        ("asset consistency across all slots", K_ASSET),
        ("must share one asset", K_ASSET),
        ("different block than proof", K_BLOCK),
        ("must share one fee rate", K_FEE),
        ("same nullifier", K_DUP_NULL),
        ("all-dummy", K_ALL_DUMMY),
        ("grouped exit sum", K_SUM),
        ("exit sum", K_SUM),
    ];
    for (s, k) in T {
        if msg.contains(s) {
            return k;
        }
    }
    K_OTHER
}
fn enc_commit(r: &Result<(), String>) -> Vec<i128> {
    match r {
        Ok(()) => vec![1],
        Err(m) => vec![0, commit_kind(m)],
    }
}

// template classes
const T_PARSE: i128 = 1;
const T_BLOCK: i128 = 2;
const T_OUTPUT: i128 = 3;
const T_ASSET: i128 = 4;
const T_EXIT: i128 = 5;
const T_VERIFY: i128 = 6;
fn template_kind(msg: &str) -> i128 {
    const T: [(&str, i128); 9] = [
        ("failed to parse dummy", T_PARSE),
        ("non-zero block_hash", T_BLOCK),
        ("non-zero output amounts", T_OUTPUT),
        ("non-zero payout", T_OUTPUT),
        ("non-zero asset_id", T_ASSET),
        ("non-zero exit account", T_EXIT),
        ("template failed verification", T_VERIFY),
        // loaders: a proof that does not even deserialize against the pinned common data
        ("failed to deserialize dummy", T_VERIFY),
        ("Failed to deserialize dummy", T_VERIFY),
    ];
    for (s, k) in T {
        if msg.contains(s) {
            return k;
        }
    }
    0
}
fn enc_template(r: &Result<(), String>) -> Vec<i128> {
    match r {
        Ok(()) => vec![1],
        Err(m) => vec![0, template_kind(m)],
    }
}

// ------------------------------------------------------------------------------------------ fake leaf stack
struct FakeLeaf {
    data: CircuitData<F, C, D>,
    targets: [Target; 21],
    cache: Mutex<HashMap<Leaf, Proof>>,
}
impl FakeLeaf {
    fn new() -> Self {
        let (data, targets) = build_fake_leaf_circuit();
        FakeLeaf { data, targets, cache: Mutex::new(HashMap::new()) }
    }
    fn vd(&self) -> VerifierCircuitData<F, C, D> {
        self.data.verifier_data()
    }
    /// a VALID fake-leaf proof of exactly these public inputs (outputs and fee must be < 2^32: the fake leaf range-checks them)
    fn prove(&self, pis: Leaf) -> Proof {
        if let Some(p) = self.cache.lock().unwrap().get(&pis) {
            return p.clone();
        }
        let fp: [F; 21] = core::array::from_fn(|i| F::from_canonical_u64(pis[i]));
        let p = prove_fake_leaf(&self.data, &self.targets, fp);
        self.cache.lock().unwrap().insert(pis, p.clone());
        p
    }
}

/// what the model sees of a child proof: its public-input vector and whether it verifies
#[derive(Clone)]
struct Child {
    proof: Proof,
    verifies: bool,
}
impl Child {
    fn pis(&self) -> Vec<u64> {
        self.proof.public_inputs.iter().map(|x| x.to_canonical_u64()).collect()
    }
    fn seg(&self) -> Seg {
        let mut s: Seg = vec![self.verifies as i128];
        s.extend(self.pis().iter().map(|&x| x as i128));
        s
    }
}
fn valid(fl: &FakeLeaf, pis: Leaf) -> Child {
    Child { proof: fl.prove(pis), verifies: true }
}
/// prove `pis`, then overwrite public input `at` with `v` (the proof no longer verifies)
fn tampered(fl: &FakeLeaf, pis: Leaf, at: usize, v: u64) -> Child {
    let mut p = fl.prove(pis);
    let verifies = p.public_inputs[at].to_canonical_u64() == v % P;
    p.public_inputs[at] = F::from_noncanonical_u64(v);
    Child { proof: p, verifies }
}
fn wrong_len(fl: &FakeLeaf, pis: Leaf, longer: bool) -> Child {
    let mut p = fl.prove(pis);
    if longer {
        p.public_inputs.push(F::ZERO);
    } else {
        p.public_inputs.pop();
    }
    Child { proof: p, verifies: false }
}

fn no_zk(mut c: CircuitConfig) -> CircuitConfig {
    c.zero_knowledge = false;
    c
}

struct Universe {
    accounts: Vec<[u64; 4]>,
    nullifiers: Vec<[u64; 4]>,
    blocks: Vec<([u64; 4], u64)>,
}
fn universe(r: &mut Rng) -> Universe {
    let d = |r: &mut Rng| -> [u64; 4] { core::array::from_fn(|_| r.next() % P) };
    Universe {
        accounts: vec![[0; 4], d(r), d(r), [1, 0, 0, 0], [0, 0, 0, 1]],
        nullifiers: (0..4).map(|_| d(r)).collect(),
        blocks: vec![(d(r), r.below(1 << 32)), (d(r), r.below(1 << 32)), ([0, 0, 0, 7], 3)],
    }
}
fn leaf(asset: u64, o1: u64, o2: u64, fee: u64, null: [u64; 4], e1: [u64; 4], e2: [u64; 4], bh: [u64; 4], bn: u64) -> Leaf {
    let mut l = [0u64; 21];
    l[0] = asset;
    l[1] = o1;
    l[2] = o2;
    l[3] = fee;
    l[4..8].copy_from_slice(&null);
    l[8..12].copy_from_slice(&e1);
    l[12..16].copy_from_slice(&e2);
    l[16..20].copy_from_slice(&bh);
    l[20] = bn;
    l
}
fn small_amount(r: &mut Rng) -> u64 {
    match r.below(5) {
        0 => 0,
        1 => 1,
        2 => r.below(1 << 20),
        3 => r.below(1 << 28),
        _ => 1 << 29,
    }
}

/// a vector of k leaf statements: mostly compatible, with one deliberate feature per branch
fn gen_leaf_batch(r: &mut Rng, k: usize, n: usize, u: &Universe) -> (Vec<Leaf>, &'static str) {
    let padding = k < n;
    let asset = if !padding && r.chance(1, 3) { *r.pick(&[1u64, 7, (1 << 32) - 1, 1 << 32, P - 1]) } else { 0 };
    let fee = *r.pick(&[0u64, 10, 10000]);
    let blk = r.below(2) as usize;
    let few = r.chance(2, 3);
    let mut ls: Vec<Leaf> = (0..k)
        .map(|_| {
            let a1 = if few { u.accounts[r.below(3) as usize] } else { *r.pick(&u.accounts) };
            let a2 = if few { u.accounts[r.below(3) as usize] } else { *r.pick(&u.accounts) };
            let nl: [u64; 4] = core::array::from_fn(|_| r.next() % P);
            leaf(asset, small_amount(r), if r.chance(1, 2) { 0 } else { small_amount(r) }, fee, nl, a1, a2, u.blocks[blk].0, u.blocks[blk].1)
        })
        .collect();
    let mut tag = "compatible";
    if k == 0 {
        return (ls, "empty");
    }
    let i = r.below(k as u64) as usize;
    let j = if k >= 2 { (i + 1 + r.below(k as u64 - 1) as usize) % k } else { i };
    match r.below(16) {
        0 => {
            ls[i][0] = asset + 1;
            tag = "asset-differs";
        }
        1 => {
            ls[i][3] = fee + 1;
            tag = "fee-differs";
        }
        2 => {
            ls[i][16..20].copy_from_slice(&u.blocks[1 - blk].0);
            tag = "block-differs";
        }
        3 => {
            let c: [u64; 4] = ls[i][4..8].try_into().unwrap();
            ls[j][4..8].copy_from_slice(&c);
            tag = "nullifier-shared-real-real";
        }
        4 => {
            // a supplied dummy (zero block hash) sharing its nullifier with a real one, garbage fee / outputs / exits
            let c: [u64; 4] = ls[i][4..8].try_into().unwrap();
            ls[j][4..8].copy_from_slice(&c);
            ls[j][16..20].copy_from_slice(&[0; 4]);
            ls[j][3] = fee + 5;
            ls[j][1] = (1 << 32) - 1;
            tag = "supplied-dummy-shares-nullifier";
        }
        5 => {
            for l in ls.iter_mut() {
                l[16..20].copy_from_slice(&[0; 4]);
            }
            tag = "all-supplied-dummy";
        }
        6 | 7 | 8 => {
            // grouped sums around 2^32 on one account (possibly the zero account), over both outputs
            let acc = *r.pick(&[u.accounts[0], u.accounts[1]]);
            let target: u64 = *r.pick(&[(1u64 << 32) - 1, 1 << 32, (1 << 32) + 1, 1 << 33, (1 << 32) - 2]);
            let slots = 2 * k as u64;
            let mut rest = target;
            for (q, l) in ls.iter_mut().enumerate() {
                l[8..12].copy_from_slice(&acc);
                l[12..16].copy_from_slice(&acc);
                for o in 0..2u64 {
                    let left = slots - (2 * q as u64 + o);
                    let share = if left == 1 { rest } else { (rest / left).min((1 << 32) - 1) };
                    let share = share.min((1 << 32) - 1);
                    l[1 + o as usize] = share;
                    rest -= share;
                }
            }
            tag = "one-account-sum-near-2^32";
        }
        9 => {
            // same total spread over DIFFERENT accounts: no overflow
            for (q, l) in ls.iter_mut().enumerate() {
                let mut a = [q as u64 + 1, 5, 5, 5];
                l[8..12].copy_from_slice(&a);
                a[1] = 6;
                l[12..16].copy_from_slice(&a);
                l[1] = (1 << 32) - 1;
                l[2] = (1 << 32) - 1;
            }
            tag = "max-amounts-distinct-accounts";
        }
        10 => {
            // a supplied dummy whose (masked) outputs would overflow the group if they were counted
            let acc = u.accounts[1];
            for l in ls.iter_mut() {
                l[8..12].copy_from_slice(&acc);
                l[12..16].copy_from_slice(&acc);
                l[1] = 1 << 30;
                l[2] = 0;
            }
            ls[j][16..20].copy_from_slice(&[0; 4]);
            ls[j][1] = (1 << 32) - 1;
            ls[j][2] = (1 << 32) - 1;
            tag = "supplied-dummy-with-huge-outputs";
        }
        11 => {
            // accounts differing in one limb only
            let mut a = u.accounts[1];
            for l in ls.iter_mut() {
                l[8..12].copy_from_slice(&a);
                l[1] = 1 << 31;
                l[2] = 0;
                a[3] = (a[3] + 1) % P;
            }
            tag = "accounts-differ-in-last-limb";
        }
        12 => {
            ls[i][16..20].copy_from_slice(&[0, 0, 0, 1]);
            tag = "block-hash-one-limb";
        }
        _ => {}
    }
    (ls, tag)
}

// ------------------------------------------------------------------------------------------ private batch
struct PrivCtx {
    fl: FakeLeaf,
    cfg: CircuitConfig,
    template: Proof,
    /// the circuit of size n, built once: verifier data + full data for explicit evaluation (1403)
    full: HashMap<usize, CircuitData<F, C, D>>,
    targets: HashMap<usize, wormhole_aggregator::private_batch::circuit::circuit_logic::PrivateBatchCircuitTargets>,
}
impl PrivCtx {
    fn new_prover(&self, n: usize) -> PrivateBatchProver {
        PrivateBatchProver::new(self.cfg.clone(), self.fl.data.common.clone(), &self.fl.data.verifier_only, n, self.template.clone()).expect("prover over the fake leaf")
    }
}

struct CommitObs {
    result: Result<(), String>,
    /// on Ok: does the committed witness satisfy every gate / copy constraint of the circuit?
    sat: Option<bool>,
    /// on Ok and when asked: result class of the real prove() (+ verify): 1 ok, 0 failed
    proved: Option<bool>,
}

/// evaluate a committed (or hand-filled) partial witness on the circuit
fn witness_sat(data: &CircuitData<F, C, D>, pw: PartialWitness<F>) -> bool {
    let ev = CircuitEval::new(data);
    match ev.generate_with_overrides(pw, &mut no_tweak()) {
        Err(_) => false,
        Ok(w) => ev.gate_violations(&w) == 0,
    }
}

fn private_commit(ctx: &PrivCtx, n: usize, children: &[Child], really_prove: bool) -> CommitObs {
    let prover = ctx.new_prover(n);
    let proofs: Vec<Proof> = children.iter().map(|c| c.proof.clone()).collect();
    match prover.commit(proofs) {
        Err(e) => CommitObs { result: Err(format!("{:#}", e)), sat: None, proved: None },
        Ok(committed) => {
            let pw = committed.verif_partial_witness().clone();
            let proved = if really_prove {
                let vd = ctx.full[&n].verifier_data();
                let pw2 = pw.clone();
                // the REAL prove() of the committed prover, then verification under the separately built verifier
                let _ = pw2;
                Some(match committed.verif_circuit_data().prove(pw.clone()) {
                    Ok(p) => vd.verify(p).is_ok(),
                    Err(_) => false,
                })
            } else {
                None
            };
            let pcd = committed.circuit_data;
            let data = CircuitData { prover_only: pcd.prover_only, common: pcd.common, verifier_only: ctx.full[&n].verifier_only.clone() };
            let sat = witness_sat(&data, pw);
            CommitObs { result: Ok(()), sat: Some(sat), proved }
        }
    }
}

fn commit_segs(n: usize, extra: &[i128], template: &Proof, children: &[Child]) -> Vec<Seg> {
    let mut head: Seg = vec![n as i128];
    head.extend_from_slice(extra);
    let mut s = vec![head, template.public_inputs.iter().map(|x| x.to_canonical_u64() as i128).collect()];
    for c in children {
        s.push(c.seg());
    }
    s
}

/// fill the explicit order `leaves` into the size-n circuit and evaluate (no commit, no shuffle)
fn explicit_sat(ctx: &PrivCtx, n: usize, proofs: &[Proof], r: &mut Rng) -> bool {
    let t = &ctx.targets[&n];
    let mut pw = PartialWitness::new();
    for (pt, p) in t.leaf_proofs.iter().zip(proofs) {
        pw.set_proof_with_pis_target(pt, p).unwrap();
    }
    for pre in &t.dummy_nullifier_pre_images {
        for l in 0..4 {
            pw.set_target(pre[l], F::from_canonical_u64(r.next() % P)).unwrap();
        }
    }
    witness_sat(&ctx.full[&n], pw)
}

fn main() {
    quiet_panics();
    let seed = seed_from_env();
    let mut rng = Rng::new(seed);
    let thorough = tier_is_thorough();
    let mut out = Out::new();
    let which: Vec<String> = std::env::args().skip(1).collect();
    let want = |s: &str| which.is_empty() || which.iter().any(|w| w == s);
    let t0 = std::time::Instant::now();

    let fl = FakeLeaf::new();
    let u = universe(&mut rng);
    let zero_template = fl.prove([0; 21]);
    // a template that is a valid dummy in every inspected position but carries garbage elsewhere (fee, nullifier, block number)
    let mut tpl = [0u64; 21];
    tpl[3] = 10;
    tpl[4] = 77;
    tpl[20] = 5;
    let busy_template = fl.prove(tpl);

    if want("c14priv") {
        let sizes: Vec<usize> = if thorough { vec![1, 2, 3, 4] } else { vec![1, 2, 3] };
        let mut ctx = PrivCtx { fl, cfg: no_zk(wormhole_private_batch_circuit_config()), template: busy_template.clone(), full: HashMap::new(), targets: HashMap::new() };
        for &n in &sizes {
            let c = PrivateBatchCircuit::new(ctx.cfg.clone(), &ctx.fl.data.common, &ctx.fl.data.verifier_only, n).unwrap();
            ctx.targets.insert(n, c.targets());
            ctx.full.insert(n, c.build_circuit());
        }
        out.note("c14-private", &format!("fake-leaf stack ready after {:?}; sizes {:?}", t0.elapsed(), sizes));

        if std::env::var("VERIF_PROBE").is_ok() {
            for &n in &sizes {
                let t = std::time::Instant::now();
                let pr = ctx.new_prover(n);
                let tb = t.elapsed();
                let l = valid(&ctx.fl, leaf(0, 5, 0, 10, [1, 0, 0, 0], [3; 4], [0; 4], [9, 0, 0, 0], 3));
                let t = std::time::Instant::now();
                let c = pr.commit(vec![l.proof.clone()]).unwrap();
                let tc = t.elapsed();
                let pw = c.verif_partial_witness().clone();
                let t = std::time::Instant::now();
                let ev = CircuitEval::new(&ctx.full[&n]);
                let te = t.elapsed();
                let t = std::time::Instant::now();
                let w = ev.generate_with_overrides(pw, &mut no_tweak()).unwrap();
                let tg = t.elapsed();
                let t = std::time::Instant::now();
                let bad = ev.gate_violations(&w);
                let tv = t.elapsed();
                eprintln!("n={} degree={} build {:?} commit {:?} evalnew {:?} gen {:?} gates {:?} bad {}", n, ctx.full[&n].common.degree(), tb, tc, te, tg, tv, bad);
            }
            let t = std::time::Instant::now();
            for i in 0..20u64 { let _ = ctx.fl.prove(leaf(0, i, 0, 10, [1, 0, 0, 0], [3; 4], [0; 4], [9, 0, 0, 0], 3)); }
            eprintln!("20 leaf proofs {:?}", t.elapsed());
            return;
        }
        // ---- the F1 regression pair: two valid real leaves paying the same account 2^31 (resp. 2^30) each
        let acc = u.accounts[1];
        for (amt, tag) in [(1u64 << 31, "F1-two-leaves-2^31-same-account"), (1u64 << 30, "F1-control-two-leaves-2^30-same-account")] {
            let a = valid(&ctx.fl, leaf(0, amt, 0, 10, [1, 0, 0, 0], acc, [0; 4], [9, 0, 0, 0], 3));
            let b = valid(&ctx.fl, leaf(0, amt, 0, 10, [2, 0, 0, 0], acc, [0; 4], [9, 0, 0, 0], 3));
            let ch = vec![a, b];
            let segs = commit_segs(2, &[], &ctx.template, &ch);
            // (i) the plain client path: commit, then the REAL prove()
            let real = ctx.new_prover(2).commit(ch.iter().map(|c| c.proof.clone()).collect());
            // (ii) a second commit of the same vector, whose committed witness is evaluated gate by gate
            let o = private_commit(&ctx, 2, &ch, false);
            match real {
                Err(e) => {
                    let m = format!("{:#}", e);
                    out.note("F1", &format!("{}: commit Err class {}", tag, commit_kind(&m)));
                    out.case(1401, tag, &segs, &enc_commit(&Err(m)));
                }
                Ok(committed) => {
                    let pr = committed.prove();
                    let sat = o.sat.unwrap_or(false);
                    out.note("F1", &format!("{}: commit Ok; committed witness satisfies the circuit = {}; prove() = {}", tag, sat, match &pr { Ok(_) => "Ok".to_string(), Err(e) => format!("Err({})", format!("{:#}", e).chars().take(150).collect::<String>()) }));
                    out.case(1401, tag, &segs, &[1]);
                    out.case(1402, tag, &segs, &[(sat && pr.is_ok()) as i128]);
                }
            }
        }

        // ---- generated commit cases
        struct Job {
            n: usize,
            ch: Vec<Child>,
            tag: String,
            prove: bool,
        }
        let mut jobs: Vec<Job> = vec![];
        let reps = if thorough { 260 } else { 36 };
        for &n in &sizes {
            for rep in 0..reps {
                let k = match rng.below(10) {
                    0 => 0,
                    1 => n + 1,
                    _ => 1 + rng.below(n as u64) as usize,
                };
                let (ls, tag) = gen_leaf_batch(&mut rng, k, n, &u);
                let mut ch: Vec<Child> = ls.iter().map(|l| valid(&ctx.fl, *l)).collect();
                let mut tag = tag.to_string();
                if k > 0 {
                    let i = rng.below(k as u64) as usize;
                    match rng.below(14) {
                        0 => {
                            // flip a public input after proving
                            let at = rng.below(21) as usize;
                            ch[i] = tampered(&ctx.fl, ls[i], at, ls[i][at] ^ 1);
                            tag += "+tampered";
                        }
                        1 => {
                            ch[i] = wrong_len(&ctx.fl, ls[i], rng.chance(1, 2));
                            tag += "+pi-len";
                        }
                        2 => {
                            // the padding template itself supplied as a "real" proof
                            ch[i] = Child { proof: ctx.template.clone(), verifies: true };
                            tag += "+template-supplied";
                        }
                        3 if k < n => {
                            // padding needed and a non-native asset
                            let mut l = ls[i];
                            l[0] = *rng.pick(&[1u64, (1 << 32) - 1, 1 << 32, P - 1]);
                            ch[i] = valid(&ctx.fl, l);
                            tag += "+nonzero-asset-with-padding";
                        }
                        _ => {}
                    }
                }
                jobs.push(Job { n, ch, tag, prove: rep % 12 == 0 });
            }
        }
        let obs: Vec<CommitObs> = jobs.par_iter().map(|j| private_commit(&ctx, j.n, &j.ch, j.prove)).collect();
        let mut n_ok = 0;
        let mut n_proved = 0;
        for (j, o) in jobs.iter().zip(&obs) {
            let segs = commit_segs(j.n, &[], &ctx.template, &j.ch);
            out.case(1401, &j.tag, &segs, &enc_commit(&o.result));
            if let Some(sat) = o.sat {
                n_ok += 1;
                let proved_ok = o.proved.unwrap_or(true);
                if o.proved.is_some() {
                    n_proved += 1;
                }
                out.case(1402, &j.tag, &segs, &[(sat && proved_ok) as i128]);
            }
            // explicit evaluation of the padded batch in the supplied order and in one random order, whenever it is a
            // vector of valid child proofs that fits
            let k = j.ch.len();
            if k >= 1 && k <= j.n && j.ch.iter().all(|c| c.verifies && c.proof.public_inputs.len() == 21) {
                let mut padded: Vec<Child> = j.ch.clone();
                while padded.len() < j.n {
                    padded.push(Child { proof: ctx.template.clone(), verifies: true });
                }
                for round in 0..2 {
                    if round == 1 {
                        for i in (1..padded.len()).rev() {
                            let q = rng.below(i as u64 + 1) as usize;
                            padded.swap(i, q);
                        }
                    }
                    let proofs: Vec<Proof> = padded.iter().map(|c| c.proof.clone()).collect();
                    let sat = explicit_sat(&ctx, j.n, &proofs, &mut rng);
                    let segs: Vec<Seg> = padded.iter().map(|c| c.seg()[1..].to_vec()).collect();
                    out.case(1403, &format!("{}{}", j.tag, if round == 1 { "+shuffled" } else { "" }), &segs, &[sat as i128]);
                }
            }
        }
        out.note("c14-private", &format!("{} commits, {} accepted (witness evaluated), {} really proved+verified; elapsed {:?}", jobs.len(), n_ok, n_proved, t0.elapsed()));

        // ---- bulk: the compatibility function alone
        let bulk = if thorough { 6000 } else { 700 };
        for _ in 0..bulk {
            let k = 1 + rng.below(5) as usize;
            let n = if rng.chance(1, 2) { k } else { k + 1 };
            let (ls, tag) = gen_leaf_batch(&mut rng, k, n, &u);
            let proofs: Vec<Proof> = ls.iter().map(|l| ctx.fl.prove(*l)).collect();
            let r = verif_ensure_leaf_batch_compatible(&proofs).map_err(|e| format!("{:#}", e));
            let segs: Vec<Seg> = ls.iter().map(|l| seg_u64(l)).collect();
            out.case(1404, tag, &segs, &enc_commit(&r));
        }
        out.note("c14-private", &format!("bulk done; elapsed {:?}", t0.elapsed()));
    }
    let _ = (zero_template, verif_verify_dummy_leaf_template, verif_verify_dummy_private_batch_template, verif_c21_preflight_private_batch_proofs);
    let _ = (PublicBatchCircuit::new, wormhole_public_batch_circuit_config, BytesDigest::default());
    let _: Option<(PublicBatchInputs, PublicBatchProver)> = None;
    out.flush();
}
