//! C29: every public entry point that takes a per-layer proof count, called with good and bad counts.
//!
//! Case lines (model side = Sys/Parsers.v `counts_accept` / `config_accepts`):
//!   2910  <entry-point name>  <entry-point id>;<count> [<count>]  ->
//!         [1]  accepted
//!         [0]  rejected with the proof-count error, cheaply (before allocating / building: < 1 MiB allocated, < 50 ms)
//!         [2]  rejected with the proof-count error, but only after heavy work
//!         [3]  rejected for another reason (the count check did not fire first)
//!         [-1] panic / abort
//!   2911  config file round trip: <num_leaf>;[<num_private_batch>];<variant>  ->  1 :: loaded values | 0
//!
//! Each entry point runs in its own child process (`counts --ep <id>`), so that an allocation failure or
//! abort caused by an unvalidated huge count is observed as `[-1]` instead of killing the harness.
use std::alloc::{GlobalAlloc, Layout, System};
use std::cell::RefCell;
use std::path::{Path, PathBuf};
use std::sync::atomic::{AtomicU64, Ordering};
use std::time::{Duration, Instant};

use plonky2::field::types::Field;
use plonky2::iop::target::Target;
use plonky2::plonk::circuit_builder::CircuitBuilder;
use plonky2::plonk::circuit_data::{CircuitConfig, CircuitData};
use plonky2::plonk::proof::ProofWithPublicInputs;
use plonky2::util::serialization::DefaultGateSerializer;
use qp_wormhole_inputs::{PrivateBatchPublicInputs, PublicBatchPublicInputs};
use test_helpers::fake_leaf::{build_fake_leaf_circuit, prove_fake_leaf};
use test_helpers::TestInputs;
use verif_harness::*;
use wormhole_aggregator::common::recursive::add_recursive_verifiers;
use wormhole_aggregator::common::utils as agg_utils;
use wormhole_aggregator::pool::{PoolLimits, ProofPool};
use wormhole_aggregator::private_batch::circuit::build::generate_private_batch_circuit_binaries;
use wormhole_aggregator::private_batch::circuit::circuit_logic::PrivateBatchCircuit;
use wormhole_aggregator::private_batch::prover::PrivateBatchProver;
use wormhole_aggregator::public_batch::circuit::build::generate_public_batch_circuit_binaries;
use wormhole_aggregator::public_batch::circuit::circuit_logic::PublicBatchCircuit;
use wormhole_aggregator::public_batch::prover::PublicBatchProver;
use wormhole_aggregator::CircuitBinsConfig;
use wormhole_circuit::inputs::{CircuitInputs, ParsePrivateBatchPublicInputs};
use zk_circuits_common::circuit::{
    wormhole_private_batch_circuit_config, wormhole_public_batch_circuit_config, C, D, F,
};

// ------------------------------------------------------------------------------------------- allocation counter

struct Counting;
static BYTES: AtomicU64 = AtomicU64::new(0);
unsafe impl GlobalAlloc for Counting {
    unsafe fn alloc(&self, l: Layout) -> *mut u8 {
        BYTES.fetch_add(l.size() as u64, Ordering::Relaxed);
        System.alloc(l)
    }
    unsafe fn alloc_zeroed(&self, l: Layout) -> *mut u8 {
        BYTES.fetch_add(l.size() as u64, Ordering::Relaxed);
        System.alloc_zeroed(l)
    }
    unsafe fn realloc(&self, p: *mut u8, l: Layout, new_size: usize) -> *mut u8 {
        BYTES.fetch_add(new_size as u64, Ordering::Relaxed);
        System.realloc(p, l, new_size)
    }
    unsafe fn dealloc(&self, p: *mut u8, l: Layout) {
        System.dealloc(p, l)
    }
}
#[global_allocator]
static ALLOC: Counting = Counting;

const CHEAP_BYTES: u64 = 1 << 20;
// time is a secondary guard only: 2 s cannot be reached by a rejection even on a heavily loaded machine (a circuit build
// allocates far more than CHEAP_BYTES, which is the deciding, deterministic measure)
const CHEAP_TIME: Duration = Duration::from_millis(2000);

// ------------------------------------------------------------------------------------------- observation

#[derive(Clone, Copy, PartialEq, Debug)]
enum Obs {
    Accepted,
    RejectedCheap,
    RejectedHeavy,
    RejectedOther,
    Panicked,
}
impl Obs {
    fn code(self) -> i128 {
        match self {
            Obs::Accepted => 1,
            Obs::RejectedCheap => 0,
            Obs::RejectedHeavy => 2,
            Obs::RejectedOther => 3,
            Obs::Panicked => -1,
        }
    }
}

fn is_count_error(e: &anyhow::Error) -> bool {
    // the two messages of qp_wormhole_inputs::validate_proof_count (stable substrings; error *kind*, not text)
    let s = format!("{:#}", e);
    s.contains("must be > 0") || s.contains("exceeds maximum")
}

/// `prep` builds the arguments (caller's work, not measured); `run` is the entry point call (measured).
/// A rejection that was slow is re-run (rejections are idempotent) and the fastest run counts, so that a
/// scheduling hiccup of the machine is not reported as "heavy work".
fn observe<A>(mut prep: impl FnMut() -> A, run: impl Fn(A) -> anyhow::Result<()>) -> (Obs, u64, Duration) {
    let mut best: Option<(Obs, u64, Duration)> = None;
    for _attempt in 0..5 {
        let a = prep();
        let b0 = BYTES.load(Ordering::Relaxed);
        let t0 = Instant::now();
        let r = no_panic(|| run(a));
        let dt = t0.elapsed();
        let db = BYTES.load(Ordering::Relaxed) - b0;
        let obs = match r {
            None => Obs::Panicked,
            Some(Ok(())) => Obs::Accepted,
            Some(Err(e)) => {
                if !is_count_error(&e) {
                    Obs::RejectedOther
                } else if db < CHEAP_BYTES && dt < CHEAP_TIME {
                    Obs::RejectedCheap
                } else {
                    Obs::RejectedHeavy
                }
            }
        };
        let better = match &best {
            None => true,
            Some((_, _, bt)) => dt < *bt,
        };
        if better {
            best = Some((obs, db, dt));
        }
        // only a count rejection that was slow (but small) is worth re-timing
        if !(obs == Obs::RejectedHeavy && db < CHEAP_BYTES) {
            break;
        }
    }
    best.unwrap()
}

// ------------------------------------------------------------------------------------------- fixtures

fn fake_circuit_with_pis(n: usize) -> CircuitData<F, C, D> {
    // as wormhole/aggregator/src/pool.rs tests::build_fake_private_batch_circuit
    let config = CircuitConfig::standard_recursion_config();
    let mut builder = CircuitBuilder::<F, D>::new(config);
    let pis = builder.add_virtual_targets(n);
    builder.range_check(pis[0], 32);
    builder.register_public_inputs(&pis);
    builder.build::<C>()
}

struct Fx {
    dir: PathBuf,
    leaf: Option<(CircuitData<F, C, D>, [Target; 21])>,
    leaf_proof: Option<ProofWithPublicInputs<F, C, D>>,
    pb29: Option<CircuitData<F, C, D>>,
}
impl Fx {
    fn new(ep: u32) -> Self {
        let dir = std::env::temp_dir().join(format!("verif-c29-{}-{}", std::process::id(), ep));
        let _ = std::fs::remove_dir_all(&dir);
        std::fs::create_dir_all(&dir).unwrap();
        Fx { dir, leaf: None, leaf_proof: None, pb29: None }
    }
    fn leaf(&mut self) -> &(CircuitData<F, C, D>, [Target; 21]) {
        if self.leaf.is_none() {
            self.leaf = Some(build_fake_leaf_circuit());
        }
        self.leaf.as_ref().unwrap()
    }
    fn leaf_proof(&mut self) -> ProofWithPublicInputs<F, C, D> {
        if self.leaf_proof.is_none() {
            let (data, t) = self.leaf();
            let p = prove_fake_leaf(data, t, [F::ZERO; 21]);
            self.leaf_proof = Some(p);
        }
        self.leaf_proof.clone().unwrap()
    }
    fn pb29(&mut self) -> &CircuitData<F, C, D> {
        if self.pb29.is_none() {
            self.pb29 = Some(fake_circuit_with_pis(29));
        }
        self.pb29.as_ref().unwrap()
    }
    /// a fresh, not yet existing output directory
    fn fresh_out(&self, tag: &str) -> PathBuf {
        let d = self.dir.join(format!("out-{}", tag));
        let _ = std::fs::remove_dir_all(&d);
        d
    }
    /// a directory holding a config.json with the given raw text (written the way the repo writes artifacts)
    fn config_dir(&self, tag: &str, json: &str) -> PathBuf {
        let d = self.dir.join(format!("cfg-{}", tag));
        agg_utils::commit_artifact_set(&d, &[("config.json", json.as_bytes().to_vec())], &[]).unwrap();
        d
    }
    fn garbage_files(&self) -> (PathBuf, PathBuf, PathBuf) {
        let d = self.dir.join("garbage");
        std::fs::create_dir_all(&d).unwrap();
        let (a, b, c) = (d.join("common.bin"), d.join("verifier.bin"), d.join("dummy.bin"));
        for p in [&a, &b, &c] {
            std::fs::write(p, b"not an artifact").unwrap();
        }
        (a, b, c)
    }
}
impl Drop for Fx {
    fn drop(&mut self) {
        let _ = std::fs::remove_dir_all(&self.dir);
    }
}

fn json_cfg(leaf: u64, pb: Option<u64>, legacy: bool) -> String {
    let key = if legacy { "num_layer0_proofs" } else { "num_private_batch_proofs" };
    match pb {
        Some(b) => format!("{{\n  \"num_leaf_proofs\": {},\n  \"{}\": {}\n}}", leaf, key, b),
        None => format!("{{\n  \"num_leaf_proofs\": {},\n  \"{}\": null\n}}", leaf, key),
    }
}

fn ok<T>(r: anyhow::Result<T>) -> anyhow::Result<()> {
    r.map(|_| ())
}
/// `Result<T>` where `T` has no Debug
fn ok_nodebug<T>(r: anyhow::Result<T>) -> anyhow::Result<()> {
    match r {
        Ok(_) => Ok(()),
        Err(e) => Err(e),
    }
}

fn valid_pub_pis(m: u64, n: u64) -> Vec<u64> {
    if (1..=64).contains(&m) && (1..=64).contains(&n) {
        let mn = (m * n) as usize;
        let mut v = vec![0u64; 12 + 14 * mn];
        v[11] = 2 * mn as u64;
        v
    } else {
        vec![0u64; 12]
    }
}
fn valid_priv_pis(c: u64) -> Vec<u64> {
    let mut v = vec![0u64; 8 + 21 * c as usize];
    v[0] = 2 * c;
    v
}

// ------------------------------------------------------------------------------------------- entry points

#[derive(Clone, Copy, PartialEq)]
enum Mode {
    /// accepting counts are cheap to run: use the full count list
    Full,
    /// accepting would build a real circuit / need real artifacts: only rejecting counts (the model answers 0)
    RejectOnly,
    /// the count is derived from a length: only counts whose vector fits in memory
    FromLength,
}

struct Ep {
    id: u32,
    name: &'static str,
    arity: usize,
    mode: Mode,
    /// extra accepting count vectors to try (besides what `mode` generates)
    accept: &'static [&'static [u64]],
}

const EPS: &[Ep] = &[
    Ep { id: 1, name: "validate_proof_count", arity: 1, mode: Mode::Full, accept: &[] },
    Ep { id: 2, name: "CircuitBinsConfig::new(n,None)", arity: 1, mode: Mode::Full, accept: &[] },
    Ep { id: 3, name: "CircuitBinsConfig::new(n,Some(m))", arity: 2, mode: Mode::Full, accept: &[] },
    Ep { id: 4, name: "CircuitBinsConfig::validate", arity: 2, mode: Mode::Full, accept: &[] },
    Ep { id: 5, name: "CircuitBinsConfig::load", arity: 2, mode: Mode::Full, accept: &[] },
    Ep { id: 6, name: "CircuitBinsConfig::load(legacy-key)", arity: 2, mode: Mode::Full, accept: &[] },
    Ep { id: 7, name: "PublicBatchPublicInputs::try_from_u64_slice", arity: 2, mode: Mode::Full, accept: &[&[64, 64], &[2, 3]] },
    Ep { id: 8, name: "PrivateBatchPublicInputs::try_from_u64_slice", arity: 1, mode: Mode::FromLength, accept: &[] },
    Ep { id: 9, name: "PrivateBatchPublicInputs::try_from_felts", arity: 1, mode: Mode::FromLength, accept: &[] },
    Ep { id: 10, name: "wormhole_verifier::parse_public_batch_public_inputs", arity: 2, mode: Mode::Full, accept: &[&[2, 3]] },
    Ep { id: 11, name: "wormhole_verifier::parse_private_batch_public_inputs", arity: 1, mode: Mode::FromLength, accept: &[] },
    Ep { id: 12, name: "private_batch_num_leaves_from_padded_pi_len", arity: 1, mode: Mode::FromLength, accept: &[] },
    Ep { id: 13, name: "add_recursive_verifiers", arity: 1, mode: Mode::RejectOnly, accept: &[&[1], &[2]] },
    Ep { id: 14, name: "PrivateBatchCircuit::new", arity: 1, mode: Mode::RejectOnly, accept: &[&[1], &[2]] },
    Ep { id: 15, name: "PublicBatchCircuit::new", arity: 2, mode: Mode::RejectOnly, accept: &[&[1, 1], &[2, 1]] },
    Ep { id: 16, name: "PrivateBatchProver::new", arity: 1, mode: Mode::RejectOnly, accept: &[] },
    Ep { id: 17, name: "PrivateBatchProver::new_from_bytes", arity: 1, mode: Mode::RejectOnly, accept: &[] },
    Ep { id: 18, name: "PrivateBatchProver::new_from_files", arity: 1, mode: Mode::RejectOnly, accept: &[] },
    Ep { id: 19, name: "PrivateBatchProver::new_from_binaries_dir", arity: 1, mode: Mode::RejectOnly, accept: &[] },
    Ep { id: 20, name: "PublicBatchProver::new", arity: 2, mode: Mode::RejectOnly, accept: &[] },
    Ep { id: 21, name: "PublicBatchProver::new_from_bytes", arity: 2, mode: Mode::RejectOnly, accept: &[] },
    Ep { id: 22, name: "PublicBatchProver::new_from_files", arity: 2, mode: Mode::RejectOnly, accept: &[] },
    Ep { id: 23, name: "PublicBatchProver::new_from_binaries_dir", arity: 2, mode: Mode::RejectOnly, accept: &[] },
    Ep { id: 24, name: "ProofPool::new", arity: 2, mode: Mode::RejectOnly, accept: &[&[1, 1], &[1, 2], &[1, 64], &[64, 1], &[64, 64]] },
    Ep { id: 25, name: "generate_private_batch_circuit_binaries", arity: 1, mode: Mode::RejectOnly, accept: &[] },
    Ep { id: 26, name: "generate_public_batch_circuit_binaries", arity: 2, mode: Mode::RejectOnly, accept: &[] },
    Ep { id: 27, name: "generate_all_circuit_binaries(n,None)", arity: 1, mode: Mode::RejectOnly, accept: &[] },
    Ep { id: 28, name: "generate_all_circuit_binaries(n,Some(m))", arity: 2, mode: Mode::RejectOnly, accept: &[] },
    Ep { id: 29, name: "canonical_private_batch_verifier_data", arity: 1, mode: Mode::RejectOnly, accept: &[] },
    Ep { id: 30, name: "canonical_public_batch_verifier_data", arity: 2, mode: Mode::RejectOnly, accept: &[] },
    Ep { id: 31, name: "load_canonical_private_batch_verifier_data", arity: 1, mode: Mode::RejectOnly, accept: &[] },
    Ep { id: 32, name: "PublicBatchAggregator::new", arity: 2, mode: Mode::RejectOnly, accept: &[] },
];

const HUGE: [u64; 3] = [1 << 32, u64::MAX / 21 + 1, u64::MAX];
const BAD_SMALL: [u64; 2] = [0, 65];
const GOOD: [u64; 2] = [1, 64];

fn valid(c: u64) -> bool {
    (1..=64).contains(&c)
}

/// the count vectors an entry point is called with (deterministic: parent and child compute the same list)
fn count_vectors(ep: &Ep) -> Vec<Vec<u64>> {
    let mut out: Vec<Vec<u64>> = vec![];
    let mut singles: Vec<u64> = vec![];
    match ep.mode {
        Mode::Full => {
            singles.extend(BAD_SMALL);
            singles.extend(GOOD);
            singles.extend([2, 63, 66]);
            singles.extend(HUGE);
        }
        Mode::RejectOnly => {
            singles.extend(BAD_SMALL);
            singles.extend([66, 1 << 16]);
            singles.extend(HUGE);
        }
        Mode::FromLength => {
            // (pi_len - 8) / 21: what fits in a vector; id 12 takes the length itself and gets the huge ones too
            singles.extend([0, 1, 2, 63, 64, 65, 66, 200]);
            if ep.id == 12 {
                singles.extend([1 << 32, u64::MAX / 21]);
            }
        }
    }
    if ep.arity == 1 {
        for c in singles {
            out.push(vec![c]);
        }
    } else {
        for &c in &singles {
            if ep.mode == Mode::RejectOnly && valid(c) {
                continue;
            }
            out.push(vec![c, 1]);
            out.push(vec![1, c]);
        }
        for &(a, b) in &[(0u64, 0u64), (65, 65), (0, 65), (65, 0), (u64::MAX, u64::MAX), (64, 65), (65, 64)] {
            out.push(vec![a, b]);
        }
        if ep.mode == Mode::Full {
            out.push(vec![64, 64]);
            out.push(vec![1, 1]);
        }
    }
    for a in ep.accept {
        out.push(a.to_vec());
    }
    let mut seen = std::collections::BTreeSet::new();
    out.retain(|v| seen.insert(v.clone()));
    out
}

fn run_ep(ep: &Ep, fx: &mut Fx, cs: &[u64]) -> (Obs, u64, Duration) {
    let a = cs[0] as usize;
    let b = if cs.len() > 1 { cs[1] as usize } else { 0 };
    match ep.id {
        1 => observe(|| (), |_| qp_wormhole_inputs::validate_proof_count(a, "x")),
        2 => observe(|| (), |_| ok(CircuitBinsConfig::new(a, None))),
        3 => observe(|| (), |_| ok(CircuitBinsConfig::new(a, Some(b)))),
        4 => observe(
            || CircuitBinsConfig { num_leaf_proofs: a, num_private_batch_proofs: Some(b) },
            |c| c.validate(),
        ),
        5 | 6 => {
            let d = fx.config_dir("load", &json_cfg(cs[0], Some(cs[1]), ep.id == 6));
            observe(|| (), |_| {
                let c = CircuitBinsConfig::load(&d)?;
                anyhow::ensure!(c.num_leaf_proofs == a && c.num_private_batch_proofs == Some(b), "loaded different values");
                Ok(())
            })
        }
        7 => {
            let pis = valid_pub_pis(cs[0], cs[1]);
            observe(|| (), |_| ok(PublicBatchPublicInputs::try_from_u64_slice(&pis, a, b)))
        }
        8 => {
            let pis = valid_priv_pis(cs[0]);
            observe(|| (), |_| ok(PrivateBatchPublicInputs::try_from_u64_slice(&pis)))
        }
        9 => {
            let pis: Vec<F> = valid_priv_pis(cs[0]).into_iter().map(F::from_canonical_u64).collect();
            observe(|| (), |_| ok(<PrivateBatchPublicInputs as ParsePrivateBatchPublicInputs>::try_from_felts(&pis)))
        }
        10 | 11 => {
            let mut proof = verifier_side_leaf_proof();
            proof.public_inputs = if ep.id == 10 { valid_pub_pis(cs[0], cs[1]) } else { valid_priv_pis(cs[0]) }
                .into_iter()
                .map(wormhole_verifier::F::from_canonical_u64)
                .collect();
            if ep.id == 10 {
                observe(|| (), |_| ok(wormhole_verifier::parse_public_batch_public_inputs(&proof, a, b)))
            } else {
                observe(|| (), |_| ok(wormhole_verifier::parse_private_batch_public_inputs(&proof)))
            }
        }
        12 => {
            let len = 8usize + 21 * a; // fits by construction of the count list
            observe(|| (), |_| {
                let n = agg_utils::private_batch_num_leaves_from_padded_pi_len(len)?;
                anyhow::ensure!(n == a, "wrong leaf count");
                Ok(())
            })
        }
        13 => {
            let (leaf, _) = fx.leaf();
            let builder = RefCell::new(CircuitBuilder::<F, D>::new(CircuitConfig::standard_recursion_config()));
            observe(|| (), |_| {
                ok(add_recursive_verifiers::<F, C, D>(&mut builder.borrow_mut(), &leaf.common, &leaf.verifier_only, a))
            })
        }
        14 => {
            let (leaf, _) = fx.leaf();
            observe(wormhole_private_batch_circuit_config, |cfg| {
                ok_nodebug(PrivateBatchCircuit::new(cfg, &leaf.common, &leaf.verifier_only, a))
            })
        }
        15 => {
            let pb = fx.pb29();
            observe(
                || (wormhole_public_batch_circuit_config(), pb.common.clone()),
                |(cfg, common)| ok_nodebug(PublicBatchCircuit::new(cfg, common, &pb.verifier_only, a, b)),
            )
        }
        16 => {
            let proof = fx.leaf_proof();
            let (leaf, _) = fx.leaf();
            observe(
                || (wormhole_private_batch_circuit_config(), leaf.common.clone(), proof.clone()),
                |(cfg, common, p)| ok(PrivateBatchProver::new(cfg, common, &leaf.verifier_only, a, p)),
            )
        }
        17 => observe(|| (), |_| ok(PrivateBatchProver::new_from_bytes(&[], &[], &[], a))),
        18 => {
            let (p1, p2, p3) = fx.garbage_files();
            observe(|| (), |_| ok(PrivateBatchProver::new_from_files(&p1, &p2, &p3, a)))
        }
        19 => {
            let d = fx.config_dir("pbp", &json_cfg(cs[0], None, false));
            observe(|| (), |_| ok(PrivateBatchProver::new_from_binaries_dir(&d)))
        }
        20 => {
            let proof = fx.leaf_proof();
            let (leaf, _) = fx.leaf();
            observe(
                || (wormhole_public_batch_circuit_config(), leaf.common.clone(), proof.clone()),
                |(cfg, common, p)| ok(PublicBatchProver::new(cfg, common, &leaf.verifier_only, a, b, p)),
            )
        }
        // NB the tuple of the byte/file loaders is (num_leaf_proofs, num_private_batch_proofs)
        21 => observe(|| (), |_| ok(PublicBatchProver::new_from_bytes(&[], &[], &[], (a, b)))),
        22 => {
            let (p1, p2, p3) = fx.garbage_files();
            observe(|| (), |_| ok(PublicBatchProver::new_from_files(&p1, &p2, &p3, (a, b))))
        }
        23 => {
            let d = fx.config_dir("pubp", &json_cfg(cs[0], Some(cs[1]), false));
            observe(|| (), |_| ok(PublicBatchProver::new_from_binaries_dir(&d)))
        }
        24 => {
            // a verifier whose public-input count matches the (valid) inner_num_leaves, else the 29-PI one
            let data = if valid(cs[0]) && cs[0] != 1 { fake_circuit_with_pis(8 + 21 * a) } else { fake_circuit_with_pis(29) };
            observe(|| data.verifier_data(), |vd| ok(ProofPool::new(vd, a, b, PoolLimits::default())))
        }
        25 => {
            let out = fx.fresh_out("priv");
            let r = observe(|| (), |_| generate_private_batch_circuit_binaries(&out, a, false));
            created_means_heavy(r, &out)
        }
        26 => {
            let out = fx.fresh_out("pub");
            let r = observe(|| (), |_| generate_public_batch_circuit_binaries(&out, a, b));
            created_means_heavy(r, &out)
        }
        27 => {
            let out = fx.fresh_out("all1");
            let r = observe(|| (), |_| circuit_builder::generate_all_circuit_binaries(&out, false, a, None));
            created_means_heavy(r, &out)
        }
        28 => {
            let out = fx.fresh_out("all2");
            let r = observe(|| (), |_| circuit_builder::generate_all_circuit_binaries(&out, false, a, Some(b)));
            created_means_heavy(r, &out)
        }
        29 => {
            let (leaf, _) = fx.leaf();
            let vd = leaf.verifier_data();
            observe(|| (), |_| ok(agg_utils::canonical_private_batch_verifier_data(&vd, a)))
        }
        30 => {
            let vd = fx.pb29().verifier_data();
            observe(|| (), |_| ok(agg_utils::canonical_public_batch_verifier_data(&vd, a, b)))
        }
        31 => {
            let (leaf, _) = fx.leaf();
            let vd = leaf.verifier_data();
            observe(|| (), |_| ok(agg_utils::load_canonical_private_batch_verifier_data(&[], &[], &vd, a)))
        }
        32 => {
            let d = fx.config_dir("agg", &json_cfg(cs[0], Some(cs[1]), false));
            let addr = qp_wormhole_inputs::BytesDigest::default();
            observe(|| (), |_| ok_nodebug(wormhole_aggregator::aggregator::PublicBatchAggregator::new(&d, addr)))
        }
        _ => unreachable!(),
    }
}

/// an artifact builder that created its output directory before rejecting did work before validating
fn created_means_heavy(r: (Obs, u64, Duration), out: &Path) -> (Obs, u64, Duration) {
    if r.0 == Obs::RejectedCheap && out.exists() {
        (Obs::RejectedHeavy, r.1, r.2)
    } else {
        r
    }
}

/// A `ProofWithPublicInputs` of the verifier crate's type family (the only way to obtain one through public
/// APIs: deserialise a real canonical leaf proof); callers overwrite its public inputs.
fn verifier_side_leaf_proof() -> wormhole_verifier::ProofWithPublicInputs<wormhole_verifier::F, wormhole_verifier::C, { wormhole_verifier::D }> {
    thread_local! {
        static CACHE: RefCell<Option<(Vec<u8>, Vec<u8>, Vec<u8>)>> = RefCell::new(None);
    }
    let (vb, cb, pb) = CACHE.with(|c| {
        if c.borrow().is_none() {
            let leaf_vd = agg_utils::canonical_leaf_verifier_data();
            let vb = leaf_vd.verifier_only.to_bytes().unwrap();
            let cb = leaf_vd.common.to_bytes(&DefaultGateSerializer).unwrap();
            let inputs = CircuitInputs::test_inputs_0();
            let proof = wormhole_prover::build_fresh().commit(&inputs).unwrap().prove().unwrap();
            *c.borrow_mut() = Some((vb, cb, proof.to_bytes()));
        }
        c.borrow().clone().unwrap()
    });
    let ver = wormhole_verifier::WormholeVerifier::new_from_bytes(&vb, &cb).unwrap();
    wormhole_verifier::ProofWithPublicInputs::from_bytes(pb, &ver.circuit_data.common).unwrap()
}

// ------------------------------------------------------------------------------------------- child / parent

fn seg_counts(cs: &[u64]) -> Seg {
    cs.iter().map(|&c| c as i128).collect()
}

fn child(ep_id: u32) {
    quiet_panics();
    // an unvalidated huge count must fail (abort -> observed by the parent), not eat the machine
    unsafe {
        let lim = libc::rlimit { rlim_cur: 48 << 30, rlim_max: 48 << 30 };
        libc::setrlimit(libc::RLIMIT_AS, &lim);
    }
    let ep = EPS.iter().find(|e| e.id == ep_id).expect("unknown entry point");
    let mut fx = Fx::new(ep_id);
    let mut out = Out::new();
    // warm up the error path (first anyhow error of a process pays one-off initialisation)
    for _ in 0..3 {
        if let Err(e) = qp_wormhole_inputs::validate_proof_count(0, "warm-up") {
            let _ = is_count_error(&e);
        }
    }
    for cs in count_vectors(ep) {
        // entry points may print progress lines: keep them out of the case stream
        let (obs, bytes, dt) = with_stdout_silenced(|| run_ep(ep, &mut fx, &cs));
        out.case(2910, ep.name, &[vec![ep.id as i128], seg_counts(&cs)], &[obs.code()]);
        if obs != Obs::Accepted {
            out.note("reject-cost", &format!("{} {:?} bytes={} us={}", ep.name, cs, bytes, dt.as_micros()));
        }
        out.flush();
    }
}

/// run `f` with the process's stdout pointing at /dev/null (the repo's `save` prints a progress line)
fn with_stdout_silenced<T>(f: impl FnOnce() -> T) -> T {
    use std::io::Write;
    std::io::stdout().flush().unwrap();
    unsafe {
        let saved = libc::dup(1);
        let null = libc::open(b"/dev/null\0".as_ptr() as *const libc::c_char, libc::O_WRONLY);
        libc::dup2(null, 1);
        let r = f();
        std::io::stdout().flush().unwrap();
        libc::dup2(saved, 1);
        libc::close(null);
        libc::close(saved);
        r
    }
}

fn config_roundtrip(out: &mut Out) {
    let base = std::env::temp_dir().join(format!("verif-c29-cfg-{}", std::process::id()));
    let _ = std::fs::remove_dir_all(&base);
    let dir = base.join("bins");
    let enc = |c: &CircuitBinsConfig| -> Vec<i128> {
        let mut v = vec![1, c.num_leaf_proofs as i128];
        if let Some(b) = c.num_private_batch_proofs {
            v.push(b as i128);
        }
        v
    };
    let seg_pb = |pb: Option<u64>| -> Seg { pb.map(|b| vec![b as i128]).unwrap_or_default() };
    // every valid pair x {saved by the repo (current key), same text with the legacy key}; exhaustive
    let mut pairs: Vec<(u64, Option<u64>)> = vec![];
    for l in 1..=64u64 {
        pairs.push((l, None));
        for b in 1..=64u64 {
            pairs.push((l, Some(b)));
        }
    }
    // invalid pairs: must be rejected by new (nothing to save) and by load of a hand-written file
    let bad = [0u64, 65, 66, 1 << 32, u64::MAX / 21 + 1, u64::MAX];
    let mut invalid: Vec<(u64, Option<u64>)> = vec![];
    for &x in &bad {
        invalid.push((x, None));
        invalid.push((x, Some(1)));
        invalid.push((1, Some(x)));
        invalid.push((64, Some(x)));
        invalid.push((x, Some(x)));
    }
    for (l, pb) in pairs.iter().chain(invalid.iter()).copied() {
        let pbu = pb.map(|b| b as usize);
        // variant 0: new + save + load
        let r0 = no_panic(|| -> anyhow::Result<CircuitBinsConfig> {
            let c = CircuitBinsConfig::new(l as usize, pbu)?;
            with_stdout_silenced(|| c.save(&dir))?;
            CircuitBinsConfig::load(&dir)
        });
        let o0 = match &r0 {
            None => PANIC.to_vec(),
            Some(Ok(c)) => enc(c),
            Some(Err(_)) => vec![0],
        };
        out.case(2911, "cfg-save-load", &[vec![l as i128], seg_pb(pb), vec![0]], &o0);
        // variant 1/2: the text serde_json::to_string_pretty produces for the struct, with the current / the legacy key,
        // written through commit_artifact_set (what `save` does), loaded back
        for (variant, legacy) in [(1, false), (2, true)] {
            let text = {
                let c = CircuitBinsConfig { num_leaf_proofs: l as usize, num_private_batch_proofs: pbu };
                let t = serde_json::to_string_pretty(&c).unwrap();
                if legacy { t.replace("num_private_batch_proofs", "num_layer0_proofs") } else { t }
            };
            let r = no_panic(|| -> anyhow::Result<CircuitBinsConfig> {
                agg_utils::commit_artifact_set(&dir, &[("config.json", text.clone().into_bytes())], &[])?;
                CircuitBinsConfig::load(&dir)
            });
            let o = match &r {
                None => PANIC.to_vec(),
                Some(Ok(c)) => enc(c),
                Some(Err(_)) => vec![0],
            };
            out.case(2911, if legacy { "cfg-legacy-key" } else { "cfg-current-key" }, &[vec![l as i128], seg_pb(pb), vec![variant]], &o);
        }
    }
    let _ = std::fs::remove_dir_all(&base);
}

fn parent() {
    use std::io::Write;
    let exe = std::env::current_exe().unwrap();
    // children in parallel, output relayed in entry-point order
    let results: Vec<(u32, String, bool)> = std::thread::scope(|s| {
        let hs: Vec<_> = EPS
            .iter()
            .map(|ep| {
                let exe = exe.clone();
                s.spawn(move || {
                    let o = std::process::Command::new(&exe).arg("--ep").arg(ep.id.to_string()).output().unwrap();
                    (ep.id, String::from_utf8_lossy(&o.stdout).into_owned(), o.status.success())
                })
            })
            .collect();
        hs.into_iter().map(|h| h.join().unwrap()).collect()
    });
    let stdout = std::io::stdout();
    let mut extra = Out::new();
    {
        let mut w = stdout.lock();
        for (id, text, _) in &results {
            let _ = id;
            w.write_all(text.as_bytes()).unwrap();
        }
        w.flush().unwrap();
    }
    for (id, text, success) in &results {
        if *success {
            continue;
        }
        // the child died: the first count vector it did not report is the one that killed it
        let ep = EPS.iter().find(|e| e.id == *id).unwrap();
        let done = text.lines().filter(|l| l.starts_with("2910\t")).count();
        let all = count_vectors(ep);
        if let Some(cs) = all.get(done) {
            extra.case(2910, ep.name, &[vec![ep.id as i128], seg_counts(cs)], &PANIC);
        }
        extra.note("child-died", ep.name);
    }
    config_roundtrip(&mut extra);
    extra.flush();
}

fn main() {
    let args: Vec<String> = std::env::args().collect();
    if args.len() == 3 && args[1] == "--ep" {
        child(args[2].parse().unwrap());
    } else {
        quiet_panics();
        parent();
    }
}
