//! Prints every *public* constant the Coq development pins, as `NAME<TAB>decimal`.
//! (Private constants are parsed out of the source text by lib/gen_constants.py.)
use wormhole_aggregator::private_batch::circuit::constants as pr;
use wormhole_aggregator::public_batch::circuit::constants as pu;
use zk_circuits_common as cm;

fn main() {
    macro_rules! c {
        ($name:expr, $v:expr) => {
            println!("{}\t{}", $name, ($v) as u128);
        };
    }
    c!("MAX_PROOF_COUNT", qp_wormhole_inputs::MAX_PROOF_COUNT);
    c!("AGG_MAX_PROOF_COUNT", wormhole_aggregator::MAX_PROOF_COUNT);
    c!("LEAF_PI_LEN", qp_wormhole_inputs::PUBLIC_INPUTS_FELTS_LEN);
    c!("DIGEST_BYTES_LEN", qp_wormhole_inputs::DIGEST_BYTES_LEN);
    c!("MIN_LEAF_SECURITY_BITS", qp_wormhole_inputs::MIN_LEAF_SECURITY_BITS);
    c!("IDX_ASSET_ID", qp_wormhole_inputs::ASSET_ID_INDEX);
    c!("IDX_OUTPUT_AMOUNT_1", qp_wormhole_inputs::OUTPUT_AMOUNT_1_INDEX);
    c!("IDX_OUTPUT_AMOUNT_2", qp_wormhole_inputs::OUTPUT_AMOUNT_2_INDEX);
    c!("IDX_VOLUME_FEE_BPS", qp_wormhole_inputs::VOLUME_FEE_BPS_INDEX);
    c!("IDX_NULLIFIER_START", qp_wormhole_inputs::NULLIFIER_START_INDEX);
    c!("IDX_NULLIFIER_END", qp_wormhole_inputs::NULLIFIER_END_INDEX);
    c!("IDX_EXIT_1_START", qp_wormhole_inputs::EXIT_ACCOUNT_1_START_INDEX);
    c!("IDX_EXIT_1_END", qp_wormhole_inputs::EXIT_ACCOUNT_1_END_INDEX);
    c!("IDX_EXIT_2_START", qp_wormhole_inputs::EXIT_ACCOUNT_2_START_INDEX);
    c!("IDX_EXIT_2_END", qp_wormhole_inputs::EXIT_ACCOUNT_2_END_INDEX);
    c!("IDX_BLOCK_HASH_START", qp_wormhole_inputs::BLOCK_HASH_START_INDEX);
    c!("IDX_BLOCK_HASH_END", qp_wormhole_inputs::BLOCK_HASH_END_INDEX);
    c!("IDX_BLOCK_NUMBER", qp_wormhole_inputs::BLOCK_NUMBER_INDEX);
    c!("PUBLIC_HEADER_LEN", qp_wormhole_inputs::public_batch_pi::HEADER_LEN);
    c!("PUBLIC_EXIT_SLOT_LEN", qp_wormhole_inputs::public_batch_pi::EXIT_SLOT_LEN);
    c!("PUBLIC_AGGREGATOR_ADDRESS_LEN", qp_wormhole_inputs::public_batch_pi::AGGREGATOR_ADDRESS_LEN);
    // private-batch circuit layout
    c!("PR_LEAF_PI_LEN", pr::LEAF_PI_LEN);
    c!("PR_ASSET_ID_START", pr::ASSET_ID_START);
    c!("PR_OUTPUT_AMOUNT_1_START", pr::OUTPUT_AMOUNT_1_START);
    c!("PR_OUTPUT_AMOUNT_2_START", pr::OUTPUT_AMOUNT_2_START);
    c!("PR_VOLUME_FEE_BPS_START", pr::VOLUME_FEE_BPS_START);
    c!("PR_NULLIFIER_START", pr::NULLIFIER_START);
    c!("PR_EXIT_1_START", pr::EXIT_1_START);
    c!("PR_EXIT_2_START", pr::EXIT_2_START);
    c!("PR_BLOCK_HASH_START", pr::BLOCK_HASH_START);
    c!("PR_BLOCK_NUMBER_START", pr::BLOCK_NUMBER_START);
    c!("PR_OUT_NUM_EXIT_SLOTS_OFFSET", pr::aggregated_output::NUM_EXIT_SLOTS_OFFSET);
    c!("PR_OUT_ASSET_ID_OFFSET", pr::aggregated_output::ASSET_ID_OFFSET);
    c!("PR_OUT_VOLUME_FEE_BPS_OFFSET", pr::aggregated_output::VOLUME_FEE_BPS_OFFSET);
    c!("PR_OUT_BLOCK_HASH_OFFSET", pr::aggregated_output::BLOCK_HASH_OFFSET);
    c!("PR_OUT_BLOCK_NUMBER_OFFSET", pr::aggregated_output::BLOCK_NUMBER_OFFSET);
    c!("PR_OUT_HEADER_LEN", pr::aggregated_output::HEADER_LEN);
    c!("PR_OUT_EXIT_SLOT_LEN", pr::aggregated_output::EXIT_SLOT_LEN);
    // public-batch circuit layout
    c!("PU_AGGREGATOR_ADDRESS_LEN", pu::AGGREGATOR_ADDRESS_LEN);
    c!("PU_AGGREGATOR_ADDRESS_START", pu::AGGREGATOR_ADDRESS_START);
    c!("PU_ASSET_ID_START", pu::ASSET_ID_START);
    c!("PU_VOLUME_FEE_BPS_START", pu::VOLUME_FEE_BPS_START);
    c!("PU_BLOCK_HASH_START", pu::BLOCK_HASH_START);
    c!("PU_BLOCK_NUMBER_START", pu::BLOCK_NUMBER_START);
    c!("PU_TOTAL_EXIT_SLOTS_START", pu::TOTAL_EXIT_SLOTS_START);
    c!("PU_HEADER_LEN", pu::PUBLIC_BATCH_HEADER_LEN);
    // common
    c!("MAX_STORAGE_PROOF_NODES", cm::circuit::MAX_STORAGE_PROOF_NODES);
    c!("MAX_STORAGE_PROOF_NODE_HEX_LEN", cm::circuit::MAX_STORAGE_PROOF_NODE_HEX_LEN);
    c!("MAX_STORAGE_PROOF_HEX_BYTES", cm::circuit::MAX_STORAGE_PROOF_HEX_BYTES);
    c!("MAX_MERKLE_INDICES", cm::circuit::MAX_MERKLE_INDICES);
    c!("MAX_STATE_ROOT_HEX_LEN", cm::circuit::MAX_STATE_ROOT_HEX_LEN);
    c!("MAX_TRANSFER_PROOF_JSON_BYTES", cm::circuit::MAX_TRANSFER_PROOF_JSON_BYTES);
    c!("MIN_NUM_WIRES", cm::circuit::MIN_NUM_WIRES);
    c!("MIN_NUM_ROUTED_WIRES", cm::circuit::MIN_NUM_ROUTED_WIRES);
    c!("MIN_MAX_QUOTIENT_DEGREE_FACTOR", cm::circuit::MIN_MAX_QUOTIENT_DEGREE_FACTOR);
    c!("MAX_RATE_BITS", cm::circuit::MAX_RATE_BITS);
    c!("MAX_CAP_HEIGHT", cm::circuit::MAX_CAP_HEIGHT);
    c!("MAX_SERIALIZED_BYTES", cm::serialization::MAX_SERIALIZED_BYTES);
    c!("MAX_SERIALIZED_FELTS", cm::serialization::MAX_SERIALIZED_FELTS);
    c!("BYTES_PER_FELT", cm::utils::BYTES_PER_FELT);
    c!("MERKLE_ARITY", cm::zk_merkle::ARITY);
    c!("MERKLE_MAX_DEPTH", cm::zk_merkle::MAX_DEPTH);
    c!("MERKLE_SIBLINGS_PER_LEVEL", cm::zk_merkle::SIBLINGS_PER_LEVEL);
    c!("MAX_ARTIFACT_FILE_BYTES", wormhole_aggregator::common::utils::MAX_ARTIFACT_FILE_BYTES);
    c!("MAX_VERIFIER_ARTIFACT_BYTES", wormhole_verifier::MAX_VERIFIER_ARTIFACT_BYTES);
    c!("DIGEST_LOGS_SIZE", wormhole_circuit::block_header::header::DIGEST_LOGS_SIZE);
    // list-valued constants: NAME<TAB>[v1;v2;...]
    {
        use plonky2::field::types::PrimeField64;
        let l = |name: &str, v: Vec<u64>| println!("{}\t[{}]", name, v.iter().map(|x| x.to_string()).collect::<Vec<_>>().join(";"));
        l("NULLIFIER_SALT_FELTS", cm::utils::string_to_felts(wormhole_circuit::nullifier::NULLIFIER_SALT).unwrap().iter().map(|f| f.to_canonical_u64()).collect());
        l("UNSPENDABLE_SALT_FELTS", cm::utils::string_to_felts(wormhole_circuit::unspendable_account::UNSPENDABLE_SALT).unwrap().iter().map(|f| f.to_canonical_u64()).collect());
    }
    c!("FIELD_ORDER", <plonky2::field::goldilocks_field::GoldilocksField as plonky2::field::types::Field64>::ORDER);
    // encoding group (C25 / C26)
    c!("AMOUNT_QUANTIZATION_FACTOR", cm::serialization::AMOUNT_QUANTIZATION_FACTOR);
    c!("FELTS_PER_U64", cm::serialization::FELTS_PER_U64);
    c!("FELTS_PER_U128", cm::serialization::FELTS_PER_U128);
    c!("POSEIDON2_OUTPUT", cm::serialization::POSEIDON2_OUTPUT);
    c!("POSEIDON_CORE_P", qp_poseidon_core::goldilocks::P);
    c!("MERKLE_CHILDREN_BYTES", cm::zk_merkle::CHILDREN_BYTES);
    // config group (C28): field values of the canonical circuit configs
    for (pfx, cfg) in [
        ("CFG_STD", plonky2::plonk::circuit_data::CircuitConfig::standard_recursion_config()),
        ("CFG_STDZK", plonky2::plonk::circuit_data::CircuitConfig::standard_recursion_zk_config()),
        ("CFG_LEAF", cm::circuit::wormhole_leaf_circuit_config()),
        ("CFG_PRIV", cm::circuit::wormhole_private_batch_circuit_config()),
        ("CFG_PUB", cm::circuit::wormhole_public_batch_circuit_config()),
    ] {
        c!(format!("{pfx}_NUM_WIRES"), cfg.num_wires);
        c!(format!("{pfx}_NUM_ROUTED_WIRES"), cfg.num_routed_wires);
        c!(format!("{pfx}_SECURITY_BITS"), cfg.security_bits);
        c!(format!("{pfx}_NUM_CHALLENGES"), cfg.num_challenges);
        c!(format!("{pfx}_ZERO_KNOWLEDGE"), cfg.zero_knowledge);
        c!(format!("{pfx}_MAX_QUOTIENT_DEGREE_FACTOR"), cfg.max_quotient_degree_factor);
        c!(format!("{pfx}_RATE_BITS"), cfg.fri_config.rate_bits);
        c!(format!("{pfx}_CAP_HEIGHT"), cfg.fri_config.cap_height);
        c!(format!("{pfx}_NUM_QUERY_ROUNDS"), cfg.fri_config.num_query_rounds);
    }
    // pool (C19-C22): the private-batch PI layout functions the pool parses with, at two points each
    c!("POOL_PI_LEN_1", pr::aggregated_output::pi_len(1));
    c!("POOL_PI_LEN_2", pr::aggregated_output::pi_len(2));
    c!("POOL_NULLIFIERS_START_1", pr::aggregated_output::nullifiers_start(1));
    c!("POOL_NULLIFIERS_START_2", pr::aggregated_output::nullifiers_start(2));
    c!("POOL_EXIT_SLOTS_COUNT_1", pr::aggregated_output::exit_slots_count(1));
    c!("POOL_EXIT_SLOTS_COUNT_2", pr::aggregated_output::exit_slots_count(2));
    c!("POOL_NULLIFIERS_COUNT_1", pr::aggregated_output::nullifiers_count(1));
    c!("POOL_NULLIFIERS_COUNT_2", pr::aggregated_output::nullifiers_count(2));
    c!("POOL_EXIT_SLOTS_START", pr::aggregated_output::exit_slots_start());
    // privacy group (C33): capacities of the secret-bearing buffers
    c!("NULLIFIER_SALT_NUM_TARGETS", wormhole_circuit::nullifier::SALT_NUM_TARGETS);
    c!("NULLIFIER_SECRET_NUM_TARGETS", wormhole_circuit::nullifier::SECRET_NUM_TARGETS);
    c!("NULLIFIER_TRANSFER_COUNT_NUM_TARGETS", wormhole_circuit::nullifier::TRANSFER_COUNT_NUM_TARGETS);
    c!("NULLIFIER_SIZE_FELTS", wormhole_circuit::nullifier::NULLIFIER_SIZE_FELTS);
    c!("NULLIFIER_SECRET_BYTES_LEN", wormhole_circuit::nullifier::SECRET_BYTES_LEN);
    c!("NULLIFIER_SALT_BYTES_LEN", wormhole_circuit::nullifier::SALT_BYTES_LEN);
    c!("UNSPENDABLE_PREIMAGE_NUM_TARGETS", wormhole_circuit::unspendable_account::PREIMAGE_NUM_TARGETS);
    c!("UNSPENDABLE_ACCOUNT_ID_NUM_TARGETS", wormhole_circuit::unspendable_account::ACCOUNT_ID_NUM_TARGETS);
    c!("UNSPENDABLE_SECRET_NUM_TARGETS", wormhole_circuit::unspendable_account::SECRET_NUM_TARGETS);
    c!("POSEIDON2_SPONGE_RATE", <plonky2::hash::poseidon2::Poseidon2Permutation<plonky2::field::goldilocks_field::GoldilocksField> as plonky2::hash::hashing::PlonkyPermutation<plonky2::field::goldilocks_field::GoldilocksField>>::RATE);
}
