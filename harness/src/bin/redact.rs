fn main() {}
