//! C32: Debug redaction, implementation side.
//!
//! For random and structured private values and random public values, builds every secret-bearing type of
//! the wormhole circuit / prover through its real constructors and takes `format!("{:?}")` and
//! `format!("{:#?}")` of it.
//!
//!   default mode : prints one case per (type, constructor, mode): all fields (public AND private) as the
//!                  segments, the bytes of the real string as the output. The runner diffs them against the
//!                  Coq model's rendering (coq/Sys/DebugRender.v), which is a function of the public fields only.
//!   --check      : no cases; on the same value stream (and more of it)
//!                  (b) a twin with the same public fields and every private field re-drawn must render
//!                      byte-identically,
//!                  (c) no rendering of any private value (decimal, hex, byte lists, felt encodings) may occur
//!                      in any output.
//!                  Failures are `#violation` note lines, counts are `#needles`, `#pairs`, ...
#![allow(clippy::all)]
use std::collections::{HashMap, HashSet};
use std::fmt::Debug;

use plonky2::field::goldilocks_field::GoldilocksField as F;
use plonky2::field::types::PrimeField64;
use verif_harness::*;
use wormhole_circuit::block_header::header::{HeaderInputs, DIGEST_LOGS_SIZE};
use wormhole_circuit::block_header::BlockHeader;
use wormhole_circuit::inputs::{CircuitInputs, PrivateCircuitInputs, PublicCircuitInputs};
use wormhole_circuit::nullifier::Nullifier;
use wormhole_circuit::sensitive::Secret;
use wormhole_circuit::unspendable_account::UnspendableAccount;
use wormhole_circuit::zk_merkle_proof::{ZkLeafData, ZkMerkleProof, ZkMerkleProofData};
use zk_circuits_common::utils::{bytes_to_felts, digest_to_bytes, u64_to_felts, BytesDigest};
use zk_circuits_common::zk_merkle::MAX_DEPTH;

type B32 = [u8; 32];

// ------------------------------------------------------------------------------------------------ values

#[derive(Clone)]
struct Publ {
    asset_id: u32,
    out1: u32,
    out2: u32,
    fee: u32,
    block_number: u32,
    nullifier: B32,
    exit1: B32,
    exit2: B32,
    block_hash: B32,
    parent_hash: B32,
    state_root: B32,
    extrinsics_root: B32,
    /// `[u8; 32]` in PrivateCircuitInputs: may be non-canonical (then HeaderInputs cannot be built)
    zk_tree_root: B32,
    /// the `depth` field of a ZkMerkleProofData built as a struct literal
    literal_depth: usize,
    literal_dummy: bool,
}

#[derive(Clone)]
struct Priv {
    tag: &'static str,
    secret: B32,
    transfer_count: u64,
    unspendable: B32,
    digest: [u8; DIGEST_LOGS_SIZE],
    input_amount: u32,
    siblings: Vec<[B32; 3]>,
    positions: Vec<u8>,
}

fn canonical_limbs(b: &B32) -> bool {
    digest_limbs(b).iter().all(|&l| l < P)
}

fn pub_scalar(r: &mut Rng) -> u32 {
    match r.below(4) {
        0 => r.below(1 << 32) as u32,
        1 => *r.pick(&[0u32, 1, 10, 100, 10000, u32::MAX, u32::MAX - 1, 0x8000_0000]),
        2 => r.below(100) as u32,
        _ => r.below(1_000_000) as u32,
    }
}

fn limb_boundary(r: &mut Rng) -> u64 {
    *r.pick(&[P - 1, P - 2, 1u64 << 32, 0xFFFF_FFFF, 1 << 63, 0xFFFF_FFFE_FFFF_FFFF, 1, 0x0100_0000_0000_0000])
}

/// a canonical 32-byte digest (every little-endian 8-byte limb < p)
fn pub_digest(r: &mut Rng, structured: bool) -> B32 {
    match if structured { r.below(6) } else { 9 } {
        0 => [0u8; 32],
        1 => {
            let b = 1 + r.below(0xFE) as u8;
            [b; 32]
        }
        2 => {
            let s = r.below(200) as u8;
            let mut o = [0u8; 32];
            for i in 0..32 {
                o[i] = s.wrapping_add(i as u8);
            }
            if canonical_limbs(&o) {
                o
            } else {
                [0x11; 32]
            }
        }
        3 => limbs_digest(&[limb_boundary(r), limb_boundary(r), limb_boundary(r), limb_boundary(r)]),
        _ => limbs_digest(&[r.next() % P, r.next() % P, r.next() % P, r.next() % P]),
    }
}

/// `plain`: no boundary values or zero digests on the public side (used when the private side is made of
/// boundary values, which otherwise could not be told apart from public ones such as u32::MAX)
fn gen_public(r: &mut Rng, plain: bool) -> Publ {
    let dummy = !plain && r.chance(1, 10);
    // two thirds of the public sides are plain random digests (no pattern a structured private value could share)
    let st = !plain && r.chance(1, 3);
    let pub_scalar = |r: &mut Rng| if plain { 1000 + r.below(1 << 30) as u32 } else { pub_scalar(r) };
    let mut p = Publ {
        asset_id: pub_scalar(r),
        out1: pub_scalar(r),
        out2: pub_scalar(r),
        fee: pub_scalar(r),
        block_number: pub_scalar(r),
        nullifier: pub_digest(r, st),
        exit1: pub_digest(r, st),
        exit2: pub_digest(r, st),
        block_hash: pub_digest(r, st),
        parent_hash: pub_digest(r, st),
        state_root: pub_digest(r, st),
        extrinsics_root: pub_digest(r, st),
        zk_tree_root: pub_digest(r, st),
        literal_depth: match r.below(3) {
            0 => r.below(MAX_DEPTH as u64 + 1) as usize,
            1 => r.below(1000) as usize,
            _ => r.next() as usize,
        },
        literal_dummy: r.chance(1, 2),
    };
    if dummy {
        p.block_hash = [0u8; 32];
        p.out1 = 0;
        p.out2 = 0;
    }
    if !plain && r.chance(1, 12) {
        // non-canonical root bytes: fine for PrivateCircuitInputs / ZkMerkleProofData, rejected by HeaderInputs
        p.zk_tree_root = limbs_digest(&[P + r.below(1000), u64::MAX, r.next(), P]);
    }
    p
}

const PRIV_TAGS: [&str; 6] = ["random", "allsame", "ascii", "counting", "boundary", "small"];

fn priv_bytes<const N: usize>(r: &mut Rng, tag: &str, canonical: bool) -> [u8; N] {
    let mut o = [0u8; N];
    match tag {
        "allsame" => {
            // 0xAB.. style; 0xFF would make a non-canonical limb
            let b = *r.pick(&[0xABu8, 0xCD, 0xEE, 0x5A, 0x7F, 0x80, 0x01, 0xFE]);
            o = [b; N];
        }
        "ascii" => {
            let text = *r.pick(&[
                &b"correct horse battery staple / wormhole spend secret #"[..],
                &b"SECRET-KEY-DO-NOT-LOG-0123456789-abcdefghijklmnopqrstuvwxyz"[..],
                &b"deposit:alice->unspendable;transfer_count=;amount="[..],
            ]);
            let off = r.below(text.len() as u64) as usize;
            for i in 0..N {
                o[i] = text[(off + i) % text.len()];
            }
        }
        "counting" => {
            let s = r.below(256) as u8;
            let step = *r.pick(&[1u8, 3, 7, 255]);
            for i in 0..N {
                o[i] = s.wrapping_add(step.wrapping_mul(i as u8));
            }
        }
        "boundary" => {
            for c in 0..(N + 7) / 8 {
                let l = r
                    .pick(&[P - 1, P - 2, 0xFFFF_FFFE_FFFF_FFFF, (1u64 << 63) | 1, 0x7FFF_FFFF_FFFF_FFFF, 0xFFFF_FFFF_0000_0000 - 1, 0x0101_0101_0101_0101])
                    .to_le_bytes();
                for k in 0..8 {
                    if c * 8 + k < N {
                        o[c * 8 + k] = l[k];
                    }
                }
            }
        }
        _ => {
            for i in 0..N {
                o[i] = r.next() as u8;
            }
        }
    }
    if canonical && N == 32 {
        // clamp every limb below p (keeps the pattern except in the top bytes of an offending limb)
        for c in 0..4 {
            let mut l = u64::from_le_bytes(o[c * 8..c * 8 + 8].try_into().unwrap());
            if l >= P {
                l -= P;
                l |= 0x0101_0101_0000_0000;
                o[c * 8..c * 8 + 8].copy_from_slice(&l.to_le_bytes());
            }
        }
    }
    o
}

fn gen_private(r: &mut Rng, tag: &'static str, depth: usize) -> Priv {
    let (tc, amt) = match tag {
        // realistic small values: too short to be searched for, still covered by the exact diff and the twins
        "small" => (r.below(1000), r.below(10000) as u32),
        "boundary" => (
            *r.pick(&[u64::MAX, u64::MAX - 1, 1 << 63, 1 << 32, (1 << 32) + 1, P, P - 1, 0xFFFF_FFFF_0000_0000, 0x1_0000_0000 - 1 + (1 << 40)]),
            *r.pick(&[u32::MAX, u32::MAX - 1, 0x8000_0000, 0x7FFF_FFFF, 1 << 20, 0x0100_0000]),
        ),
        "allsame" => {
            let b = *r.pick(&[0xABu64, 0xCD, 0xEE, 0x5A, 0x77, 0x99]);
            (b * 0x0101_0101_0101_0101, (*r.pick(&[0xCDu64, 0xAB, 0x5A, 0x77, 0x99, 0xEE]) * 0x0101_0101) as u32)
        }
        "counting" => (*r.pick(&[0x0123_4567_89AB_CDEFu64, 0xFEDC_BA98_7654_3210, 1234567890123456789, 9876543210]), *r.pick(&[0x1234_5678u32, 0x8765_4321, 1234567890, 987654321])),
        _ => ((1 << 20) + r.next() % (u64::MAX - (1 << 20)), (1 << 20) + (r.next() % ((1u64 << 32) - (1 << 20))) as u32),
    };
    let btag = if tag == "small" { "random" } else { tag };
    let mut siblings = vec![];
    for _ in 0..depth {
        // siblings are raw [u8; 32]: occasionally non-canonical
        let canon = !r.chance(1, 10);
        siblings.push([priv_bytes::<32>(r, btag, canon), priv_bytes::<32>(r, btag, canon), priv_bytes::<32>(r, btag, canon)]);
    }
    Priv {
        tag,
        secret: priv_bytes::<32>(r, btag, true),
        transfer_count: tc,
        unspendable: priv_bytes::<32>(r, btag, true),
        digest: priv_bytes::<DIGEST_LOGS_SIZE>(r, btag, false),
        input_amount: amt,
        siblings,
        positions: (0..depth).map(|_| r.below(4) as u8).collect(),
    }
}

fn bd(b: &B32) -> BytesDigest {
    BytesDigest::try_from(*b).expect("canonical digest")
}

fn mk_public(p: &Publ) -> PublicCircuitInputs {
    PublicCircuitInputs {
        asset_id: p.asset_id,
        output_amount_1: p.out1,
        output_amount_2: p.out2,
        volume_fee_bps: p.fee,
        nullifier: bd(&p.nullifier),
        exit_account_1: bd(&p.exit1),
        exit_account_2: bd(&p.exit2),
        block_hash: bd(&p.block_hash),
        block_number: p.block_number,
    }
}
fn mk_private(p: &Publ, v: &Priv) -> PrivateCircuitInputs {
    PrivateCircuitInputs {
        secret: Secret::from(bd(&v.secret)),
        transfer_count: v.transfer_count,
        unspendable_account: bd(&v.unspendable),
        parent_hash: bd(&p.parent_hash),
        state_root: bd(&p.state_root),
        extrinsics_root: bd(&p.extrinsics_root),
        digest: v.digest,
        input_amount: v.input_amount,
        zk_tree_root: p.zk_tree_root,
        zk_merkle_siblings: v.siblings.clone(),
        zk_merkle_positions: v.positions.clone(),
    }
}
fn mk_inputs(p: &Publ, v: &Priv) -> CircuitInputs {
    CircuitInputs { public: mk_public(p), private: mk_private(p, v) }
}

// ------------------------------------------------------------------------------------------------ segments

fn sf(fs: &[F]) -> Seg {
    fs.iter().map(|f| f.0 as i128).collect()
}
fn s1(x: u64) -> Seg {
    vec![x as i128]
}
fn flat_sib_bytes(s: &[[B32; 3]]) -> Seg {
    s.iter().flat_map(|l| l.iter()).flat_map(|h| h.iter()).map(|&b| b as i128).collect()
}
fn flat_sib_felts(s: &[[[F; 4]; 3]]) -> Seg {
    s.iter().flat_map(|l| l.iter()).flat_map(|h| h.iter()).map(|f| f.0 as i128).collect()
}
fn segs_public(p: &PublicCircuitInputs) -> Vec<Seg> {
    vec![
        vec![p.asset_id as i128, p.output_amount_1 as i128, p.output_amount_2 as i128, p.volume_fee_bps as i128, p.block_number as i128],
        seg_bytes(&*p.nullifier),
        seg_bytes(&*p.exit_account_1),
        seg_bytes(&*p.exit_account_2),
        seg_bytes(&*p.block_hash),
    ]
}
fn segs_private(v: &PrivateCircuitInputs) -> Vec<Seg> {
    vec![
        seg_bytes(v.secret.as_bytes()),
        vec![v.transfer_count as i128, v.input_amount as i128],
        seg_bytes(&*v.unspendable_account),
        seg_bytes(&*v.parent_hash),
        seg_bytes(&*v.state_root),
        seg_bytes(&*v.extrinsics_root),
        seg_bytes(&v.digest),
        seg_bytes(&v.zk_tree_root),
        flat_sib_bytes(&v.zk_merkle_siblings),
        seg_bytes(&v.zk_merkle_positions),
    ]
}
fn segs_leaf(l: &ZkLeafData) -> Vec<Seg> {
    vec![sf(&l.to_account), sf(&l.transfer_count), sf(&[l.asset_id, l.input_amount, l.output_amount_1, l.output_amount_2, l.volume_fee_bps])]
}
fn segs_merkle(m: &ZkMerkleProofData) -> Vec<Seg> {
    let mut s = vec![sf(&m.root_hash), vec![m.depth as i128, m.is_not_dummy as i128], flat_sib_felts(&m.siblings), seg_bytes(&m.positions)];
    s.extend(segs_leaf(&m.leaf));
    s
}
fn segs_header(h: &HeaderInputs) -> Vec<Seg> {
    vec![sf(&h.parent_hash), sf(&[h.block_number]), sf(&h.state_root), sf(&h.extrinsics_root), sf(&h.zk_tree_root), sf(&h.digest)]
}

/// one rendered object: what was rendered, the model inputs, the two real strings
struct Rendered {
    fid: u32,
    what: &'static str,
    segs: Vec<Seg>,
    compact: String,
    pretty: String,
}
fn rendered(fid: u32, what: &'static str, segs: Vec<Seg>, v: &dyn Debug) -> Rendered {
    Rendered { fid, what, segs, compact: format!("{:?}", v), pretty: format!("{:#?}", v) }
}

/// Every secret-bearing object that can be built from (p, v), through the real constructors.
/// `with_prover`: also build and commit a WormholeProver (tens of ms).
fn build_all(p: &Publ, v: &Priv, with_prover: bool, skipped: &mut HashMap<&'static str, u64>) -> Vec<Rendered> {
    let mut o = vec![];
    let ci = mk_inputs(p, v);
    o.push(rendered(3201, "PublicCircuitInputs", segs_public(&ci.public), &ci.public));
    o.push(rendered(3202, "PrivateCircuitInputs", segs_private(&ci.private), &ci.private));
    let mut s = segs_public(&ci.public);
    s.extend(segs_private(&ci.private));
    o.push(rendered(3203, "CircuitInputs", s, &ci));

    // Nullifier: `transfer_count` is a private field, the segment is what went in (u64_to_felts)
    let tcf = u64_to_felts(v.transfer_count);
    let n = Nullifier::new(bd(&p.nullifier), bd(&v.secret), v.transfer_count);
    o.push(rendered(3204, "Nullifier::new", vec![sf(&n.hash), seg_bytes(n.secret.as_bytes()), sf(&tcf)], &n));
    let n = Nullifier::from(&ci);
    o.push(rendered(3204, "Nullifier::from(&CircuitInputs)", vec![sf(&n.hash), seg_bytes(n.secret.as_bytes()), sf(&tcf)], &n));
    let n = Nullifier::from_preimage(bd(&v.secret), v.transfer_count);
    o.push(rendered(3204, "Nullifier::from_preimage", vec![sf(&n.hash), seg_bytes(n.secret.as_bytes()), sf(&tcf)], &n));

    let u = UnspendableAccount::new(bd(&v.unspendable), bd(&v.secret));
    o.push(rendered(3205, "UnspendableAccount::new", vec![sf(&u.account_id), seg_bytes(u.secret.as_bytes())], &u));
    let u = UnspendableAccount::from_secret(bd(&v.secret));
    o.push(rendered(3205, "UnspendableAccount::from_secret", vec![sf(&u.account_id), seg_bytes(u.secret.as_bytes())], &u));
    let u = UnspendableAccount::from(&ci);
    o.push(rendered(3205, "UnspendableAccount::from(&CircuitInputs)", vec![sf(&u.account_id), seg_bytes(u.secret.as_bytes())], &u));

    let leaf = ZkLeafData::new(v.unspendable, v.transfer_count, p.asset_id, v.input_amount, p.out1, p.out2, p.fee);
    o.push(rendered(3206, "ZkLeafData::new", segs_leaf(&leaf), &leaf));

    match ZkMerkleProofData::try_from(&ci) {
        Ok(m) => o.push(rendered(3207, "ZkMerkleProofData::try_from(&CircuitInputs)", segs_merkle(&m), &m)),
        Err(_) => *skipped.entry("ZkMerkleProofData::try_from Err").or_default() += 1,
    }
    let m = ZkMerkleProofData::new(p.zk_tree_root, v.siblings.clone(), v.positions.clone(), leaf.clone(), !p.literal_dummy);
    o.push(rendered(3207, "ZkMerkleProofData::new", segs_merkle(&m), &m));
    // all fields are pub: a literal whose `depth` is unrelated to the (private) path length
    let mut m = m;
    m.depth = p.literal_depth;
    m.positions.push((v.transfer_count % 4) as u8);
    o.push(rendered(3207, "ZkMerkleProofData{..}", segs_merkle(&m), &m));

    match HeaderInputs::try_from(&ci) {
        Ok(h) => {
            o.push(rendered(3208, "HeaderInputs::try_from(&CircuitInputs)", segs_header(&h), &h));
            let bh = BlockHeader::new(bd(&p.block_hash), h).unwrap();
            let mut s = vec![sf(&bh.block_hash)];
            s.extend(segs_header(&bh.header));
            o.push(rendered(3209, "BlockHeader::new", s, &bh));
        }
        Err(_) => *skipped.entry("HeaderInputs::try_from Err (non-canonical zk_tree_root)").or_default() += 1,
    }
    match BlockHeader::try_from(&ci) {
        Ok(bh) => {
            let mut s = vec![sf(&bh.block_hash)];
            s.extend(segs_header(&bh.header));
            o.push(rendered(3209, "BlockHeader::try_from(&CircuitInputs)", s, &bh));
        }
        Err(_) => *skipped.entry("BlockHeader::try_from Err (non-canonical zk_tree_root)").or_default() += 1,
    }

    if with_prover {
        // the witness segment: what commit wrote (the PartialWitness itself is a private field)
        let mut w: Vec<F> = vec![];
        w.extend(zk_circuits_common::utils::bytes_to_digest(bd(&v.secret)));
        w.extend(tcf);
        w.extend(zk_circuits_common::utils::bytes_to_digest(bd(&v.unspendable)));
        w.push(F(v.input_amount as u64));
        let fresh = wormhole_prover::build_fresh();
        o.push(rendered(3210, "WormholeProver build_fresh", vec![s1(1), vec![]], &fresh));
        match fresh.commit(&ci) {
            Ok(c) => o.push(rendered(3210, "WormholeProver committed", vec![s1(0), sf(&w)], &c)),
            Err(_) => *skipped.entry("WormholeProver::commit Err").or_default() += 1,
        }
    }
    o
}

// ------------------------------------------------------------------------------------------------ needles

struct Needle {
    field: &'static str,
    kind: &'static str,
    text: String,
}
struct Needles {
    v: Vec<Needle>,
    seen: HashSet<String>,
}
impl Needles {
    fn new() -> Self {
        Needles { v: vec![], seen: HashSet::new() }
    }
    /// minimum length 5: shorter strings (a transfer count of 3) cannot be searched for meaningfully
    fn add(&mut self, field: &'static str, kind: &'static str, text: String) {
        if text.len() >= 5 && self.seen.insert(text.clone()) {
            self.v.push(Needle { field, kind, text });
        }
    }
    fn add_exact(&mut self, field: &'static str, kind: &'static str, text: String) {
        if self.seen.insert(text.clone()) {
            self.v.push(Needle { field, kind, text });
        }
    }
    /// a number: decimal, lower and upper hex without prefix and without padding. The `0x`-prefixed and the
    /// zero-padded forms contain the bare form, so finding none of the bare forms excludes them too.
    fn scalar(&mut self, field: &'static str, kind: &'static str, x: u64) {
        self.add(field, kind, format!("{}", x));
        self.add(field, kind, format!("{:x}", x));
        self.add(field, kind, format!("{:X}", x));
    }
    fn dec_list(bytes: &[u8]) -> String {
        bytes.iter().map(|b| b.to_string()).collect::<Vec<_>>().join(", ")
    }
    /// a byte string: every 4-byte window as a decimal list "171, 205, 3, 4" and as hex (both cases). A longer
    /// run, or a whole `[..]` / `0x..` rendering, contains a 4-byte window.
    fn bytes(&mut self, field: &'static str, b: &[u8]) {
        for w in b.windows(4) {
            self.add(field, "byte window, decimal list", Self::dec_list(w));
            self.add(field, "byte window, hex", hex::encode(w));
            self.add(field, "byte window, HEX", hex::encode_upper(w));
        }
    }
    /// the felts a byte string or number is turned into
    fn felts(&mut self, field: &'static str, kind: &'static str, fs: &[F]) {
        for f in fs {
            self.scalar(field, kind, f.to_canonical_u64());
            if f.0 != f.to_canonical_u64() {
                self.scalar(field, kind, f.0);
            }
        }
        if fs.len() >= 2 {
            let l: Vec<String> = fs.iter().map(|f| f.to_canonical_u64().to_string()).collect();
            for w in l.windows(2) {
                self.add(field, kind, w.join(", "));
            }
        }
    }
    /// a 32-byte value: windows, LE u64 limbs (the bytes_to_digest felts), BE u64 limbs, LE/BE u32 limbs
    fn digest32(&mut self, field: &'static str, b: &B32) {
        self.bytes(field, b);
        let limbs: Vec<F> = digest_limbs(b).iter().map(|&l| F(l)).collect();
        self.felts(field, "8-byte LE limb (bytes_to_digest felt)", &limbs);
        for c in b.chunks(8) {
            self.scalar(field, "8-byte BE limb", u64::from_be_bytes(c.try_into().unwrap()));
        }
        for c in b.chunks(4) {
            self.scalar(field, "4-byte LE limb", u32::from_le_bytes(c.try_into().unwrap()) as u64);
            self.scalar(field, "4-byte BE limb", u32::from_be_bytes(c.try_into().unwrap()) as u64);
        }
    }
    fn number(&mut self, field: &'static str, x: u64, width: usize) {
        self.scalar(field, "integer", x);
        let le = &x.to_le_bytes()[..width];
        let be = &x.to_be_bytes()[8 - width..];
        if x >= 1 << 20 {
            self.add(field, "LE bytes, hex", hex::encode(le));
            self.add(field, "LE bytes, HEX", hex::encode_upper(le));
            self.add(field, "LE bytes, decimal list", Self::dec_list(le));
            self.add(field, "BE bytes, decimal list", Self::dec_list(be));
        }
    }
}

fn needles_of(v: &Priv) -> Needles {
    let mut n = Needles::new();
    n.digest32("secret", &v.secret);
    n.digest32("unspendable_account (deposit account)", &v.unspendable);
    // the account UnspendableAccount::from_secret derives (also redacted)
    let derived = UnspendableAccount::from_secret(bd(&v.secret));
    n.digest32("account_id derived from the secret", &*digest_to_bytes(derived.account_id));
    n.number("transfer_count", v.transfer_count, 8);
    n.felts("transfer_count", "u64_to_felts limb", &u64_to_felts(v.transfer_count));
    n.number("input_amount", v.input_amount as u64, 4);
    n.bytes("digest logs", &v.digest);
    n.felts("digest logs", "bytes_to_felts (4 bytes/felt)", &bytes_to_felts(&v.digest).unwrap());
    for c in v.digest.chunks(4) {
        if c.len() == 4 {
            n.scalar("digest logs", "4-byte BE limb", u32::from_be_bytes(c.try_into().unwrap()) as u64);
        }
    }
    for l in &v.siblings {
        for s in l {
            n.digest32("merkle siblings", s);
        }
    }
    n.bytes("merkle positions", &v.positions);
    if !v.positions.is_empty() {
        n.add_exact("merkle positions", "whole list", format!("[{}]", Needles::dec_list(&v.positions)));
        n.add("merkle positions", "whole list", Needles::dec_list(&v.positions));
    }
    n
}

/// index of a needle set by length, for one pass per length over a haystack
struct Index<'a> {
    by_len: HashMap<usize, HashMap<&'a [u8], usize>>,
}
impl<'a> Index<'a> {
    fn new(n: &'a Needles) -> Self {
        let mut by_len: HashMap<usize, HashMap<&'a [u8], usize>> = HashMap::new();
        for (i, x) in n.v.iter().enumerate() {
            by_len.entry(x.text.len()).or_default().insert(x.text.as_bytes(), i);
        }
        Index { by_len }
    }
    /// indices of the needles that occur in `hay`
    fn find(&self, hay: &[u8]) -> Vec<usize> {
        let mut hits = vec![];
        for (&len, set) in &self.by_len {
            if hay.len() < len {
                continue;
            }
            for w in hay.windows(len) {
                if let Some(&i) = set.get(w) {
                    hits.push(i);
                }
            }
        }
        hits.sort();
        hits.dedup();
        hits
    }
}

/// every run of whitespace -> one space (so that a pretty-printed list reads "171, 205, 3")
fn collapse_ws(s: &str) -> String {
    let mut o = String::with_capacity(s.len());
    let mut in_ws = false;
    for c in s.chars() {
        if c.is_whitespace() {
            if !in_ws {
                o.push(' ');
            }
            in_ws = true;
        } else {
            o.push(c);
            in_ws = false;
        }
    }
    o
}

/// Everything the outputs may legitimately contain: every public value in every form a Debug impl prints
/// (and a few more), plus all type / field names and literals. Built from the public values alone.
fn public_corpus(p: &Publ, v: &Priv) -> String {
    let mut c = String::new();
    let mut line = |s: String| {
        c.push_str(&s);
        c.push('\n');
    };
    for x in [p.asset_id, p.out1, p.out2, p.fee, p.block_number] {
        line(format!("{}", x));
    }
    line(format!("{} {} {}", p.literal_depth, v.siblings.len(), v.siblings.len() + 1));
    let mut digests = vec![p.nullifier, p.exit1, p.exit2, p.block_hash, p.parent_hash, p.state_root, p.extrinsics_root, p.zk_tree_root];
    // the hash Nullifier::from_preimage computes is printed (it is the public nullifier)
    let n = Nullifier::from_preimage(bd(&v.secret), v.transfer_count);
    digests.push(*digest_to_bytes(n.hash));
    for d in digests {
        line(hex::encode(d));
        line(hex::encode_upper(d));
        line(format!("[{}]", Needles::dec_list(&d)));
        let limbs: Vec<String> = digest_limbs(&d).iter().map(|&l| F(l).to_canonical_u64().to_string()).collect();
        line(format!("[{}]", limbs.join(", ")));
    }
    line(SKELETON.to_string());
    c
}

const SKELETON: &str = "PublicCircuitInputs asset_id output_amount_1 output_amount_2 volume_fee_bps nullifier exit_account_1 \
exit_account_2 block_hash block_number PrivateCircuitInputs secret transfer_count unspendable_account parent_hash state_root \
extrinsics_root digest input_amount zk_tree_root zk_merkle_siblings zk_merkle_positions CircuitInputs public private Nullifier hash \
UnspendableAccount account_id ZkLeafData to_account ZkMerkleProofData root_hash depth siblings positions leaf is_not_dummy \
HeaderInputs BlockHeader header WormholeProver circuit_data partial_witness committed \"[REDACTED]\" \"[ProverCircuitData]\" \
BytesDigest(0x true false";

// ------------------------------------------------------------------------------------------------ main

fn depth_for(r: &mut Rng) -> usize {
    match r.below(4) {
        0 => *r.pick(&[0usize, 1, 2, MAX_DEPTH - 1, MAX_DEPTH]),
        _ => r.below(MAX_DEPTH as u64 + 1) as usize,
    }
}

/// private values for iteration `i`, re-drawn until none of their renderings occurs in the public corpus
fn draw_private(r: &mut Rng, i: u64, p: &Publ, depth: usize, other: Option<&Priv>, redraws: &mut u64) -> (Priv, Needles) {
    let mut tries = 0;
    loop {
        // the same kind of value a few times, then the next kind, finally plain random ones
        let tag = if tries >= 40 { "random" } else { PRIV_TAGS[((i + tries / 8) % PRIV_TAGS.len() as u64) as usize] };
        let v = gen_private(r, tag, depth);
        let n = needles_of(&v);
        let corpus = public_corpus(p, &v);
        let hits = Index::new(&n).find(corpus.as_bytes());
        if std::env::var("C32_DEBUG").is_ok() {
            for h in hits.iter().take(3) {
                eprintln!("redraw {} {} [{}] {}", tag, n.v[*h].field, n.v[*h].kind, n.v[*h].text);
            }
        }
        let hit = !hits.is_empty();
        // a twin differs from the original in every private field
        let same = other.map_or(false, |o| {
            o.secret == v.secret
                || o.transfer_count == v.transfer_count
                || o.unspendable == v.unspendable
                || o.digest == v.digest
                || o.input_amount == v.input_amount
                || (depth > 0 && (o.siblings == v.siblings || o.positions == v.positions))
        });
        if !hit && !same {
            return (v, n);
        }
        *redraws += 1;
        tries += 1;
    }
}

fn main() {
    quiet_panics();
    let check = std::env::args().any(|a| a == "--check");
    let seed = seed_from_env();
    let thorough = tier_is_thorough();
    let mut out = Out::new();

    // iterations whose cases are printed; --check runs those same iterations first, then more
    let n_print: u64 = if thorough { 1200 } else { 150 };
    let n_check: u64 = if thorough { 8000 } else { 400 };
    let prover_every: u64 = if thorough { 12 } else { 6 };
    let n = if check { n_check } else { n_print };

    let mut skipped: HashMap<&'static str, u64> = HashMap::new();
    let (mut renderings, mut needle_count, mut searched, mut pairs, mut redraws, mut violations) = (0u64, 0u64, 0u64, 0u64, 0u64, 0u64);
    let mut fields_differing = 0u64;

    for i in 0..n {
        // independent streams: the printed cases do not depend on --check drawing the twins
        let mut rp = Rng::new(seed.wrapping_mul(0x1000_0000_01B3).wrapping_add(i.wrapping_mul(3)));
        let mut rv = Rng::new(seed.wrapping_mul(0x1000_0000_01B3).wrapping_add(i.wrapping_mul(3) + 1));
        let mut rt = Rng::new(seed.wrapping_mul(0x1000_0000_01B3).wrapping_add(i.wrapping_mul(3) + 2));
        let p = gen_public(&mut rp, PRIV_TAGS[(i % PRIV_TAGS.len() as u64) as usize] == "boundary");
        let depth = depth_for(&mut rp);
        let (v, needles) = draw_private(&mut rv, i, &p, depth, None, &mut redraws);
        // a prover only for inputs commit accepts, and only for iterations both modes share
        let with_prover = i % prover_every == 0 && i < n_print && canonical_limbs(&p.zk_tree_root);
        let objs = match no_panic(|| build_all(&p, &v, with_prover, &mut skipped)) {
            Some(o) => o,
            None => {
                out.note("violation", &format!("{{\"what\":\"panic while building or formatting\",\"iteration\":{},\"seed\":{}}}", i, seed));
                violations += 1;
                continue;
            }
        };
        renderings += 2 * objs.len() as u64;

        if !check {
            for o in &objs {
                for (mode, text) in [(0i128, &o.compact), (1, &o.pretty)] {
                    let mut segs = vec![vec![mode]];
                    segs.extend(o.segs.iter().cloned());
                    let bytes: Vec<i128> = text.bytes().map(|b| b as i128).collect();
                    out.case(o.fid, &format!("{}/{}", o.what, v.tag), &segs, &bytes);
                }
            }
            continue;
        }

        // (c) needle search
        let index = Index::new(&needles);
        needle_count += needles.v.len() as u64;
        for o in &objs {
            for (mode, text) in [("{:?}", &o.compact), ("{:#?}", &o.pretty)] {
                let mut hits = index.find(text.as_bytes());
                if mode == "{:#?}" {
                    hits.extend(index.find(collapse_ws(text).as_bytes()));
                    hits.sort();
                    hits.dedup();
                }
                searched += needles.v.len() as u64;
                for h in hits.iter().take(2) {
                    let nd = &needles.v[*h];
                    violations += 1;
                    out.note(
                        "violation",
                        &format!(
                            "{{\"what\":\"private value printed\",\"type\":\"{}\",\"mode\":\"{}\",\"field\":\"{}\",\"needle_kind\":\"{}\",\"needle\":\"{}\",\"private_tag\":\"{}\",\"iteration\":{},\"seed\":{}}}",
                            o.what, mode, nd.field, nd.kind, nd.text.replace('"', "'"), v.tag, i, seed
                        ),
                    );
                }
            }
        }

        // (b) twins: same public fields, every private field re-drawn.
        //     first twin: same path length (which `depth` of ZkMerkleProofData publishes);
        //     second twin: a different path length, compared on every type that does not print `depth = siblings.len()`
        let depth2 = (depth + 1 + rt.below(MAX_DEPTH as u64) as usize) % (MAX_DEPTH + 1);
        for (twin_no, d) in [(1, depth), (2, depth2)] {
            let (t, _) = draw_private(&mut rt, i + twin_no, &p, d, Some(&v), &mut redraws);
            let diff = [t.secret != v.secret, t.transfer_count != v.transfer_count, t.unspendable != v.unspendable, t.digest != v.digest,
                t.input_amount != v.input_amount, (d == 0 && depth == 0) || t.siblings != v.siblings, (d == 0 && depth == 0) || t.positions != v.positions];
            fields_differing += diff.iter().filter(|&&x| x).count() as u64;
            let twins = match no_panic(|| build_all(&p, &t, with_prover, &mut HashMap::new())) {
                Some(o) => o,
                None => continue,
            };
            if twins.len() != objs.len() {
                violations += 1;
                out.note("violation", &format!("{{\"what\":\"twin builds a different set of objects\",\"iteration\":{},\"seed\":{}}}", i, seed));
                continue;
            }
            for (a, b) in objs.iter().zip(twins.iter()) {
                if a.what == "Nullifier::from_preimage" {
                    // its printed hash is a function of the secret by design (it is the public nullifier)
                    continue;
                }
                if twin_no == 2 && (a.what == "ZkMerkleProofData::new" || a.what == "ZkMerkleProofData::try_from(&CircuitInputs)") {
                    continue;
                }
                for (mode, x, y) in [("{:?}", &a.compact, &b.compact), ("{:#?}", &a.pretty, &b.pretty)] {
                    pairs += 1;
                    if x != y || a.what != b.what {
                        violations += 1;
                        let at = x.bytes().zip(y.bytes()).position(|(c, d)| c != d).unwrap_or(x.len().min(y.len()));
                        let from = at.saturating_sub(40);
                        out.note(
                            "violation",
                            &format!(
                                "{{\"what\":\"rendering depends on private fields\",\"type\":\"{}\",\"mode\":\"{}\",\"twin\":\"{}\",\"first_difference_at\":{},\"context\":\"{}\",\"iteration\":{},\"seed\":{}}}",
                                a.what,
                                mode,
                                if twin_no == 1 { "same path length" } else { "different path length" },
                                at,
                                x[from..(at + 24).min(x.len())].replace('"', "'").replace('\n', " "),
                                i,
                                seed
                            ),
                        );
                    }
                }
            }
        }
    }

    // observation (not one of the listed redacting impls): the re-exported common ZkMerkleProof derives Debug
    if check {
        let mut r = Rng::new(seed);
        let sib = [priv_bytes::<32>(&mut r, "allsame", true), priv_bytes::<32>(&mut r, "counting", true), priv_bytes::<32>(&mut r, "random", true)];
        let zp = ZkMerkleProof::new(7, vec![sib], vec![2], [0x11; 32], [0x22; 32]);
        let s = format!("{:?}", zp);
        let leaks = s.contains(&Needles::dec_list(&sib[0][..4])) && s.contains("positions: [2]");
        out.note("observation", &format!("wormhole_circuit::zk_merkle_proof::ZkMerkleProof (re-export of zk_circuits_common::zk_merkle::ZkMerkleProof, #[derive(Debug)]) prints siblings and positions: {}", leaks));
        let tj = zk_circuits_common::circuit::TransferProofJson { transfer_count: 987654321012, state_root: "00".into(), storage_proof: vec!["abcd".into()], indices: vec![0] };
        out.note("observation", &format!("zk_circuits_common::circuit::TransferProofJson (#[derive(Debug)], a JSON loading DTO) prints transfer_count: {}", format!("{:?}", tj).contains("987654321012")));
    }

    out.note("renderings", &renderings.to_string());
    out.note("needles", &needle_count.to_string());
    out.note("needle_searches", &searched.to_string());
    out.note("pairs", &pairs.to_string());
    out.note("twin_private_fields_differing", &format!("{} of {}", fields_differing, 14 * if check { n } else { 0 }));
    out.note("redraws", &redraws.to_string());
    out.note("violations", &violations.to_string());
    out.note("iterations", &n.to_string());
    let mut sk: Vec<_> = skipped.into_iter().collect();
    sk.sort();
    for (k, c) in sk {
        out.note("skipped", &format!("{}: {}", k, c));
    }
    out.flush();
}
