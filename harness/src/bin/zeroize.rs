//! C33 (zeroization), implementation side.  Own binary because of the `#[global_allocator]`.
//!
//! The allocator below follows /repo/wormhole/circuit/tests/heap_zeroization.rs (scan every freed block
//! while it is still valid, exempt exactly the reconstructed `pad10_to_rate` images) and extends it:
//!
//! * every block allocated while SCANNING is on is *tracked*; at every allocator event and at every
//!   explicit `checkpoint()` (after each API call) all live tracked blocks are scanned and a block that
//!   contains secret material is *flagged* together with the region where it was found;
//! * patterns: the 32 secret bytes (= the in-memory image of the 8-bytes-per-felt encoding on this
//!   little-endian host), the 64-byte image of the 4-bytes-per-felt encoding (eight u64 limbs), every single
//!   8-byte limb of the secret at 8-aligned offsets (partial leaks), and - while it is in use - the invalid buffer handed to
//!   `Secret::new`;
//! * dealloc: block still holds a full pattern -> UPSTREAM_PAD (2) iff the WHOLE block equals one of the two
//!   reconstructed pad images, else FREED_TAINTED (3); holds only limbs -> RESIDUE (5); flagged earlier and the
//!   region is now all zero -> SCRUBBED (1), not all zero -> RESIDUE (5);
//! * realloc of a block that holds secret material -> REALLOC_TAINTED (4) (the old block is released as it is
//!   if it moves; like the model, any realloc of a tainted block counts);
//! * fresh blocks (and the grown tail of a realloc) are zero-filled by the hook while scanning, so stale
//!   bytes of an earlier unscrubbed free (the exempt upstream pad buffer) are attributed to the block that
//!   was freed and not to whoever gets the same address next.
//! The hooks never allocate (static tables).  The binary is single threaded; output strings, case
//! segments and pad images are built outside the scanning window.
//!
//! Cases: fid 3301 = an API call sequence, out = the observed (size, kind) list, which must equal
//! `observe (run_seq codes)` of coq/Sys/Zeroize.v;  fid 3302 = Secret::new on a buffer, out = [ok; bytes after];
//! fid 3303 = Vec growth self-test of the model's capacity rule against real Vec<T>.
#![allow(clippy::all)]

use core::cell::UnsafeCell;
use core::sync::atomic::{AtomicBool, Ordering};
use std::alloc::{GlobalAlloc, Layout, System};
use std::hint::black_box;

use plonky2::field::types::{Field, PrimeField64};
use verif_harness::*;
use wormhole_circuit::block_header::header::DIGEST_LOGS_SIZE;
use wormhole_circuit::inputs::{CircuitInputs, PrivateCircuitInputs, PublicCircuitInputs};
use wormhole_circuit::nullifier::{Nullifier, NULLIFIER_SALT};
use wormhole_circuit::sensitive::{Secret, SensitiveFelts};
use wormhole_circuit::unspendable_account::{UnspendableAccount, UNSPENDABLE_SALT};
use zeroize::Zeroizing;
use zk_circuits_common::circuit::F;
use zk_circuits_common::utils::{bytes_to_digest, string_to_felts, u64_to_felts, BytesDigest};

// ------------------------------------------------------------------------------------------------ allocator

const K_SCRUBBED: u8 = 1;
const K_UPSTREAM_PAD: u8 = 2;
const K_FREED_TAINTED: u8 = 3;
const K_REALLOC_TAINTED: u8 = 4;
const K_RESIDUE: u8 = 5; // part of the secret (a limb) or non-zero bytes where it had been, at free / realloc time
const K_TABLE_OVERFLOW: u8 = 7;
// harness-side functional checks, reported in the same list (the model never predicts them)
const K_SOURCE_NOT_ZEROED: u8 = 21;
const K_WRONG_RESULT_CLASS: u8 = 22;

const MAXB: usize = 256;
const MAXE: usize = 256;
const MAXP: usize = 8;
const PATMAX: usize = 64;
const PADMAX: usize = 256;

#[derive(Clone, Copy)]
struct Blk {
    addr: usize,
    size: usize,
    flagged: bool,
    off: usize,
    len: usize,
}
const NOBLK: Blk = Blk { addr: 0, size: 0, flagged: false, off: 0, len: 0 };

struct State {
    scanning: bool,
    blocks: [Blk; MAXB],
    nblocks: usize,
    events: [(usize, u8); MAXE],
    nevents: usize,
    // patterns: `full` ones are the whole secret in some encoding, the others single limbs
    pats: [[u8; PATMAX]; MAXP],
    patlen: [usize; MAXP],
    patfull: [bool; MAXP],
    npats: usize,
    pads: [[u8; PADMAX]; 2],
    padlen: [usize; 2],
    // copy of the last block reported with kind 3/4/5 (for VERIF_LOUD diagnostics)
    dump: [u8; PADMAX],
    dumplen: usize,
    stale_limb_blocks: usize,
    stale_dump: [u8; PADMAX],
    stale_dumplen: usize,
}

struct Shared {
    lock: AtomicBool,
    st: UnsafeCell<State>,
}
unsafe impl Sync for Shared {}

static SH: Shared = Shared {
    lock: AtomicBool::new(false),
    st: UnsafeCell::new(State {
        scanning: false,
        blocks: [NOBLK; MAXB],
        nblocks: 0,
        events: [(0, 0); MAXE],
        nevents: 0,
        pats: [[0; PATMAX]; MAXP],
        patlen: [0; MAXP],
        patfull: [false; MAXP],
        npats: 0,
        pads: [[0; PADMAX]; 2],
        padlen: [0; 2],
        dump: [0; PADMAX],
        dumplen: 0,
        stale_limb_blocks: 0,
        stale_dump: [0; PADMAX],
        stale_dumplen: 0,
    }),
};

fn with_state<R>(f: impl FnOnce(&mut State) -> R) -> R {
    while SH.lock.compare_exchange(false, true, Ordering::Acquire, Ordering::Relaxed).is_err() {
        core::hint::spin_loop();
    }
    let r = f(unsafe { &mut *SH.st.get() });
    SH.lock.store(false, Ordering::Release);
    r
}

fn find(hay: &[u8], needle: &[u8]) -> Option<usize> {
    if needle.is_empty() || hay.len() < needle.len() {
        return None;
    }
    hay.windows(needle.len()).position(|w| w == needle)
}

fn find_aligned(hay: &[u8], needle: &[u8]) -> Option<usize> {
    let n = needle.len();
    if n == 0 || hay.len() < n {
        return None;
    }
    (0..=hay.len() - n).step_by(8).find(|&o| &hay[o..o + n] == needle)
}

/// (found a full pattern?, found any pattern?, offset, length) of the first / strongest match
fn scan_block(st: &State, block: &[u8]) -> (bool, bool, usize, usize) {
    let mut any = (false, 0usize, 0usize);
    for i in 0..st.npats {
        // whole-secret patterns at any offset; single limbs only at 8-aligned offsets (an unaligned window over
        // two public felts such as (0xFFFFFFFF, 0xFFFFFFFF) or (x, 1) can spell a low-entropy limb by accident)
        let hit = if st.patfull[i] {
            find(block, &st.pats[i][..st.patlen[i]])
        } else {
            find_aligned(block, &st.pats[i][..st.patlen[i]])
        };
        if let Some(off) = hit {
            if st.patfull[i] {
                return (true, true, off, st.patlen[i]);
            }
            if !any.0 {
                any = (true, off, st.patlen[i]);
            }
        }
    }
    (false, any.0, any.1, any.2)
}

impl State {
    fn keep_dump(&mut self, block: &[u8]) {
        let n = core::cmp::min(block.len(), PADMAX);
        self.dump[..n].copy_from_slice(&block[..n]);
        self.dumplen = n;
    }
    fn push_event(&mut self, size: usize, kind: u8) {
        if self.nevents < MAXE {
            self.events[self.nevents] = (size, kind);
            self.nevents += 1;
        } else {
            self.events[MAXE - 1] = (0, K_TABLE_OVERFLOW);
        }
    }
    /// flag every live tracked block that holds secret material right now
    fn scan_live(&mut self) {
        for i in 0..self.nblocks {
            let b = self.blocks[i];
            let block = unsafe { core::slice::from_raw_parts(b.addr as *const u8, b.size) };
            let (full, any, off, len) = scan_block(self, block);
            if any && (!b.flagged || (full && b.len < len)) {
                self.blocks[i].flagged = true;
                self.blocks[i].off = off;
                self.blocks[i].len = len;
            }
        }
    }
    fn track(&mut self, addr: usize, size: usize) {
        if self.nblocks < MAXB {
            self.blocks[self.nblocks] = Blk { addr, size, flagged: false, off: 0, len: 0 };
            self.nblocks += 1;
        } else {
            self.push_event(size, K_TABLE_OVERFLOW);
        }
    }
    fn untrack(&mut self, addr: usize) -> Option<Blk> {
        for i in 0..self.nblocks {
            if self.blocks[i].addr == addr {
                let b = self.blocks[i];
                self.blocks[i] = self.blocks[self.nblocks - 1];
                self.nblocks -= 1;
                return Some(b);
            }
        }
        None
    }
    fn is_pad_image(&self, block: &[u8]) -> bool {
        (0..2).any(|k| self.padlen[k] == block.len() && &self.pads[k][..self.padlen[k]] == block)
    }
    /// the block at `addr` is about to be released (dealloc) or moved (realloc)
    fn on_release(&mut self, addr: usize, size: usize, realloc: bool) -> Option<Blk> {
        self.scan_live();
        let tracked = if realloc {
            (0..self.nblocks).find(|&i| self.blocks[i].addr == addr).map(|i| self.blocks[i])
        } else {
            self.untrack(addr)
        };
        let block = unsafe { core::slice::from_raw_parts(addr as *const u8, size) };
        let (full, any, _, _) = scan_block(self, block);
        // did this block hold the WHOLE secret (some encoding) at some scan point of its life?
        let held_full = tracked.map_or(false, |b| b.flagged && b.len >= 32);
        if full {
            if realloc {
                self.keep_dump(block);
                self.push_event(size, K_REALLOC_TAINTED);
            } else if self.is_pad_image(block) {
                self.push_event(size, K_UPSTREAM_PAD);
            } else {
                self.keep_dump(block);
                self.push_event(size, K_FREED_TAINTED);
            }
        } else if held_full {
            // a buffer of the whole secret: every byte of the region it occupied must be zero at free time,
            // and no limb of it may survive anywhere in the block
            let b = tracked.unwrap();
            let end = core::cmp::min(b.off + b.len, size);
            let zero = block[core::cmp::min(b.off, end)..end].iter().all(|x| *x == 0);
            if any || (!realloc && !zero) {
                self.keep_dump(block);
                self.push_event(size, K_RESIDUE);
            } else if !realloc {
                self.push_event(size, K_SCRUBBED);
            }
        } else if any || tracked.map_or(false, |b| b.flagged) {
            // a block that never held the whole secret but holds (held) one of its 8-byte limbs: not one of the
            // secret buffers of the APIs.  Seen in practice: anyhow::Error objects whose uninitialised padding is
            // copied from a stack frame where expose_felts()/bytes_to_digest temporaries lived.  Counted and
            // reported separately (notes `stale_limb_*`), not part of the (size, kind) list compared to the model:
            // whether it happens depends on the stack layout of the run.
            self.stale_limb_blocks += 1;
            if self.stale_dumplen == 0 {
                let n = core::cmp::min(block.len(), PADMAX);
                self.stale_dump[..n].copy_from_slice(&block[..n]);
                self.stale_dumplen = n;
            }
        }
        tracked
    }
}

struct ScanningAllocator;

unsafe impl GlobalAlloc for ScanningAllocator {
    unsafe fn alloc(&self, layout: Layout) -> *mut u8 {
        let p = System.alloc(layout);
        if !p.is_null() {
            with_state(|st| {
                if st.scanning {
                    st.scan_live();
                    // fresh memory is undefined: clearing it is allowed and removes stale bytes of earlier frees
                    core::ptr::write_bytes(p, 0, layout.size());
                    st.track(p as usize, layout.size());
                }
            });
        }
        p
    }
    unsafe fn alloc_zeroed(&self, layout: Layout) -> *mut u8 {
        let p = System.alloc_zeroed(layout);
        if !p.is_null() {
            with_state(|st| {
                if st.scanning {
                    st.scan_live();
                    st.track(p as usize, layout.size());
                }
            });
        }
        p
    }
    unsafe fn dealloc(&self, ptr: *mut u8, layout: Layout) {
        with_state(|st| {
            if st.scanning {
                st.on_release(ptr as usize, layout.size(), false);
            }
        });
        System.dealloc(ptr, layout)
    }
    unsafe fn realloc(&self, ptr: *mut u8, layout: Layout, new_size: usize) -> *mut u8 {
        let scanning = with_state(|st| {
            if st.scanning {
                st.on_release(ptr as usize, layout.size(), true);
            }
            st.scanning
        });
        let q = System.realloc(ptr, layout, new_size);
        if scanning && !q.is_null() {
            with_state(|st| {
                if new_size > layout.size() {
                    core::ptr::write_bytes(q.add(layout.size()), 0, new_size - layout.size());
                }
                let mut found = false;
                for i in 0..st.nblocks {
                    if st.blocks[i].addr == ptr as usize {
                        st.blocks[i].addr = q as usize;
                        st.blocks[i].size = new_size;
                        found = true;
                        break;
                    }
                }
                if !found {
                    st.track(q as usize, new_size);
                }
            });
        }
        q
    }
}

#[global_allocator]
static ALLOCATOR: ScanningAllocator = ScanningAllocator;

fn checkpoint() {
    with_state(|st| {
        if st.scanning {
            st.scan_live()
        }
    });
}

fn set_patterns(pats: &[(&[u8], bool)], pads: &[Vec<u8>; 2]) {
    with_state(|st| {
        assert!(pats.len() <= MAXP);
        st.npats = pats.len();
        for (i, (p, full)) in pats.iter().enumerate() {
            assert!(p.len() <= PATMAX);
            st.pats[i][..p.len()].copy_from_slice(p);
            st.patlen[i] = p.len();
            st.patfull[i] = *full;
        }
        for k in 0..2 {
            assert!(pads[k].len() <= PADMAX);
            st.pads[k][..pads[k].len()].copy_from_slice(&pads[k]);
            st.padlen[k] = pads[k].len();
        }
    });
}

fn start_scan() {
    with_state(|st| {
        st.nblocks = 0;
        st.nevents = 0;
        st.stale_limb_blocks = 0;
        st.stale_dumplen = 0;
        st.scanning = true;
    });
}

/// stops scanning; appends the observed events to `out` (preallocated by the caller)
fn stop_scan(out: &mut Vec<i128>) {
    let mut ev = [(0usize, 0u8); MAXE];
    let n = with_state(|st| {
        st.scanning = false;
        ev = st.events;
        st.nevents
    });
    for (size, kind) in &ev[..n] {
        out.push(*size as i128);
        out.push(*kind as i128);
    }
    if std::env::var("VERIF_LOUD").is_ok() && ev[..n].iter().any(|e| matches!(e.1, 3 | 4 | 5)) {
        let (d, l) = with_state(|st| (st.dump, st.dumplen));
        eprintln!("leaking block ({} bytes): {}", l, hex::encode(&d[..l]));
    }
}

/// (number of blocks with a stray limb of the secret during the last sequence, image of the first one)
fn take_stale() -> (usize, Vec<u8>) {
    let (n, d, l) = with_state(|st| (st.stale_limb_blocks, st.stale_dump, st.stale_dumplen));
    (n, d[..l].to_vec())
}

/// a harness-side finding, put in the event list (allocation free)
fn note_event(size: usize, kind: u8) {
    with_state(|st| st.push_event(size, kind));
}

// ------------------------------------------------------------------------------------------------ pad images

const RATE: usize = 8;

fn felts_to_le_bytes(felts: &[F]) -> Vec<u8> {
    felts.iter().flat_map(|f| f.to_canonical_u64().to_le_bytes()).collect()
}

/// the two `pad10_to_rate` buffers of the constructor hashes: `input || F::ONE`, zero-filled to a RATE multiple
fn expected_upstream_pad_blocks(secret: BytesDigest, tc: u64) -> [Vec<u8>; 2] {
    let secret_felts = bytes_to_digest(secret);
    let mut nullifier_pad: Vec<F> = string_to_felts(NULLIFIER_SALT).unwrap();
    nullifier_pad.extend(secret_felts);
    nullifier_pad.extend(u64_to_felts(tc));
    nullifier_pad.push(F::ONE);
    let n = (nullifier_pad.len() + RATE - 1) / RATE * RATE;
    nullifier_pad.resize(n, F::ZERO);
    let mut account_pad: Vec<F> = string_to_felts(UNSPENDABLE_SALT).unwrap();
    account_pad.extend(secret_felts);
    account_pad.push(F::ONE);
    let n = (account_pad.len() + RATE - 1) / RATE * RATE;
    account_pad.resize(n, F::ZERO);
    [felts_to_le_bytes(&nullifier_pad), felts_to_le_bytes(&account_pad)]
}

// ------------------------------------------------------------------------------------------------ API alphabet

const N_OPS: u64 = 37;
// codes = positions in `all_ops` of coq/Sys/Zeroize.v
const SECRET_NEW_VALID: u64 = 0;
const SECRET_NEW_INVALID: u64 = 1;
const SECRET_FROM_BYTES_DIGEST: u64 = 2;
const SECRET_FROM_DIGEST: u64 = 3;
const SECRET_TRY_FROM: u64 = 4;
const SECRET_EXPOSE: u64 = 5;
const SECRET_DROP: u64 = 6;
const NUL_NEW: u64 = 7;
const NUL_FROM_PREIMAGE: u64 = 8;
const NUL_FROM_INPUTS: u64 = 9;
const NUL_TO_BYTES: u64 = 10;
const NUL_FROM_BYTES: u64 = 11;
const NUL_DROP_BYTES: u64 = 12;
const NUL_TO_FELTS: u64 = 13;
const NUL_FROM_FELTS: u64 = 14;
const NUL_DROP_FELTS: u64 = 15;
const NUL_DROP: u64 = 16;
const NUL_FROM_BYTES_BAD_LEN: u64 = 17;
const NUL_FROM_BYTES_BAD_HASH: u64 = 18;
const NUL_FROM_FELTS_BAD_LEN: u64 = 19;
const NUL_FROM_FELTS_BAD_COUNT: u64 = 20;
const UA_NEW: u64 = 21;
const UA_FROM_SECRET: u64 = 22;
const UA_FROM_INPUTS: u64 = 23;
const UA_TO_BYTES: u64 = 24;
const UA_FROM_BYTES: u64 = 25;
const UA_DROP_BYTES: u64 = 26;
const UA_TO_FELTS: u64 = 27;
const UA_FROM_FELTS: u64 = 28;
const UA_DROP_FELTS: u64 = 29;
const UA_DROP: u64 = 30;
const UA_FROM_BYTES_BAD_LEN: u64 = 31;
const UA_FROM_BYTES_BAD_ID: u64 = 32;
const UA_FROM_FELTS_BAD_LEN: u64 = 33;
const SF_NEW_SPARE: u64 = 34;
const SF_READ: u64 = 35;
const SF_DROP: u64 = 36;
/// capacity the caller of the public `SensitiveFelts::new` reserves up front (model: SF_SPARE_CAP)
const SF_SPARE_CAP: usize = 16;

/// what the caller holds between calls (all on this stack frame, except the four serialisation buffers)
struct Held {
    sec: Option<Secret>,
    nul: Option<Nullifier>,
    ua: Option<UnspendableAccount>,
    nb: Option<Zeroizing<Vec<u8>>>,
    nf: Option<SensitiveFelts>,
    ub: Option<Zeroizing<Vec<u8>>>,
    uf: Option<SensitiveFelts>,
    sf: Option<SensitiveFelts>,
}

struct Params {
    secret: BytesDigest,
    invalid: [u8; 32],
    other: BytesDigest,
    tc: u64,
}

fn make_inputs(p: &Params) -> CircuitInputs {
    CircuitInputs {
        private: PrivateCircuitInputs {
            secret: Secret::from(p.secret),
            transfer_count: p.tc,
            unspendable_account: p.other,
            parent_hash: BytesDigest::try_from([5u8; 32]).unwrap(),
            state_root: BytesDigest::try_from([3u8; 32]).unwrap(),
            extrinsics_root: BytesDigest::try_from([4u8; 32]).unwrap(),
            digest: [0xEE; DIGEST_LOGS_SIZE],
            input_amount: 1000,
            zk_tree_root: [0u8; 32],
            zk_merkle_siblings: vec![],
            zk_merkle_positions: vec![],
        },
        public: PublicCircuitInputs {
            asset_id: 0,
            output_amount_1: 900,
            output_amount_2: 99,
            volume_fee_bps: 10,
            nullifier: p.other,
            block_hash: BytesDigest::try_from([0u8; 32]).unwrap(),
            exit_account_1: BytesDigest::try_from([2u8; 32]).unwrap(),
            exit_account_2: BytesDigest::try_from([3u8; 32]).unwrap(),
            block_number: 1,
        },
    }
}

/// `Secret::new` on a caller buffer that lives on the heap, so that the allocator sees whether it was scrubbed
fn secret_new_on_heap(image: &[u8; 32], expect_ok: bool, h: &mut Held) {
    let mut src: Box<[u8; 32]> = black_box(Box::new([0u8; 32]));
    src.copy_from_slice(image);
    black_box(&mut src);
    checkpoint();
    let r = Secret::new(&mut src);
    checkpoint();
    if !black_box(&src).iter().all(|b| *b == 0) {
        note_event(32, K_SOURCE_NOT_ZEROED);
    }
    drop(src);
    match r {
        Ok(s) => {
            if !expect_ok {
                note_event(0, K_WRONG_RESULT_CLASS);
            }
            h.sec = Some(s);
        }
        Err(_) => {
            if expect_ok {
                note_event(0, K_WRONG_RESULT_CLASS);
            }
        }
    }
}

fn expect_err<T>(r: anyhow::Result<T>) {
    if r.is_ok() {
        note_event(0, K_WRONG_RESULT_CLASS);
    }
    drop(r);
}

fn run_op(code: u64, p: &Params, h: &mut Held) {
    match code {
        SECRET_NEW_VALID => secret_new_on_heap(&p.secret, true, h),
        SECRET_NEW_INVALID => secret_new_on_heap(&p.invalid, false, h),
        SECRET_FROM_BYTES_DIGEST => h.sec = Some(Secret::from(p.secret)),
        SECRET_FROM_DIGEST => h.sec = Some(Secret::from(bytes_to_digest(p.secret))),
        SECRET_TRY_FROM => h.sec = Some(Secret::try_from(*p.secret).unwrap()),
        SECRET_EXPOSE => {
            if let Some(s) = &h.sec {
                let d = black_box(s.expose_digest());
                let f = black_box(s.expose_felts());
                if *d != *p.secret || f != bytes_to_digest(p.secret) || s.as_bytes() != &*p.secret {
                    note_event(0, K_WRONG_RESULT_CLASS);
                }
            }
        }
        SECRET_DROP => h.sec = None,
        NUL_NEW => h.nul = Some(Nullifier::new(p.other, p.secret, p.tc)),
        NUL_FROM_PREIMAGE => h.nul = Some(Nullifier::from_preimage(p.secret, p.tc)),
        NUL_FROM_INPUTS => {
            let inputs = make_inputs(p);
            h.nul = Some(Nullifier::from(&inputs));
            drop(inputs);
        }
        NUL_TO_BYTES => {
            if let Some(n) = &h.nul {
                h.nb = None;
                h.nb = Some(n.to_bytes());
            }
        }
        NUL_FROM_BYTES => {
            if let Some(b) = &h.nb {
                h.nul = Some(Nullifier::from_bytes(b.as_ref()).unwrap());
            }
        }
        NUL_DROP_BYTES => h.nb = None,
        NUL_TO_FELTS => {
            if let Some(n) = &h.nul {
                h.nf = None;
                h.nf = Some(n.to_field_elements());
            }
        }
        NUL_FROM_FELTS => {
            if let Some(f) = &h.nf {
                h.nul = Some(Nullifier::from_field_elements(f.as_slice()).unwrap());
            }
        }
        NUL_DROP_FELTS => h.nf = None,
        NUL_DROP => h.nul = None,
        NUL_FROM_BYTES_BAD_LEN => {
            if let Some(b) = &h.nb {
                expect_err(Nullifier::from_bytes(&b[..b.len() - 1]));
            }
        }
        NUL_FROM_BYTES_BAD_HASH => {
            if let Some(b) = &mut h.nb {
                let mut save = [0u8; 8];
                save.copy_from_slice(&b[..8]);
                b[..8].copy_from_slice(&[0xFF; 8]);
                expect_err(Nullifier::from_bytes(b.as_ref()));
                b[..8].copy_from_slice(&save);
            }
        }
        NUL_FROM_FELTS_BAD_LEN => {
            if let Some(f) = &h.nf {
                expect_err(Nullifier::from_field_elements(&f[..f.len() - 1]));
            }
        }
        NUL_FROM_FELTS_BAD_COUNT => {
            if let Some(f) = &mut h.nf {
                let save = f[8];
                f[8] = F::from_canonical_u64(0x1_2345_6789); // not a u32: felts_to_u64 rejects it
                expect_err(Nullifier::from_field_elements(f.as_slice()));
                f[8] = save;
            }
        }
        UA_NEW => h.ua = Some(UnspendableAccount::new(p.other, p.secret)),
        UA_FROM_SECRET => h.ua = Some(UnspendableAccount::from_secret(p.secret)),
        UA_FROM_INPUTS => {
            let inputs = make_inputs(p);
            h.ua = Some(UnspendableAccount::from(&inputs));
            drop(inputs);
        }
        UA_TO_BYTES => {
            if let Some(u) = &h.ua {
                h.ub = None;
                h.ub = Some(u.to_bytes());
            }
        }
        UA_FROM_BYTES => {
            if let Some(b) = &h.ub {
                h.ua = Some(UnspendableAccount::from_bytes(b.as_ref()).unwrap());
            }
        }
        UA_DROP_BYTES => h.ub = None,
        UA_TO_FELTS => {
            if let Some(u) = &h.ua {
                h.uf = None;
                h.uf = Some(u.to_field_elements());
            }
        }
        UA_FROM_FELTS => {
            if let Some(f) = &h.uf {
                h.ua = Some(UnspendableAccount::from_field_elements(f.as_slice()).unwrap());
            }
        }
        UA_DROP_FELTS => h.uf = None,
        UA_DROP => h.ua = None,
        UA_FROM_BYTES_BAD_LEN => {
            if let Some(b) = &h.ub {
                expect_err(UnspendableAccount::from_bytes(&b[..b.len() - 1]));
            }
        }
        UA_FROM_BYTES_BAD_ID => {
            if let Some(b) = &mut h.ub {
                let mut save = [0u8; 8];
                save.copy_from_slice(&b[..8]);
                b[..8].copy_from_slice(&[0xFF; 8]);
                expect_err(UnspendableAccount::from_bytes(b.as_ref()));
                b[..8].copy_from_slice(&save);
            }
        }
        UA_FROM_FELTS_BAD_LEN => {
            if let Some(f) = &h.uf {
                expect_err(UnspendableAccount::from_field_elements(&f[..f.len() - 1]));
            }
        }
        SF_NEW_SPARE => {
            // a caller of the public constructor: full (round, larger than needed) capacity reserved before the
            // secret is written, nullifier-shaped contents, wrapped as it is
            h.sf = None;
            let mut v: Vec<F> = Vec::with_capacity(SF_SPARE_CAP);
            v.extend(bytes_to_digest(p.other));
            v.extend(bytes_to_digest(p.secret));
            v.extend(u64_to_felts(p.tc));
            black_box(&mut v);
            h.sf = Some(SensitiveFelts::new(v));
        }
        SF_READ => {
            if let Some(f) = &h.sf {
                h.nul = Some(Nullifier::from_field_elements(f.as_slice()).unwrap());
            }
        }
        SF_DROP => h.sf = None,
        _ => {}
    }
    checkpoint();
}

/// runs one call sequence under the scanning allocator; returns the observed event list
fn run_sequence(ops: &[u64], p: &Params, scan: bool) -> Vec<i128> {
    let mut out: Vec<i128> = Vec::with_capacity(2 * MAXE + 2);
    if scan {
        start_scan();
    }
    let r = no_panic(|| {
        let mut h = Held { sec: None, nul: None, ua: None, nb: None, nf: None, ub: None, uf: None, sf: None };
        for &c in ops {
            run_op(c, p, &mut h);
        }
        // end of the caller's scope, in the model's order
        h.nb = None;
        h.nf = None;
        h.ub = None;
        h.uf = None;
        h.sf = None;
        checkpoint();
        drop(h);
    });
    if scan {
        stop_scan(&mut out);
    }
    if r.is_none() {
        return vec![-1];
    }
    out
}

// ------------------------------------------------------------------------------------------------ secrets

fn limbs_ok(l: &[u64; 4]) -> bool {
    // canonical, and every limb >= 2^32 so that single limbs are usable as (partial leak) patterns
    l.iter().all(|&x| x < P && x >= (1 << 32))
}

struct SecretCase {
    kind: &'static str,
    limbs: [u64; 4],
}

fn secrets(r: &mut Rng, thorough: bool) -> Vec<SecretCase> {
    let mut v = vec![
        SecretCase { kind: "ascii", limbs: digest_limbs(b"wormhole-zeroize-regression-pat!") },
        SecretCase { kind: "counting", limbs: digest_limbs(&core::array::from_fn(|i| (i + 1) as u8)) },
        SecretCase { kind: "p-1", limbs: [P - 1; 4] },
        SecretCase { kind: "0x11", limbs: digest_limbs(&[0x11u8; 32]) },
        SecretCase { kind: "edges", limbs: [P - 1, P - 2, 0x1_FFFF_FFFF, 0x0123_4567_89AB_CDEF] },
    ];
    let n = if thorough { 7 } else { 3 };
    while v.len() < 5 + n {
        let l = [r.next() % P, r.next() % P, r.edge_felt(), r.next() % P];
        if limbs_ok(&l) {
            v.push(SecretCase { kind: "random", limbs: l });
        }
    }
    for s in &v {
        assert!(limbs_ok(&s.limbs), "{}", s.kind);
    }
    v
}

fn build_params(r: &mut Rng, limbs: &[u64; 4]) -> Params {
    let secret_bytes = limbs_digest(limbs);
    // invalid buffer: one limb replaced by a non-canonical value (>= p), the other three are the secret's
    let k = r.below(4) as usize;
    let mut inv = *limbs;
    inv[k] = P + r.below(u64::MAX - P + 1);
    let mut other;
    loop {
        other = [r.next() % P, r.next() % P, r.next() % P, r.next() % P];
        if other.iter().all(|o| !limbs.contains(o) && *o >= (1 << 32)) {
            break;
        }
    }
    let tc = match r.below(4) {
        0 => 0,
        1 => u64::MAX,
        2 => r.below(1 << 32),
        _ => r.next(),
    };
    Params {
        secret: BytesDigest::try_from(secret_bytes).unwrap(),
        invalid: limbs_digest(&inv),
        other: BytesDigest::try_from(limbs_digest(&other)).unwrap(),
        tc,
    }
}

fn install_patterns(p: &Params, limbs: &[u64; 4]) {
    let pads = expected_upstream_pad_blocks(p.secret, p.tc);
    // 4-bytes-per-felt encoding of the 32 bytes: eight u64 limbs
    let mut img4 = Vec::with_capacity(64);
    for c in p.secret.chunks(4) {
        img4.extend_from_slice(&(u32::from_le_bytes(c.try_into().unwrap()) as u64).to_le_bytes());
    }
    let l: Vec<[u8; 8]> = limbs.iter().map(|x| x.to_le_bytes()).collect();
    let pats: Vec<(&[u8], bool)> = vec![
        (&p.secret[..], true),
        (&img4[..], true),
        (&p.invalid[..], true),
        (&l[0][..], false),
        (&l[1][..], false),
        (&l[2][..], false),
        (&l[3][..], false),
    ];
    set_patterns(&pats, &pads);
}

// ------------------------------------------------------------------------------------------------ Vec growth self-test

fn growth<T: Default + Clone>(cap: usize, steps: &[usize]) -> Vec<i128> {
    let mut v: Vec<T> = Vec::with_capacity(cap);
    let mut out = vec![];
    for &n in steps {
        let chunk = vec![T::default(); n];
        v.extend_from_slice(&chunk);
        out.push(v.capacity() as i128);
    }
    out
}

#[derive(Clone)]
struct Big([u8; 2048]);
impl Default for Big {
    fn default() -> Self {
        Big([0; 2048])
    }
}

fn main() {
    quiet_panics();
    let thorough = tier_is_thorough();
    let mut r = Rng::new(seed_from_env());
    let mut o = Out::new();

    // warm-up outside the scanning window: lazily initialised statics (Poseidon2 instance), panic machinery
    {
        let limbs = digest_limbs(b"wormhole-zeroize-regression-pat!");
        let p = build_params(&mut r.clone(), &limbs);
        let all: Vec<u64> = (0..N_OPS).collect();
        let _ = run_sequence(&all, &p, false);
    }

    // ---- fid 3301: call sequences
    let secs = secrets(&mut r, thorough);
    let mut n_seq = 0usize;
    let (mut stale_blocks, mut stale_seqs, mut stale_example) = (0usize, 0usize, String::new());
    for (si, s) in secs.iter().enumerate() {
        let p = build_params(&mut r, &s.limbs);
        install_patterns(&p, &s.limbs);
        let par: Seg = {
            let mut v = vec![p.tc as i128];
            v.extend(s.limbs.iter().map(|&x| x as i128));
            v.extend(digest_limbs(&p.invalid).iter().map(|&x| x as i128));
            v
        };
        let mut emit = |o: &mut Out, ops: &[u64], tag: &str| {
            let out = run_sequence(ops, &p, true);
            let (n, img) = take_stale();
            if n > 0 {
                stale_blocks += n;
                stale_seqs += 1;
                if stale_example.is_empty() {
                    stale_example = format!(
                        "secret {} limbs {:x?}; call codes {:?}; {}-byte block {}",
                        s.kind, s.limbs, ops, img.len(), hex::encode(&img)
                    );
                }
            }
            o.case(3301, tag, &[seg_u64(ops), par.clone()], &out);
            n_seq += 1;
        };
        // all sequences of length <= 2
        emit(&mut o, &[], &format!("len0/{}", s.kind));
        for a in 0..N_OPS {
            emit(&mut o, &[a], &format!("len1/{}", s.kind));
        }
        for a in 0..N_OPS {
            for b in 0..N_OPS {
                emit(&mut o, &[a, b], &format!("len2/{}", s.kind));
            }
        }
        // length 3: all of them (thorough: every secret; quick: the ASCII and the random secrets), otherwise a sample
        if thorough || si == 0 || s.kind == "random" {
            for a in 0..N_OPS {
                for b in 0..N_OPS {
                    for c in 0..N_OPS {
                        emit(&mut o, &[a, b, c], &format!("len3-all/{}", s.kind));
                    }
                }
            }
        } else {
            for _ in 0..3000 {
                let ops = [r.below(N_OPS), r.below(N_OPS), r.below(N_OPS)];
                emit(&mut o, &ops, &format!("len3-sample/{}", s.kind));
            }
        }
        // longer random sequences, biased to the allocating calls; unknown codes are no-ops
        let hot = [NUL_FROM_PREIMAGE, NUL_TO_BYTES, NUL_TO_FELTS, UA_FROM_SECRET, UA_TO_BYTES, UA_TO_FELTS,
                   SECRET_NEW_VALID, SECRET_NEW_INVALID, NUL_NEW, UA_NEW];
        for _ in 0..(if thorough { 4000 } else { 400 }) {
            let n = 4 + r.below(9) as usize;
            let ops: Vec<u64> = (0..n)
                .map(|_| match r.below(8) {
                    0..=3 => *r.pick(&hot),
                    4 => N_OPS + r.below(5),
                    _ => r.below(N_OPS),
                })
                .collect();
            emit(&mut o, &ops, &format!("long/{}", s.kind));
        }
        // the call sequence of /repo/wormhole/circuit/tests/heap_zeroization.rs
        let upstream = [NUL_FROM_PREIMAGE, NUL_TO_BYTES, NUL_FROM_BYTES, NUL_DROP_BYTES, NUL_TO_FELTS, NUL_FROM_FELTS,
                        NUL_DROP_FELTS, NUL_DROP, NUL_NEW, NUL_DROP, UA_FROM_SECRET, UA_TO_BYTES, UA_FROM_BYTES,
                        UA_DROP_BYTES, UA_TO_FELTS, UA_FROM_FELTS, UA_DROP_FELTS, UA_NEW, NUL_FROM_INPUTS, NUL_DROP,
                        UA_FROM_INPUTS, UA_DROP, SECRET_NEW_VALID, SECRET_EXPOSE, SECRET_FROM_BYTES_DIGEST,
                        SECRET_FROM_DIGEST, SECRET_TRY_FROM, SECRET_DROP];
        emit(&mut o, &upstream, &format!("upstream-test/{}", s.kind));
    }
    o.note("sequences", &n_seq.to_string());
    // FINDING CANDIDATE (not part of the compared observation, layout dependent): heap blocks that are not secret
    // buffers but contain one 8-byte limb of the secret when they are freed
    o.note("stale_limb_blocks", &format!("{} blocks in {} of {} sequences", stale_blocks, stale_seqs, n_seq));
    if !stale_example.is_empty() {
        o.note("stale_limb_example", &stale_example);
    }
    o.note(
        "excluded_secrets",
        "all-zero and any secret with a limb < 2^32: its limb image (4+ zero bytes) occurs in unrelated blocks (pad zeros, transfer-count felts); limb 2^63 avoided (niche value of Option<String>/Vec capacities)",
    );

    // ---- fid 3302: Secret::new on valid and invalid buffers
    let n3302 = if thorough { 20000 } else { 3000 };
    for i in 0..n3302 {
        let (tag, mut buf): (&str, [u8; 32]) = match i % 6 {
            0 => ("valid-random", limbs_digest(&[r.next() % P, r.next() % P, r.next() % P, r.next() % P])),
            1 => ("edge-limbs", limbs_digest(&[r.edge_u64(), r.edge_u64(), r.edge_u64(), r.edge_u64()])),
            2 => {
                let mut l = [r.next() % P, r.next() % P, r.next() % P, r.next() % P];
                l[r.below(4) as usize] = P + r.below(u64::MAX - P + 1);
                ("one-limb-noncanonical", limbs_digest(&l))
            }
            3 => ("random-bytes", core::array::from_fn(|_| r.next() as u8)),
            4 => {
                let mut l = [r.edge_felt(), r.edge_felt(), r.edge_felt(), r.edge_felt()];
                l[r.below(4) as usize] = *r.pick(&[P - 1, P, P + 1, u64::MAX, 0]);
                ("boundary", limbs_digest(&l))
            }
            _ => ("constant-byte", [*r.pick(&[0u8, 0x11, 0x7F, 0x80, 0xFE, 0xFF]); 32]),
        };
        let input = buf;
        let res = no_panic(|| Secret::new(&mut buf));
        let out: Vec<i128> = match res {
            None => vec![-1],
            Some(x) => {
                let mut v = vec![x.is_ok() as i128];
                v.extend(black_box(&buf).iter().map(|&b| b as i128));
                if let Ok(s) = &x {
                    if s.as_bytes() != &input {
                        v.push(-3); // the wrapped value differs from the input
                    }
                }
                v
            }
        };
        o.case(3302, tag, &[seg_bytes(&input)], &out);
    }

    // ---- fid 3303: the model's Vec growth rule against real Vecs
    let n3303 = if thorough { 4000 } else { 600 };
    for i in 0..n3303 {
        let cap = match r.below(4) {
            0 => 0,
            1 => r.below(10),
            _ => r.below(80),
        } as usize;
        let steps: Vec<usize> = (0..1 + r.below(6)).map(|_| if r.chance(1, 6) { 0 } else { r.below(40) as usize }).collect();
        let (elem, out): (usize, Vec<i128>) = match i % 5 {
            0 => (1, growth::<u8>(cap, &steps)),
            1 => (8, growth::<u64>(cap, &steps)),
            2 => (2, growth::<u16>(cap, &steps)),
            3 => (16, growth::<u128>(cap, &steps)),
            _ => (2048, growth::<Big>(cap % 8, &steps.iter().map(|s| s % 5).collect::<Vec<_>>())),
        };
        let (cap, steps) = if elem == 2048 { (cap % 8, steps.iter().map(|s| s % 5).collect()) } else { (cap, steps) };
        o.case(3303, &format!("elem{}", elem), &[seg_usize(&[elem, cap]), seg_usize(&steps)], &out);
    }
    o.flush();
}
