//! C19-C22: the proof pool, implementation side.
//!
//! Runs random operation histories on the real `ProofPool` (over a cheap fake private-batch circuit,
//! as the pool's own unit tests do) under a *virtual clock*, and prints after every operation the
//! canonical whole-state observation. The Coq model (`coq/Sys/Pool.v`, fid 1901) replays the same
//! history and must print the same observations. fid 2102 runs the public-batch preflight alone.
//!
//! The histories are independent, so the parent process shards them over child processes (each child
//! has its own virtual clock and its own verifier-call counter).
use std::collections::{HashMap, HashSet};
use std::sync::atomic::{AtomicU64, Ordering};
use std::time::{Duration, Instant};

use plonky2::field::types::Field;
use plonky2::iop::target::Target;
use plonky2::iop::witness::{PartialWitness, WitnessWrite};
use plonky2::plonk::circuit_builder::CircuitBuilder;
use plonky2::plonk::circuit_data::{CircuitConfig, CircuitData, VerifierCircuitData};
use plonky2::plonk::proof::ProofWithPublicInputs;
use qp_wormhole_inputs::BytesDigest;
use verif_harness::*;
use wormhole_aggregator::pool::{BatchKey, PoolLimits, ProofPool, VERIF_VERIFY_CALLS};
use wormhole_aggregator::private_batch::circuit::constants::aggregated_output as ao;
use wormhole_aggregator::public_batch::prover::lib::verif_c21_preflight_private_batch_proofs;
use zk_circuits_common::circuit::{C, D, F};

type Proof = ProofWithPublicInputs<F, C, D>;

// ------------------------------------------------------------------------------------------ virtual clock

/// Virtual monotonic time = BASE + OFFSET nanoseconds. BASE is large so that no `Instant - Duration`
/// can underflow.
const BASE_NS: u64 = 4_000_000_000_000_000; // ~46 days
static OFFSET_NS: AtomicU64 = AtomicU64::new(0);

/// `std::time::Instant::now()` resolves to this symbol (statically linked std, dynamic libc): the
/// monotonic clocks are replaced by the virtual time, everything else is the real syscall.
#[no_mangle]
pub unsafe extern "C" fn clock_gettime(clk: libc::clockid_t, ts: *mut libc::timespec) -> libc::c_int {
    let r = libc::syscall(libc::SYS_clock_gettime, clk, ts) as libc::c_int;
    if r == 0
        && !ts.is_null()
        && (clk == libc::CLOCK_MONOTONIC || clk == libc::CLOCK_MONOTONIC_RAW || clk == libc::CLOCK_BOOTTIME)
    {
        let t = BASE_NS + OFFSET_NS.load(Ordering::SeqCst);
        (*ts).tv_sec = (t / 1_000_000_000) as libc::time_t;
        (*ts).tv_nsec = (t % 1_000_000_000) as libc::c_long;
    }
    r
}

fn advance(ns: u64) {
    OFFSET_NS.fetch_add(ns, Ordering::SeqCst);
}

fn clock_self_test() {
    let a = Instant::now();
    std::thread::sleep(Duration::from_millis(2));
    let b = Instant::now();
    assert_eq!(b.duration_since(a), Duration::ZERO, "virtual clock is not frozen");
    advance(5);
    let c = Instant::now();
    assert_eq!(c.duration_since(a), Duration::from_nanos(5), "virtual clock does not advance exactly");
    advance(3_000_000_007);
    let d = Instant::now();
    assert_eq!(d.duration_since(c), Duration::from_nanos(3_000_000_007));
}

// ------------------------------------------------------------------------------------------ fake circuit

struct Circ {
    leaves: usize,
    data: CircuitData<F, C, D>,
    targets: Vec<Target>,
    verifier: VerifierCircuitData<F, C, D>,
}

/// Same shape as pool.rs's `build_fake_private_batch_circuit`: public inputs laid out like a private
/// batch over `leaves` leaves, one range check.
fn build_circ(leaves: usize) -> Circ {
    let config = CircuitConfig::standard_recursion_config();
    let mut builder = CircuitBuilder::<F, D>::new(config);
    let pis = builder.add_virtual_targets(ao::pi_len(leaves));
    builder.range_check(pis[0], 32);
    builder.register_public_inputs(&pis);
    let data = builder.build::<C>();
    let verifier = data.verifier_data();
    Circ { leaves, data, targets: pis, verifier }
}

/// A valid proof of the universe: which key, which nullifiers; the exit sums follow from the two.
#[derive(Clone, PartialEq, Eq, Hash, Debug)]
struct Spec {
    leaves: usize,
    key: usize,   // index into KEYS
    nulls: usize, // index into NULLS (1 leaf) or NULL_PAIRS (2 leaves)
}

const KEYS: [[u64; 6]; 6] = [
    [0, 0, 0, 0, 0, 10], // the all-dummy sentinel
    [1, 0, 0, 0, 0, 10],
    [2, 0, 0, 0, 0, 10],
    [1, 0, 0, 0, 1, 10], // same block, other asset
    [1, 0, 0, 0, 0, 20], // same block, other fee
    [0, 0, 0, 1, 0, 10], // first limb zero but not dummy
];
const NULLS: [[u64; 4]; 6] = [
    [1, 0, 0, 0],
    [2, 0, 0, 0],
    [3, 0, 0, 0],
    [4, 0, 0, 0],
    [5, 0, 0, 0],
    [1, 0, 0, 1], // differs from the first only in the last limb
];
/// two-leaf proofs: pairs of NULLS indices (including a proof whose two nullifiers coincide)
const NULL_PAIRS: [(usize, usize); 12] =
    [(0, 1), (1, 0), (0, 0), (2, 3), (4, 5), (1, 2), (3, 4), (5, 0), (2, 2), (0, 2), (1, 3), (4, 0)];
/// exit sums per slot; includes values whose sum saturates u64
const SUM_PATTERNS: [[u64; 4]; 4] =
    [[100, 50, 3, 0], [0, 0, 0, 0], [P - 1, P - 1, 1, 2], [1 << 63, 7, 1 << 63, 1]];

fn spec_nulls(s: &Spec) -> Vec<[u64; 4]> {
    if s.leaves == 1 {
        vec![NULLS[s.nulls]]
    } else {
        let (a, b) = NULL_PAIRS[s.nulls];
        vec![NULLS[a], NULLS[b]]
    }
}
fn spec_id(s: &Spec) -> usize {
    if s.leaves == 1 {
        s.key * NULLS.len() + s.nulls
    } else {
        KEYS.len() * NULLS.len() + s.key * NULL_PAIRS.len() + s.nulls
    }
}
fn all_specs() -> Vec<Spec> {
    let mut v = Vec::new();
    for key in 0..KEYS.len() {
        for nulls in 0..NULLS.len() {
            v.push(Spec { leaves: 1, key, nulls });
        }
    }
    for key in 0..KEYS.len() {
        for nulls in 0..NULL_PAIRS.len() {
            v.push(Spec { leaves: 2, key, nulls });
        }
    }
    for (i, s) in v.iter().enumerate() {
        assert_eq!(spec_id(s), i);
    }
    v
}

fn spec_values(s: &Spec) -> Vec<u64> {
    let mut v = vec![0u64; ao::pi_len(s.leaves)];
    let key = KEYS[s.key];
    v[ao::NUM_EXIT_SLOTS_OFFSET] = 2 * s.leaves as u64;
    v[ao::ASSET_ID_OFFSET] = key[4];
    v[ao::VOLUME_FEE_BPS_OFFSET] = key[5];
    for i in 0..4 {
        v[ao::BLOCK_HASH_OFFSET + i] = key[i];
    }
    // serial number of the proof, in a slot the pool does not look at
    v[ao::BLOCK_NUMBER_OFFSET] = 1000 + spec_id(s) as u64;
    let pat = SUM_PATTERNS[(s.key + s.nulls) % SUM_PATTERNS.len()];
    for i in 0..2 * s.leaves {
        v[ao::exit_slots_start() + i * ao::EXIT_SLOT_LEN] = pat[i];
    }
    for (i, n) in spec_nulls(s).iter().enumerate() {
        for j in 0..4 {
            v[ao::nullifiers_start(s.leaves) + 4 * i + j] = n[j];
        }
    }
    v
}

struct Universe {
    circs: Vec<Circ>,   // index = leaves - 1
    proofs: Vec<Proof>, // index = spec_id
    ver_cache: HashMap<(usize, Vec<u64>), bool>,
}

impl Universe {
    /// prove every spec (parent process, all cores)
    fn build() -> Self {
        use rayon::prelude::*;
        let circs = vec![build_circ(1), build_circ(2)];
        let proofs: Vec<Proof> = all_specs()
            .par_iter()
            .map(|s| {
                let c = &circs[s.leaves - 1];
                let vals = spec_values(s);
                let mut pw = PartialWitness::new();
                for (t, v) in c.targets.iter().zip(vals.iter()) {
                    pw.set_target(*t, F::from_canonical_u64(*v)).unwrap();
                }
                c.data.prove(pw).unwrap()
            })
            .collect();
        Universe { circs, proofs, ver_cache: HashMap::new() }
    }
    fn save(&self, path: &std::path::Path) {
        let mut buf: Vec<u8> = Vec::new();
        for p in &self.proofs {
            let b = p.to_bytes();
            buf.extend_from_slice(&(b.len() as u64).to_le_bytes());
            buf.extend_from_slice(&b);
        }
        std::fs::write(path, buf).expect("write universe");
    }
    /// child process: rebuild the (deterministic) circuits, load the proofs, check they verify
    fn load(path: &std::path::Path) -> Self {
        let circs = vec![build_circ(1), build_circ(2)];
        let buf = std::fs::read(path).expect("read universe");
        let specs = all_specs();
        let mut proofs = Vec::new();
        let mut at = 0usize;
        for s in &specs {
            let n = u64::from_le_bytes(buf[at..at + 8].try_into().unwrap()) as usize;
            at += 8;
            let p = Proof::from_bytes(buf[at..at + n].to_vec(), &circs[s.leaves - 1].data.common).expect("proof bytes");
            at += n;
            proofs.push(p);
        }
        assert_eq!(at, buf.len());
        let mut u = Universe { circs, proofs, ver_cache: HashMap::new() };
        for s in &specs {
            let p = u.proofs[spec_id(s)].clone();
            assert!(u.verifies(s.leaves, &p), "universe proof does not verify");
        }
        u
    }
    fn circ(&self, leaves: usize) -> &Circ {
        &self.circs[leaves - 1]
    }
    fn prove(&mut self, s: &Spec) -> Proof {
        self.proofs[spec_id(s)].clone()
    }
    /// what the cryptographic verifier says about this proof (the model's `p_ver`), asked outside the pool
    fn verifies(&mut self, leaves: usize, p: &Proof) -> bool {
        let raw: Vec<u64> = p.public_inputs.iter().map(|f| f.0).collect();
        let k = (leaves, raw);
        if let Some(b) = self.ver_cache.get(&k) {
            return *b;
        }
        let b = no_panic(|| self.circs[leaves - 1].verifier.verify(p.clone()).is_ok()).unwrap_or(false);
        self.ver_cache.insert(k, b);
        b
    }
}

fn random_spec(r: &mut Rng, leaves: usize, dummy: bool) -> Spec {
    let key = if dummy {
        0
    } else {
        // favour two keys so that buckets fill up and the bucket cap is hit by the others
        match r.below(10) {
            0..=3 => 1,
            4..=6 => 2,
            7 => 3,
            8 => 4,
            _ => 5,
        }
    };
    let nulls = r.below(if leaves == 1 { NULLS.len() } else { NULL_PAIRS.len() } as u64) as usize;
    Spec { leaves, key, nulls }
}

// ------------------------------------------------------------------------------------------ encoding

fn limbs(d: &BytesDigest) -> [u64; 4] {
    digest_limbs(d)
}
fn key6(k: &BatchKey) -> [u64; 6] {
    let l = limbs(&k.block_hash);
    [l[0], l[1], l[2], l[3], k.asset_id, k.volume_fee_bps]
}
fn batch_key(k: &[u64; 6]) -> BatchKey {
    BatchKey {
        block_hash: BytesDigest::try_from(limbs_digest(&[k[0], k[1], k[2], k[3]])).unwrap(),
        asset_id: k[4],
        volume_fee_bps: k[5],
    }
}
fn digest_of(l: &[u64; 4]) -> BytesDigest {
    BytesDigest::try_from(limbs_digest(l)).unwrap_or_else(|_| BytesDigest::new_unchecked(limbs_digest(l)))
}
fn ns(d: Duration) -> i128 {
    d.as_nanos() as i128
}
fn push_all(o: &mut Vec<i128>, xs: &[u64]) {
    for x in xs {
        o.push(*x as i128);
    }
}
fn enc_opt_age(o: &mut Vec<i128>, a: Option<Duration>) {
    match a {
        None => o.push(0),
        Some(d) => {
            o.push(1);
            o.push(ns(d));
        }
    }
}
fn enc_proofs(o: &mut Vec<i128>, ps: &[Proof]) {
    o.push(ps.len() as i128);
    for p in ps {
        o.push(p.public_inputs.len() as i128);
        for f in &p.public_inputs {
            o.push(f.0 as i128);
        }
    }
}

const PUSH_ERRS: [(&str, i128); 7] = [
    ("proof pool is full", 1),
    ("public input length mismatch", 2),
    ("all-dummy", 3),
    ("verification budget exhausted", 4),
    ("verification failed", 5),
    ("bucket limit reached", 6),
    ("already staged", 7),
];
fn push_err_code(msg: &str) -> i128 {
    for (s, c) in PUSH_ERRS {
        if msg.contains(s) {
            return c;
        }
    }
    99
}
const PF_ERRS: [(&str, i128); 8] = [
    ("no private-batch proofs to aggregate", 1),
    ("Expected at most", 2),
    ("public input length mismatch", 3),
    ("failed verification", 4),
    ("different block", 5),
    ("asset_id=", 6),
    ("volume_fee_bps=", 7),
    ("all-dummy", 8),
];
fn enc_preflight(o: &mut Vec<i128>, r: Option<anyhow::Result<()>>) {
    match r {
        None => o.push(-1),
        Some(Ok(())) => o.push(1),
        Some(Err(e)) => {
            let msg = format!("{:#}", e);
            o.push(0);
            o.push(PF_ERRS.iter().find(|(s, _)| msg.contains(s)).map(|(_, c)| *c).unwrap_or(99));
        }
    }
}

/// whole-state observation: budget window, counts through the public API, every bucket (sorted by the
/// numeric key) with every pooled proof in admission order, the nullifier index (sorted); then
/// bucket_stats (sorted the same way)
fn enc_state(o: &mut Vec<i128>, pool: &ProofPool) {
    let st = pool.verif_state();
    o.push(st.window_age.map(ns).unwrap_or(-3));
    o.push(st.verifies_in_window as i128);
    o.push(pool.len() as i128);
    o.push(pool.num_buckets() as i128);
    let mut bs: Vec<_> = st.buckets.iter().collect();
    bs.sort_by_key(|b| key6(&b.key));
    for b in bs {
        push_all(o, &key6(&b.key));
        match b.last_snapshot_age {
            None => o.push(0),
            Some(a) => {
                o.push(1);
                o.push(a.map(ns).unwrap_or(-3));
            }
        }
        o.push(b.proofs.len() as i128);
        for q in &b.proofs {
            o.push(q.public_inputs.get(ao::BLOCK_NUMBER_OFFSET).map(|x| *x as i128).unwrap_or(-7));
            o.push(q.nullifiers.len() as i128);
            for n in &q.nullifiers {
                push_all(o, &limbs(n));
            }
            o.push(q.volume as i128);
            o.push(q.age.map(ns).unwrap_or(-3));
        }
    }
    let mut idx: Vec<Vec<u64>> = st
        .nullifier_index
        .iter()
        .map(|(n, k)| limbs(n).iter().chain(key6(k).iter()).copied().collect())
        .collect();
    idx.sort();
    o.push(idx.len() as i128);
    for e in idx {
        push_all(o, &e);
    }
    enc_stats(o, pool);
}

fn enc_stats(o: &mut Vec<i128>, pool: &ProofPool) {
    let mut stats = pool.bucket_stats();
    stats.sort_by_key(|s| key6(&s.key));
    o.push(stats.len() as i128);
    for s in stats {
        push_all(o, &key6(&s.key));
        o.push(s.num_proofs as i128);
        o.push(s.batch_size as i128);
        o.push(ns(s.oldest_age));
        o.push(s.total_volume as i128);
        enc_opt_age(o, s.last_snapshot_age);
    }
}

// ------------------------------------------------------------------------------------------ histories

#[derive(Default)]
struct Counts(std::collections::BTreeMap<String, u64>);
impl Counts {
    fn hit(&mut self, k: &str) {
        *self.0.entry(k.to_string()).or_insert(0) += 1;
    }
}

const WINDOWS: [u64; 8] = [1, 7, 7, 1_000, 1_000, 1_000_000_000, 60_000_000_000, 3_600_000_000_000];

/// a key for snapshot / remove_bucket: mostly one that is pooled right now
fn pick_key(r: &mut Rng, pool: &ProofPool) -> [u64; 6] {
    let st = pool.verif_state();
    if !st.buckets.is_empty() && r.chance(7, 10) {
        key6(&st.buckets[r.below(st.buckets.len() as u64) as usize].key)
    } else {
        *r.pick(&KEYS)
    }
}

fn one_history(u: &mut Universe, r: &mut Rng, out: &mut Out, cnt: &mut Counts, max_ops: usize) {
    let leaves = if r.chance(7, 10) { 1 } else { 2 };
    let batch = 1 + r.below(3) as usize;
    let max_proofs = (batch + r.below(3) as usize).min(if r.chance(1, 8) { 5 } else { 3 }).max(batch);
    let max_buckets = 1 + r.below(3) as usize;
    let budget = if r.chance(1, 3) { 4 + r.below(5) as usize } else { 1 + r.below(3) as usize };
    let window = *r.pick(&WINDOWS);
    let limits = PoolLimits {
        max_proofs,
        max_buckets,
        max_verifies_per_window: budget,
        verify_window: Duration::from_nanos(window),
    };
    let verifier = u.circ(leaves).verifier.clone();
    let mut pool = ProofPool::new(verifier.clone(), leaves, batch, limits).expect("pool config");
    let pi_len = ao::pi_len(leaves);

    let mut segs: Vec<Seg> = vec![seg_u64(&[
        max_proofs as u64,
        max_buckets as u64,
        batch as u64,
        budget as u64,
        window,
        leaves as u64,
        pi_len as u64,
    ])];
    let mut obs: Vec<i128> = Vec::new();
    let nops = 1 + r.below(max_ops as u64) as usize;
    let mut tagbits: u32 = 0;
    for _ in 0..nops {
        let calls0 = VERIF_VERIFY_CALLS.load(Ordering::SeqCst);
        let kind = r.below(100);
        let mut seg: Seg;
        let mut o: Vec<i128> = Vec::new();
        let mut panicked = false;
        if kind < 46 {
            // ---- push
            let v = r.below(100);
            let dummy = (62..70).contains(&v);
            let spec = random_spec(r, leaves, dummy);
            let mut proof = u.prove(&spec);
            let variant = if v < 62 {
                "valid"
            } else if dummy {
                "dummy-key"
            } else if v < 82 {
                // tampered after proving: another asset / a nullifier limb / the block hash
                match r.below(3) {
                    0 => proof.public_inputs[ao::ASSET_ID_OFFSET] = F::from_canonical_u64(9),
                    1 => {
                        let n = *r.pick(&NULLS);
                        for j in 0..4 {
                            proof.public_inputs[ao::nullifiers_start(leaves) + j] = F::from_canonical_u64(n[j]);
                        }
                    }
                    _ => {
                        let k = KEYS[1 + r.below(5) as usize];
                        for j in 0..4 {
                            proof.public_inputs[ao::BLOCK_HASH_OFFSET + j] = F::from_canonical_u64(k[j]);
                        }
                        proof.public_inputs[ao::ASSET_ID_OFFSET] = F::from_canonical_u64(k[4]);
                        proof.public_inputs[ao::VOLUME_FEE_BPS_OFFSET] = F::from_canonical_u64(k[5]);
                    }
                }
                "tampered"
            } else if v < 90 {
                match r.below(3) {
                    0 => {
                        proof.public_inputs.pop();
                    }
                    1 => proof.public_inputs.push(F::ZERO),
                    _ => proof.public_inputs.truncate(r.below(pi_len as u64) as usize),
                }
                "wrong-length"
            } else {
                // non-canonical representation x + p of a small public input (same field element)
                let cands = [
                    ao::ASSET_ID_OFFSET,
                    ao::VOLUME_FEE_BPS_OFFSET,
                    ao::BLOCK_HASH_OFFSET,
                    ao::BLOCK_HASH_OFFSET + 3,
                    ao::nullifiers_start(leaves),
                    ao::exit_slots_start(),
                ];
                let i = *r.pick(&cands);
                let x = proof.public_inputs[i].0;
                if x < (1u64 << 32) - 1 {
                    proof.public_inputs[i] = plonky2::field::goldilocks_field::GoldilocksField(x + P);
                }
                "non-canonical"
            };
            let ver = u.verifies(leaves, &proof);
            seg = vec![1, ver as i128];
            for f in &proof.public_inputs {
                seg.push(f.0 as i128);
            }
            let res = no_panic(|| pool.push(proof));
            match res {
                None => panicked = true,
                Some(Ok(k)) => {
                    o.push(1);
                    push_all(&mut o, &key6(&k));
                    cnt.hit(&format!("push:{}:admitted", variant));
                    tagbits |= 1;
                }
                Some(Err(e)) => {
                    let c = push_err_code(&e.to_string());
                    o.push(0);
                    o.push(c);
                    cnt.hit(&format!("push:{}:reject{}", variant, c));
                    // 1: rejected before the budget check, 2: budget, 3: verification, 4: bucket cap, 5: duplicate
                    tagbits |= match c {
                        1 | 2 | 3 => 1 << 1,
                        4 => 1 << 2,
                        5 => 1 << 3,
                        6 => 1 << 4,
                        7 => 1 << 5,
                        _ => 1 << 6,
                    };
                }
            }
        } else if kind < 56 {
            // ---- evict_settled
            let n = r.below(4) as usize;
            let mut set: Vec<[u64; 4]> = Vec::new();
            for _ in 0..n {
                let mut d = if r.chance(1, 10) { [9, 9, 9, 9] } else { *r.pick(&NULLS) };
                if r.chance(1, 8) {
                    // the NON-CANONICAL byte twin of a nullifier (one limb + p): other bytes, same field elements -
                    // a settlement entry that must not match anything
                    if let Some(k) = (0..4).find(|&k| d[k] < (u64::MAX - P)) {
                        d[k] += P;
                    }
                }
                if !set.contains(&d) {
                    set.push(d);
                }
            }
            seg = vec![2];
            for d in &set {
                for l in d {
                    seg.push(*l as i128);
                }
            }
            let hs: HashSet<BytesDigest> = set.iter().map(digest_of).collect();
            match no_panic(|| pool.evict_settled(&hs)) {
                None => panicked = true,
                Some(c) => {
                    o.push(c as i128);
                    cnt.hit(if c > 0 { "evict_settled:some" } else { "evict_settled:none" });
                }
            }
        } else if kind < 64 {
            // ---- evict_older_than, cutoff aimed at the age of a pooled proof (age-1, age, age+1)
            let st = pool.verif_state();
            let ages: Vec<u64> = st
                .buckets
                .iter()
                .flat_map(|b| b.proofs.iter().map(|q| q.age.map(|d| d.as_nanos() as u64).unwrap_or(0)))
                .collect();
            let age = if !ages.is_empty() && r.chance(3, 4) {
                let a = *r.pick(&ages);
                match r.below(3) {
                    0 => a.saturating_sub(1),
                    1 => a,
                    _ => a + 1,
                }
            } else {
                *r.pick(&[0u64, 1, 5, 1_000_000_000, u64::MAX / 4])
            };
            // cutoffs beyond what fits in nanoseconds-as-u64 ("never expire" values): Duration::MAX and the values around
            // i64::MAX seconds, where `Instant - Duration` stops being representable on this platform
            let max_age: Duration = if r.chance(1, 6) {
                *r.pick(&[Duration::MAX, Duration::from_secs(u64::MAX), Duration::from_secs(i64::MAX as u64), Duration::from_secs(i64::MAX as u64 + 1), Duration::from_secs(u64::MAX / 2 - 1_000_000)])
            } else {
                Duration::from_nanos(age)
            };
            seg = vec![3, max_age.as_nanos() as i128];
            match no_panic(|| pool.evict_older_than(max_age)) {
                None => panicked = true,
                Some(c) => {
                    o.push(c as i128);
                    cnt.hit(if c > 0 { "evict_older:some" } else { "evict_older:none" });
                }
            }
        } else if kind < 75 {
            // ---- snapshot_batch (+ the real public-batch preflight on what it returned)
            let k = pick_key(r, &pool);
            seg = vec![4];
            for l in &k {
                seg.push(*l as i128);
            }
            match no_panic(|| pool.snapshot_batch(&batch_key(&k))) {
                None => panicked = true,
                Some(None) => {
                    o.push(0);
                    cnt.hit("snapshot:none");
                }
                Some(Some(ps)) => {
                    o.push(1);
                    enc_proofs(&mut o, &ps);
                    let pf = no_panic(|| verif_c21_preflight_private_batch_proofs(&ps, batch, &verifier));
                    if !matches!(pf, Some(Ok(()))) {
                        cnt.hit("snapshot:preflight-REJECTED");
                    }
                    enc_preflight(&mut o, pf);
                    cnt.hit(&format!("snapshot:some:{}of{}", ps.len(), batch));
                }
            }
        } else if kind < 81 {
            // ---- remove_bucket
            let k = pick_key(r, &pool);
            seg = vec![5];
            for l in &k {
                seg.push(*l as i128);
            }
            match no_panic(|| pool.remove_bucket(&batch_key(&k))) {
                None => panicked = true,
                Some(ps) => {
                    enc_proofs(&mut o, &ps);
                    cnt.hit(if ps.is_empty() { "remove_bucket:absent" } else { "remove_bucket:some" });
                }
            }
        } else if kind < 97 {
            // ---- advance the clock; half of the time aimed at the window boundary (w-1, w, w+1)
            let st = pool.verif_state();
            let a = st.window_age.map(|d| d.as_nanos() as u64).unwrap_or(0);
            let dt = if r.chance(1, 2) && a + 1 < window {
                let d = window - a;
                cnt.hit("advance:aimed-at-window-boundary");
                match r.below(3) {
                    0 => d - 1,
                    1 => d,
                    _ => d + 1,
                }
            } else {
                cnt.hit("advance:free");
                *r.pick(&[0u64, 1, 1, 2, 3, 6, 7, 500, 999, 1_000, 1_000_000_000, 59_999_999_999])
            };
            seg = vec![6, dt as i128];
            advance(dt);
        } else {
            seg = vec![7];
            let mut s = Vec::new();
            enc_stats(&mut s, &pool);
            o.extend(s);
            cnt.hit("stats");
        }
        if panicked {
            obs.push(-1);
            segs.push(std::mem::take(&mut seg));
            cnt.hit("PANIC");
            break;
        }
        let calls1 = VERIF_VERIFY_CALLS.load(Ordering::SeqCst);
        // one frame per op: [len(ret), ret.., len(rest), rest..] so that a disagreement can be attributed to an op
        let mut rest: Vec<i128> = vec![(calls1 - calls0) as i128];
        enc_state(&mut rest, &pool);
        obs.push(o.len() as i128);
        obs.extend(o);
        obs.push(rest.len() as i128);
        obs.extend(rest);
        segs.push(seg);
    }
    let tag = format!("L{}:{:x}", leaves, tagbits);
    out.case(1901, &tag, &segs, &obs);
}

/// fid 2102: the public-batch preflight on arbitrary small proof vectors (accepting and rejecting)
fn preflight_cases(u: &mut Universe, r: &mut Rng, out: &mut Out, cnt: &mut Counts, n: usize) {
    for _ in 0..n {
        let leaves = if r.chance(7, 10) { 1 } else { 2 };
        let batch = 1 + r.below(3) as usize;
        let pi_len = ao::pi_len(leaves);
        let count = r.below(5) as usize;
        let same_key = r.chance(1, 2);
        let base = random_spec(r, leaves, false);
        let mut ps: Vec<Proof> = Vec::new();
        let mut segs: Vec<Seg> = vec![seg_u64(&[9, 9, batch as u64, 1, 1, leaves as u64, pi_len as u64])];
        for _ in 0..count {
            let dummy = r.chance(1, 5);
            let mut s = random_spec(r, leaves, dummy);
            if same_key && s.key != 0 {
                s.key = base.key;
            }
            let mut p = u.prove(&s);
            match r.below(12) {
                0 => p.public_inputs[ao::ASSET_ID_OFFSET] = F::from_canonical_u64(9),
                1 => {
                    p.public_inputs.pop();
                }
                2 => {
                    let i = *r.pick(&[ao::ASSET_ID_OFFSET, ao::BLOCK_HASH_OFFSET + 1]);
                    let x = p.public_inputs[i].0;
                    p.public_inputs[i] = plonky2::field::goldilocks_field::GoldilocksField(x + P);
                }
                _ => {}
            }
            let ver = u.verifies(leaves, &p);
            let mut seg: Seg = vec![ver as i128];
            for f in &p.public_inputs {
                seg.push(f.0 as i128);
            }
            segs.push(seg);
            ps.push(p);
        }
        let verifier = u.circ(leaves).verifier.clone();
        let pf = no_panic(|| verif_c21_preflight_private_batch_proofs(&ps, batch, &verifier));
        let mut o = Vec::new();
        enc_preflight(&mut o, pf);
        cnt.hit(&format!("preflight:{}", if o[0] == 1 { "ok".to_string() } else { format!("reject{}", o.get(1).copied().unwrap_or(-1)) }));
        out.case(2102, &format!("pf{}", o.get(1).copied().unwrap_or(0)), &segs, &o);
    }
}

fn mix(seed: u64, i: u64) -> u64 {
    let mut r = Rng::new(seed.wrapping_mul(0x9E37_79B9_7F4A_7C15) ^ i.wrapping_mul(0xD1B5_4A32_D192_ED03));
    r.next()
}

fn child(shard: u64, nshards: u64, histories: u64, pf_cases: u64, max_ops: usize) {
    quiet_panics();
    clock_self_test();
    let seed = seed_from_env();
    let mut u = Universe::load(std::path::Path::new(&std::env::var("VERIF_POOL_UNIVERSE").expect("universe path")));
    let mut out = Out::new();
    let mut cnt = Counts::default();
    let mut i = shard;
    while i < histories {
        let mut r = Rng::new(mix(seed, i));
        one_history(&mut u, &mut r, &mut out, &mut cnt, max_ops);
        i += nshards;
    }
    let mut i = shard;
    while i < pf_cases {
        let mut r = Rng::new(mix(seed ^ 0x5555, i));
        preflight_cases(&mut u, &mut r, &mut out, &mut cnt, 1);
        i += nshards;
    }
    for (k, v) in &cnt.0 {
        out.note(k, &v.to_string());
    }
    out.flush();
}

fn main() {
    let thorough = tier_is_thorough();
    let histories: u64 = std::env::var("VERIF_POOL_HISTORIES")
        .ok()
        .and_then(|s| s.parse().ok())
        .unwrap_or(if thorough { 50_000 } else { 3_000 });
    let pf_cases: u64 = if thorough { 4_000 } else { 400 };
    let max_ops = 40;
    if let Ok(s) = std::env::var("VERIF_POOL_SHARD") {
        let (a, b) = s.split_once('/').expect("shard spec");
        child(a.parse().unwrap(), b.parse().unwrap(), histories, pf_cases, max_ops);
        return;
    }
    let n = std::thread::available_parallelism().map(|x| x.get()).unwrap_or(4).clamp(1, 16) as u64;
    let exe = std::env::current_exe().expect("current_exe");
    // the proof universe is proved once, here, with all cores; the shards load it
    let upath = std::env::temp_dir().join(format!("verif-pool-universe-{}.bin", std::process::id()));
    Universe::build().save(&upath);
    let kids: Vec<_> = (0..n)
        .map(|i| {
            let child = std::process::Command::new(&exe)
                .env("VERIF_POOL_SHARD", format!("{}/{}", i, n))
                .env("VERIF_POOL_UNIVERSE", &upath)
                .env("RAYON_NUM_THREADS", "1")
                .stdout(std::process::Stdio::piped())
                .spawn()
                .expect("spawn shard");
            std::thread::spawn(move || child.wait_with_output().expect("shard output"))
        })
        .collect();
    let mut notes: std::collections::BTreeMap<String, u64> = Default::default();
    let stdout = std::io::stdout();
    let mut w = std::io::BufWriter::new(stdout.lock());
    use std::io::Write;
    let mut failed = false;
    for k in kids {
        let o = k.join().expect("shard thread");
        if !o.status.success() {
            failed = true;
            continue;
        }
        for line in String::from_utf8_lossy(&o.stdout).lines() {
            if let Some(rest) = line.strip_prefix('#') {
                if let Some((k, v)) = rest.split_once('\t') {
                    *notes.entry(k.to_string()).or_insert(0) += v.parse::<u64>().unwrap_or(0);
                }
            } else {
                writeln!(w, "{}", line).unwrap();
            }
        }
    }
    for (k, v) in notes {
        writeln!(w, "#{}\t{}", k, v).unwrap();
    }
    w.flush().unwrap();
    let _ = std::fs::remove_file(&upath);
    if failed {
        std::process::exit(3);
    }
}
