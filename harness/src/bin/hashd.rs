//! Native Poseidon2 oracle for the extracted circuit models: reads one line of space-separated hex felts,
//! answers with the 4 hex felts of `Poseidon2Hash::hash_no_pad` (the CPU twin of the in-circuit
//! `hash_n_to_hash_no_pad_p2`). Used by model/driver_h.ml; keeps Poseidon2 out of the Coq model (the
//! theorems quantify over an arbitrary H).
use plonky2::field::types::{Field, PrimeField64};
use plonky2::hash::poseidon2::Poseidon2Hash;
use plonky2::plonk::config::Hasher;
use std::io::{BufRead, Write};
use zk_circuits_common::circuit::F;

fn main() {
    let stdin = std::io::stdin();
    let stdout = std::io::stdout();
    let mut out = stdout.lock();
    for line in stdin.lock().lines() {
        let line = line.unwrap();
        let felts: Vec<F> = line.split_whitespace().map(|t| F::from_noncanonical_u64(u64::from_str_radix(t, 16).unwrap())).collect();
        let h = Poseidon2Hash::hash_no_pad(&felts).elements;
        writeln!(out, "{:x} {:x} {:x} {:x}", h[0].to_canonical_u64(), h[1].to_canonical_u64(), h[2].to_canonical_u64(), h[3].to_canonical_u64()).unwrap();
        out.flush().unwrap();
    }
}
