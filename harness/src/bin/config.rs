//! C28 (circuit-config policy, constructors, memprof CLI) and C35 (transfer-proof JSON), implementation side.
//!
//! fids
//!   2801  validate_circuit_config(cfg)                      seg0 = cfg (9 fields)            out [1] | [0]
//!   2802  constructor k over cfg                            seg0 = [k], seg1 = cfg           out [1] | [0] | [-1] panic | [-3] rejected only after work
//!   2803  AggConfigArgs (clap) validate + build             seg0 = 18 ints (see dec_args)    out [ok] ++ built cfg | [-4] clap refused
//!   2804  canonical config i                                seg0 = [i]                       out 1 :: cfg ++ [validate]
//!   3501  TransferProofJson::from_json_str                  seg0 = [raw_len, wf], seg1.. = entries (key, type, payload)
//!                                                           out 1 :: validate :: doc | [0, kind] | [-1]
//!   3502  TransferProofJson{..}.validate() on a struct      seg0 = [tc, state_root.len()], seg1 = node lens, seg2 = indices
//! cfg field order: num_wires, num_routed_wires, security_bits, num_challenges, zero_knowledge,
//!                  max_quotient_degree_factor, rate_bits, cap_height, num_query_rounds
use std::time::Instant;

use clap::Parser;
use plonky2::field::types::Field;
use plonky2::plonk::circuit_data::{CircuitConfig, CommonCircuitData, VerifierOnlyCircuitData};
use plonky2::plonk::proof::ProofWithPublicInputs;
use verif_harness::*;
use wormhole_aggregator::private_batch::circuit::circuit_logic::PrivateBatchCircuit;
use wormhole_aggregator::private_batch::prover::PrivateBatchProver;
use wormhole_aggregator::public_batch::circuit::circuit_logic::PublicBatchCircuit;
use wormhole_aggregator::public_batch::prover::PublicBatchProver;
use wormhole_circuit::circuit::circuit_logic::WormholeCircuit;
use wormhole_prover::WormholeProver;
use zk_circuits_common::circuit::{
    validate_circuit_config, wormhole_leaf_circuit_config, wormhole_private_batch_circuit_config,
    wormhole_public_batch_circuit_config, TransferProofJson, C, D, F, MAX_MERKLE_INDICES, MAX_STATE_ROOT_HEX_LEN,
    MAX_STORAGE_PROOF_HEX_BYTES, MAX_STORAGE_PROOF_NODES, MAX_STORAGE_PROOF_NODE_HEX_LEN,
    MAX_TRANSFER_PROOF_JSON_BYTES,
};

// memprof is a binary crate: its flag module is compiled into the harness as is.
#[allow(dead_code, unused_imports)]
#[path = "/repo/wormhole/memprof/src/config.rs"]
mod memprof_config;
use memprof_config::AggConfigArgs;

#[derive(Parser, Debug)]
#[command(name = "memprof")]
struct Cli {
    #[command(flatten)]
    agg_cfg: AggConfigArgs,
}

// Heap bytes requested through the global allocator: the load-independent measure of "did the constructor do any
// builder work before rejecting" (validate + one anyhow error allocate a few hundred bytes; CircuitBuilder::new
// alone allocates far more).
struct CountingAlloc;
static ALLOCATED: std::sync::atomic::AtomicUsize = std::sync::atomic::AtomicUsize::new(0);
unsafe impl std::alloc::GlobalAlloc for CountingAlloc {
    unsafe fn alloc(&self, l: std::alloc::Layout) -> *mut u8 {
        ALLOCATED.fetch_add(l.size(), std::sync::atomic::Ordering::Relaxed);
        std::alloc::System.alloc(l)
    }
    unsafe fn dealloc(&self, p: *mut u8, l: std::alloc::Layout) {
        std::alloc::System.dealloc(p, l)
    }
    unsafe fn alloc_zeroed(&self, l: std::alloc::Layout) -> *mut u8 {
        ALLOCATED.fetch_add(l.size(), std::sync::atomic::Ordering::Relaxed);
        std::alloc::System.alloc_zeroed(l)
    }
    unsafe fn realloc(&self, p: *mut u8, l: std::alloc::Layout, n: usize) -> *mut u8 {
        ALLOCATED.fetch_add(n.saturating_sub(l.size()), std::sync::atomic::Ordering::Relaxed);
        std::alloc::System.realloc(p, l, n)
    }
}
#[global_allocator]
static GLOBAL: CountingAlloc = CountingAlloc;
fn allocated() -> usize {
    ALLOCATED.load(std::sync::atomic::Ordering::Relaxed)
}

// =================================================================================================== C28

type Cfg = [u64; 9];
const M: u64 = u64::MAX;

fn to_config(c: &Cfg) -> CircuitConfig {
    let mut cfg = CircuitConfig::standard_recursion_config();
    cfg.num_wires = c[0] as usize;
    cfg.num_routed_wires = c[1] as usize;
    cfg.security_bits = c[2] as usize;
    cfg.num_challenges = c[3] as usize;
    cfg.zero_knowledge = c[4] != 0;
    cfg.max_quotient_degree_factor = c[5] as usize;
    cfg.fri_config.rate_bits = c[6] as usize;
    cfg.fri_config.cap_height = c[7] as usize;
    cfg.fri_config.num_query_rounds = c[8] as usize;
    cfg
}
fn of_config(cfg: &CircuitConfig) -> Cfg {
    [
        cfg.num_wires as u64,
        cfg.num_routed_wires as u64,
        cfg.security_bits as u64,
        cfg.num_challenges as u64,
        cfg.zero_knowledge as u64,
        cfg.max_quotient_degree_factor as u64,
        cfg.fri_config.rate_bits as u64,
        cfg.fri_config.cap_height as u64,
        cfg.fri_config.num_query_rounds as u64,
    ]
}

/// values around every threshold, per field (index = position in Cfg; index 4 is the zk flag)
fn grid(field: usize) -> &'static [u64] {
    match field {
        0 => &[0, 1, 36, 37, 38, 134, 135, 136, 143, 144, 1 << 20, 1 << 32, M - 1, M],
        1 => &[0, 1, 36, 37, 38, 60, 80, 134, 135, 136, 142, 143, 144, 1 << 32, M],
        2 => &[0, 1, 2, 100, 1 << 32, M],
        3 => &[0, 1, 2, 3, 1 << 32, M],
        4 => &[0, 1],
        5 => &[
            0, 1, 2, 3, 4, 5, 6, 7, 8, 9, 15, 16, 17, 31, 32, 33, 63, 64, 65, 127, 128, 129, 255, 256, 257, 511,
            512, 1 << 32, (1 << 32) + 1, 1 << 62, 1 << 63, (1 << 63) + 1, M - 1, M,
        ],
        6 => &[0, 1, 2, 3, 4, 5, 6, 7, 8, 9, 10, 62, 63, 64, 65, 1 << 32, M],
        7 => &[0, 1, 4, 7, 8, 9, 64, 1 << 32, M],
        _ => &[0, 1, 2, 28, 84, 1 << 32, M],
    }
}
/// the {t-1, t, t+1}-style neighbours only
fn near(field: usize) -> &'static [u64] {
    match field {
        0 => &[134, 135, 136],
        1 => &[36, 37, 38, 134, 135, 136],
        2 => &[0, 1, 2],
        3 => &[0, 1, 2],
        4 => &[0, 1],
        5 => &[6, 7, 8, 9],
        6 => &[2, 3, 4, 7, 8, 9],
        7 => &[7, 8, 9],
        _ => &[0, 1, 2],
    }
}

/// independent statement of the policy; used ONLY to decide which constructor probes are run
fn spec_ok(c: &Cfg) -> bool {
    let q = c[5] as u128;
    c[3] > 0
        && c[2] > 0
        && c[8] > 0
        && c[0] >= 135
        && c[1] >= 37
        && c[1] <= c[0]
        && c[5] >= 7
        && c[6] <= 8
        && c[7] <= 8
        && q <= (1u128 << c[6].min(100))
}

fn run_validate(out: &mut Out, tag: &str, c: &Cfg) {
    let cfg = to_config(c);
    let r = match no_panic(|| validate_circuit_config(&cfg).is_ok()) {
        Some(true) => vec![1],
        Some(false) => vec![0],
        None => PANIC.to_vec(),
    };
    out.case(2801, tag, &[seg_u64(c)], &r);
}

struct Fixtures {
    leaf_common: CommonCircuitData<F, D>,
    leaf_vo: VerifierOnlyCircuitData<C, D>,
    dummy_leaf: ProofWithPublicInputs<F, C, D>,
    pb_common: CommonCircuitData<F, D>,
    pb_vo: VerifierOnlyCircuitData<C, D>,
    dummy_pb: ProofWithPublicInputs<F, C, D>,
}

fn fixtures() -> Fixtures {
    use test_helpers::fake_leaf::{build_fake_leaf_circuit, prove_fake_leaf};
    let (leaf, leaf_targets) = build_fake_leaf_circuit();
    let dummy_leaf = prove_fake_leaf(&leaf, &leaf_targets, [F::ZERO; 21]);
    // the private-batch circuit (n = 1) over the fake leaf, and an all-dummy private-batch proof (the template
    // PublicBatchProver::new validates) - through public APIs only
    let (pb, dummy_pb) = {
        use plonky2::iop::witness::{PartialWitness, WitnessWrite};
        let circuit =
            PrivateBatchCircuit::new(wormhole_private_batch_circuit_config(), &leaf.common, &leaf.verifier_only, 1)
                .expect("private batch fixture");
        let targets = circuit.targets();
        let data = circuit.build_circuit();
        let mut pw = PartialWitness::<F>::new();
        pw.set_proof_with_pis_target(&targets.leaf_proofs[0], &dummy_leaf).expect("set leaf proof");
        for (i, t) in targets.dummy_nullifier_pre_images[0].iter().enumerate() {
            pw.set_target(*t, F::from_canonical_u64(0x1234_5678 + i as u64)).expect("set preimage");
        }
        let proof = data.prove(pw).expect("all-dummy private batch proof");
        (data, proof)
    };
    Fixtures {
        leaf_common: leaf.common.clone(),
        leaf_vo: leaf.verifier_only.clone(),
        dummy_leaf,
        pb_common: pb.common.clone(),
        pb_vo: pb.verifier_only.clone(),
        dummy_pb,
    }
}

const CONSTRUCTORS: [&str; 6] = [
    "WormholeCircuit::new",
    "WormholeProver::new",
    "PrivateBatchCircuit::new",
    "PrivateBatchProver::new",
    "PublicBatchCircuit::new",
    "PublicBatchProver::new",
];

/// one constructor call; returns (Some(is_ok) | None on panic, seconds). Argument clones happen before the clock starts.
fn call_constructor(k: usize, cfg: CircuitConfig, fx: &Fixtures) -> (Option<bool>, f64, usize) {
    let leaf_common = fx.leaf_common.clone();
    let dummy_leaf = fx.dummy_leaf.clone();
    let pb_common = fx.pb_common.clone();
    let dummy_pb = fx.dummy_pb.clone();
    let a0 = allocated();
    let t0 = Instant::now();
    let r = no_panic(move || match k {
        0 => WormholeCircuit::new(cfg).is_ok(),
        1 => WormholeProver::new(cfg).is_ok(),
        2 => PrivateBatchCircuit::new(cfg, &leaf_common, &fx.leaf_vo, 1).is_ok(),
        3 => PrivateBatchProver::new(cfg, leaf_common, &fx.leaf_vo, 1, dummy_leaf).is_ok(),
        4 => PublicBatchCircuit::new(cfg, pb_common, &fx.pb_vo, 1, 1).is_ok(),
        _ => PublicBatchProver::new(cfg, pb_common, &fx.pb_vo, 1, 1, dummy_pb).is_ok(),
    });
    let dt = t0.elapsed().as_secs_f64();
    (r, dt, allocated() - a0)
}

/// a rejection must come before any builder work: a few hundred heap bytes (the error value), and far less time
/// than the cheapest builder set-up (milliseconds)
const REJECT_BUDGET_S: f64 = 0.005;
const REJECT_BUDGET_BYTES: usize = 16 * 1024;

fn probe_reject(out: &mut Out, tag: &str, k: usize, c: &Cfg, fx: &Fixtures, worst: &mut (f64, usize)) -> bool {
    // time: the fastest of up to five attempts counts (machine load must not turn into a false alarm);
    // heap bytes are deterministic
    let mut best = f64::MAX;
    let mut res = None;
    let mut bytes = 0usize;
    for _ in 0..5 {
        let (r, dt, b) = call_constructor(k, to_config(c), fx);
        res = r;
        bytes = b;
        if dt < best {
            best = dt;
        }
        if r != Some(false) || best < REJECT_BUDGET_S || dt > 0.25 || b > REJECT_BUDGET_BYTES {
            break;
        }
    }
    let enc: Vec<i128> = match res {
        None => PANIC.to_vec(),
        Some(true) => vec![1],
        Some(false) => {
            // heap bytes decide (deterministic); wall time is reported only - a loaded machine must not raise an alarm
            if bytes <= REJECT_BUDGET_BYTES {
                vec![0]
            } else {
                vec![-3]
            }
        }
    };
    if res == Some(false) {
        worst.0 = worst.0.max(best);
        worst.1 = worst.1.max(bytes);
    }
    out.case(2802, tag, &[vec![k as i128], seg_u64(c)], &enc);
    enc == vec![0]
}

fn c28(out: &mut Out, rng: &mut Rng, thorough: bool) {
    let bases: Vec<Cfg> = vec![
        of_config(&CircuitConfig::standard_recursion_config()),
        of_config(&CircuitConfig::standard_recursion_zk_config()),
        of_config(&wormhole_leaf_circuit_config()),
        of_config(&wormhole_private_batch_circuit_config()),
        of_config(&wormhole_public_batch_circuit_config()),
        [135, 37, 1, 1, 0, 7, 3, 0, 1],   // every field on its own threshold
        [M, M, M, M, 1, 256, 8, 8, M],    // the other end
    ];
    // canonical configs: printed field by field (pinned by Properties/C28.v) and validated
    for (i, b) in bases.iter().take(5).enumerate() {
        let cfg = to_config(b);
        let mut o = vec![1i128];
        o.extend(seg_u64(b));
        o.push(validate_circuit_config(&cfg).is_ok() as i128);
        out.case(2804, "canonical", &[vec![i as i128]], &o);
        run_validate(out, "canonical", b);
    }
    // one-at-a-time sweeps over the full per-field grid, from every base
    for b in &bases {
        for f in 0..9 {
            for &v in grid(f) {
                let mut c = *b;
                c[f] = v;
                run_validate(out, "sweep-1", &c);
            }
        }
    }
    // full products for the two coupled pairs
    for b in &bases[3..6] {
        for &q in grid(5) {
            for &r in grid(6) {
                let mut c = *b;
                c[5] = q;
                c[6] = r;
                run_validate(out, "quotient-x-rate", &c);
            }
        }
        for &w in grid(0) {
            for &rw in grid(1) {
                let mut c = *b;
                c[0] = w;
                c[1] = rw;
                run_validate(out, "wires-x-routed", &c);
            }
        }
    }
    // all pairs of fields over the neighbour values
    for b in [&bases[3], &bases[5]] {
        for f in 0..9 {
            for g in (f + 1)..9 {
                for &x in near(f) {
                    for &y in near(g) {
                        let mut c = *b;
                        c[f] = x;
                        c[g] = y;
                        run_validate(out, "pairs-near", &c);
                    }
                }
            }
        }
    }
    // random: every field independently base / near / grid / arbitrary
    let n_rand = if thorough { 200_000 } else { 6_000 };
    for _ in 0..n_rand {
        let mut c = *rng.pick(&bases);
        for f in 0..9 {
            match rng.below(6) {
                0 => c[f] = *rng.pick(grid(f)),
                1 | 2 => c[f] = *rng.pick(near(f)),
                3 => c[f] = if f == 4 { rng.below(2) } else { rng.edge_u64() },
                _ => {}
            }
        }
        run_validate(out, "random", &c);
    }
    // powers of two and their neighbours against every rate (the leading_zeros computation)
    for e in 0..64u32 {
        for d in [-1i64, 0, 1] {
            let q = (1u64 << e).wrapping_add(d as u64);
            for r in [e.saturating_sub(1) as u64, e as u64, e as u64 + 1, 8] {
                let mut c = bases[5];
                c[5] = q;
                c[6] = r;
                run_validate(out, "pow2", &c);
            }
        }
    }

    // ---------------------------------------------------------------- constructors
    let t0 = Instant::now();
    // the fixtures are built with the canonical configs; if even that fails (reported through 2801/2804) the
    // constructor probes cannot be set up and are skipped
    let fx = match no_panic(fixtures) {
        Some(fx) => fx,
        None => {
            out.note("fixtures_failed", "canonical-config fixtures could not be built; constructor probes skipped");
            // PrivateBatchCircuit::new over the canonical private-batch config did not produce a circuit
            out.case(2802, "fixture", &[vec![2], seg_u64(&bases[3])], &PANIC);
            cli_cases(out, rng, thorough);
            return;
        }
    };
    out.note("fixtures_s", &format!("{:.2}", t0.elapsed().as_secs_f64()));
    let base = bases[3];
    // stage A: failing configs whose unchecked build is bounded (panics or finishes quickly)
    let mut mild: Vec<Cfg> = vec![];
    for (f, v) in [(0usize, 134u64), (1, 36), (1, 136), (3, 0), (2, 0), (8, 0), (5, 6), (6, 2), (7, 9)] {
        let mut c = base;
        c[f] = v;
        mild.push(c);
    }
    // stage B: everything else that fails, including the extreme values
    let mut wild: Vec<Cfg> = vec![];
    for b in [&bases[0], &bases[3], &bases[5]] {
        for f in 0..9 {
            for &v in grid(f) {
                let mut c = *b;
                c[f] = v;
                if !spec_ok(&c) {
                    wild.push(c);
                }
            }
        }
    }
    for f in 0..9 {
        for g in (f + 1)..9 {
            for &x in near(f) {
                for &y in near(g) {
                    let mut c = bases[5];
                    c[f] = x;
                    c[g] = y;
                    if !spec_ok(&c) && rng.chance(1, if thorough { 1 } else { 3 }) {
                        wild.push(c);
                    }
                }
            }
        }
    }
    for _ in 0..(if thorough { 3000 } else { 300 }) {
        let mut c = *rng.pick(&bases);
        for f in 0..9 {
            if rng.chance(1, 3) {
                c[f] = *rng.pick(grid(f));
            }
        }
        if !spec_ok(&c) {
            wild.push(c);
        }
    }
    let mut slowest = (0.0f64, 0usize);
    let mut dirty = [false; 6];
    for k in 0..6 {
        // the prover constructors (odd k) go through the circuit constructor k-1: if that one already started a
        // build on a failing config, do not repeat the experiment through the wrapper
        if k % 2 == 1 && dirty[k - 1] {
            dirty[k] = true;
            out.note("constructor_probes_skipped", CONSTRUCTORS[k]);
            continue;
        }
        for c in &mild {
            debug_assert!(!spec_ok(c));
            if validate_circuit_config(&to_config(c)).is_ok() {
                // the policy function itself lets it through (reported under 2801): do not start a build
                out.note("constructor_probe_skipped", &format!("{} {:?}", CONSTRUCTORS[k], c));
                dirty[k] = true;
                break;
            }
            if !probe_reject(out, "reject-mild", k, c, &fx, &mut slowest) {
                // not a clean, immediate rejection: reported; every further probe of this constructor would
                // run an unchecked build
                dirty[k] = true;
                break;
            }
        }
        if dirty[k] {
            out.note("constructor_stage_b_skipped", CONSTRUCTORS[k]);
            continue;
        }
        for c in &wild {
            if validate_circuit_config(&to_config(c)).is_ok() {
                out.note("constructor_probe_skipped", &format!("{} {:?}", CONSTRUCTORS[k], c));
                continue;
            }
            if !probe_reject(out, "reject-wild", k, c, &fx, &mut slowest) {
                dirty[k] = true;
                out.note("constructor_stage_b_aborted", CONSTRUCTORS[k]);
                break;
            }
        }
    }
    out.note("slowest_rejection_s", &format!("{:.6}", slowest.0));
    out.note("largest_rejection_heap_bytes", &format!("{}", slowest.1));
    // passing configs: a handful, known to build (canonical ones and mild variants)
    let mut passing: Vec<Cfg> = if thorough { vec![bases[0], bases[3]] } else { vec![bases[3]] };
    let mut v = bases[3];
    v[0] = 136;
    v[1] = 61;
    v[7] = 3;
    passing.push(v);
    if thorough {
        // one more query round than the base (conjectured FRI security stays >= security_bits: plonky2's CircuitBuilder::new
        // asserts it and PANICS otherwise - e.g. security_bits = 99 with 27 rounds at rate 3 passes the structural policy and
        // panics in the builder; that is outside C28's statement, which speaks about FAILING configs, and is recorded as an
        // observation in DESIGN.md 12.9)
        let mut v = bases[0];
        v[8] += 1;
        passing.push(v);
    }
    for c in &passing {
        if !spec_ok(c) || validate_circuit_config(&to_config(c)).is_err() {
            continue;
        }
        for k in 0..6 {
            let (r, dt, _) = call_constructor(k, to_config(c), &fx);
            let enc: Vec<i128> = match r {
                None => PANIC.to_vec(),
                Some(true) => vec![1],
                Some(false) => vec![0],
            };
            out.note("build_s", &format!("{} {:.3}", CONSTRUCTORS[k], dt));
            out.case(2802, "accept-build", &[vec![k as i128], seg_u64(c)], &enc);
        }
    }

    cli_cases(out, rng, thorough);
}

fn cli_cases(out: &mut Out, rng: &mut Rng, thorough: bool) {
    // ---------------------------------------------------------------- CLI
    // option order of the segment: rate, cap, wires, routed, quotient, queries, security, challenges
    const FLAGS: [&str; 8] = [
        "--rate-bits",
        "--cap-height",
        "--num-wires",
        "--num-routed-wires",
        "--max-quotient-degree-factor",
        "--num-query-rounds",
        "--security-bits",
        "--num-challenges",
    ];
    const FIELD_OF_FLAG: [usize; 8] = [6, 7, 0, 1, 5, 8, 2, 3];
    let mut cli_case = |out: &mut Out, tag: &str, zk: u64, allow: bool, opts: &[Option<u64>; 8]| {
        let mut argv: Vec<String> = vec!["memprof".into()];
        let mut seg: Vec<i128> = vec![zk as i128, allow as i128];
        if zk == 1 {
            argv.push("--zk-mode".into());
            argv.push("rowblinding".into());
        } else if zk == 2 {
            argv.push("--zk-mode=disabled".into());
        }
        for (i, o) in opts.iter().enumerate() {
            match o {
                Some(v) => {
                    argv.push(FLAGS[i].into());
                    argv.push(v.to_string());
                    seg.push(1);
                    seg.push(*v as i128);
                }
                None => {
                    seg.push(0);
                    seg.push(0);
                }
            }
        }
        if allow {
            argv.push("--allow-weakening-security".into());
        }
        let enc: Vec<i128> = match no_panic(|| match Cli::try_parse_from(&argv) {
            Err(_) => vec![-4],
            Ok(cli) => {
                let mut o = vec![cli.agg_cfg.validate().is_ok() as i128];
                o.extend(seg_u64(&of_config(&cli.agg_cfg.build())));
                o
            }
        }) {
            Some(v) => v,
            None => PANIC.to_vec(),
        };
        out.case(2803, tag, &[seg], &enc);
    };
    let none: [Option<u64>; 8] = [None; 8];
    // no flags, every zk/allow combination
    for zk in 0..3 {
        for allow in [false, true] {
            cli_case(out, "cli-none", zk, allow, &none);
        }
    }
    // one flag at a time over its full grid
    for i in 0..8 {
        for &v in grid(FIELD_OF_FLAG[i]) {
            for allow in [false, true] {
                let mut o = none;
                o[i] = Some(v);
                cli_case(out, "cli-one", 0, allow, &o);
            }
        }
    }
    // coupled pairs: rate x quotient, wires x routed (full grids)
    for &r in grid(6) {
        for &q in grid(5) {
            let mut o = none;
            o[0] = Some(r);
            o[4] = Some(q);
            cli_case(out, "cli-rate-x-quotient", 0, false, &o);
        }
    }
    for &w in grid(0) {
        for &rw in grid(1) {
            let mut o = none;
            o[2] = Some(w);
            o[3] = Some(rw);
            cli_case(out, "cli-wires-x-routed", 0, false, &o);
        }
    }
    // all pairs of flags over the neighbour values
    for i in 0..8 {
        for j in (i + 1)..8 {
            for &x in near(FIELD_OF_FLAG[i]) {
                for &y in near(FIELD_OF_FLAG[j]) {
                    let mut o = none;
                    o[i] = Some(x);
                    o[j] = Some(y);
                    cli_case(out, "cli-pairs-near", rng.below(3), true, &o);
                }
            }
        }
    }
    // random subsets
    for _ in 0..(if thorough { 100_000 } else { 5_000 }) {
        let mut o = none;
        for i in 0..8 {
            o[i] = match rng.below(8) {
                0 | 1 => Some(*rng.pick(near(FIELD_OF_FLAG[i]))),
                2 => Some(*rng.pick(grid(FIELD_OF_FLAG[i]))),
                3 => Some(rng.edge_u64()),
                _ => None,
            };
        }
        let allow = rng.chance(2, 3);
        cli_case(out, "cli-random", rng.below(3), allow, &o);
    }
}

// =================================================================================================== C35

/// abstract description of a JSON value, as the model sees it
#[derive(Clone)]
enum Abs {
    Other,
    Int(u128),
    Str(usize),
    Strs(Vec<usize>),
    Ints(Vec<u128>),
}
impl Abs {
    fn seg(&self, key: i128) -> Seg {
        let mut s = vec![key];
        match self {
            Abs::Other => s.push(0),
            Abs::Int(v) => {
                s.push(1);
                s.push(*v as i128);
            }
            Abs::Str(l) => {
                s.push(2);
                s.push(*l as i128);
            }
            Abs::Strs(ls) => {
                s.push(3);
                s.extend(ls.iter().map(|&l| l as i128));
            }
            Abs::Ints(vs) => {
                s.push(4);
                s.extend(vs.iter().map(|&v| v as i128));
            }
        }
        s
    }
}

/// a JSON string literal (with quotes) whose decoded content has exactly `len` bytes
fn json_string(r: &mut Rng, len: usize, style: u64) -> String {
    let mut s = String::with_capacity(len + 2);
    s.push('"');
    let mut left = len;
    match style {
        0 => {
            // plain hex digits
            for i in 0..len {
                s.push(b"0123456789abcdef"[i & 15] as char);
            }
            left = 0;
        }
        1 => {
            // every byte as a \u00XX escape: 6x inflation
            for _ in 0..len {
                s.push_str("\\u0061");
            }
            left = 0;
        }
        _ => {}
    }
    while left > 0 {
        // mixed: plain, short escapes, \u escapes, multi-byte UTF-8 (raw and escaped), surrogate pairs
        let k = r.below(9);
        let (txt, n): (&str, usize) = match k {
            0 => ("a", 1),
            1 => ("\\n", 1),
            2 => ("\\\"", 1),
            3 => ("\\u0041", 1),
            4 => ("\u{e9}", 2),
            5 => ("\\u00e9", 2),
            6 => ("\u{20ac}", 3),
            7 => ("\\ud83d\\ude00", 4),
            _ => ("\\/", 1),
        };
        if n <= left {
            s.push_str(txt);
            left -= n;
        } else {
            s.push('f');
            left -= 1;
        }
    }
    s.push('"');
    s
}

fn json_str_array(r: &mut Rng, lens: &[usize], style: u64) -> String {
    let mut s = String::from("[");
    for (i, &l) in lens.iter().enumerate() {
        if i > 0 {
            s.push(',');
        }
        let st = if style == 9 { r.below(3) } else { style };
        s.push_str(&json_string(r, l, st));
    }
    s.push(']');
    s
}
fn json_int_array(vals: &[u128]) -> String {
    let mut s = String::from("[");
    for (i, v) in vals.iter().enumerate() {
        if i > 0 {
            s.push(',');
        }
        s.push_str(&v.to_string());
    }
    s.push(']');
    s
}

const KEYS: [&str; 4] = ["transfer_count", "state_root", "storage_proof", "indices"];

struct Member {
    key_text: String, // with quotes
    key_code: i128,   // 1..4 known, 9 unknown
    val_text: String,
    abs: Abs,
}
fn known(code: usize, val_text: String, abs: Abs) -> Member {
    Member { key_text: format!("\"{}\"", KEYS[code - 1]), key_code: code as i128, val_text, abs }
}

struct DocGen {
    members: Vec<Member>,
    wf: bool,
    prefix: String,
    suffix: String,
}
impl DocGen {
    fn text(&self) -> String {
        let mut s = String::new();
        s.push_str(&self.prefix);
        s.push('{');
        for (i, m) in self.members.iter().enumerate() {
            if i > 0 {
                s.push(',');
            }
            s.push_str(&m.key_text);
            s.push(':');
            s.push_str(&m.val_text);
        }
        s.push('}');
        s.push_str(&self.suffix);
        s
    }
}

fn std_members(r: &mut Rng, sr: usize, nodes: &[usize], idx: &[u128], style: u64) -> Vec<Member> {
    let tc: u128 = match r.below(4) {
        0 => 0,
        1 => u64::MAX as u128,
        2 => 1,
        _ => r.next() as u128,
    };
    vec![
        known(1, tc.to_string(), Abs::Int(tc)),
        {
            let st = if style == 9 { r.below(3) } else { style };
            known(2, json_string(r, sr, st), Abs::Str(sr))
        },
        known(
            3,
            json_str_array(r, nodes, style),
            if nodes.is_empty() && r.chance(1, 2) { Abs::Ints(vec![]) } else { Abs::Strs(nodes.to_vec()) },
        ),
        known(
            4,
            json_int_array(idx),
            if idx.is_empty() && r.chance(1, 2) { Abs::Strs(vec![]) } else { Abs::Ints(idx.to_vec()) },
        ),
    ]
}

fn shuffle<T>(r: &mut Rng, v: &mut Vec<T>) {
    for i in (1..v.len()).rev() {
        let j = r.below(i as u64 + 1) as usize;
        v.swap(i, j);
    }
}

fn run_doc(out: &mut Out, tag: &str, text: &str, wf: bool, members: &[Member]) {
    run_doc_shape(out, tag, text, wf, 0, members)
}

/// shape 0: top-level object with `members`; shape 1: top-level array whose elements are the members' values
fn run_doc_shape(out: &mut Out, tag: &str, text: &str, wf: bool, shape: i128, members: &[Member]) {
    let enc: Vec<i128> = match no_panic(|| match TransferProofJson::from_json_str(text) {
        Ok(doc) => {
            let mut o = vec![1i128, doc.validate().is_ok() as i128];
            o.push(doc.transfer_count as i128);
            o.push(doc.state_root.len() as i128);
            o.push(doc.storage_proof.len() as i128);
            o.push(doc.indices.len() as i128);
            o.extend(doc.storage_proof.iter().map(|n| n.len() as i128));
            o.extend(doc.indices.iter().map(|&i| i as i128));
            o
        }
        Err(e) => {
            if e.starts_with("transfer proof JSON exceeds") {
                vec![0, 1]
            } else if e.starts_with("failed to parse transfer proof JSON") {
                vec![0, 2]
            } else {
                vec![0, 9]
            }
        }
    }) {
        Some(v) => v,
        None => PANIC.to_vec(),
    };
    let mut segs: Vec<Seg> = vec![vec![text.len() as i128, wf as i128, shape]];
    for m in members {
        segs.push(m.abs.seg(m.key_code));
    }
    out.case(3501, tag, &segs, &enc);
}

fn small_idx(r: &mut Rng, n: usize) -> Vec<u128> {
    (0..n)
        .map(|_| match r.below(5) {
            0 => 0,
            1 => u64::MAX as u128,
            _ => r.below(1000) as u128,
        })
        .collect()
}

/// node lengths with a given count and total
fn spread(r: &mut Rng, count: usize, total: usize) -> Vec<usize> {
    if count == 0 {
        return vec![];
    }
    let mut v = vec![total / count; count];
    let mut rem = total - (total / count) * count;
    while rem > 0 {
        let i = r.below(count as u64) as usize;
        v[i] += 1;
        rem -= 1;
    }
    // move some weight around
    for _ in 0..count.min(8) {
        let i = r.below(count as u64) as usize;
        let j = r.below(count as u64) as usize;
        let d = r.below(v[i] as u64 + 1) as usize;
        v[i] -= d;
        v[j] += d;
    }
    v
}

fn c35(out: &mut Out, rng: &mut Rng, thorough: bool) {
    let sr_cap = MAX_STATE_ROOT_HEX_LEN;
    let n_cap = MAX_STORAGE_PROOF_NODES;
    let nl_cap = MAX_STORAGE_PROOF_NODE_HEX_LEN;
    let tot_cap = MAX_STORAGE_PROOF_HEX_BYTES;
    let ix_cap = MAX_MERKLE_INDICES;
    let raw_cap = MAX_TRANSFER_PROOF_JSON_BYTES;
    let scale = if thorough { 10 } else { 1 };

    // ---- the doc-comment example and small valid documents
    {
        let t = r#"{"transfer_count":1,"state_root":"00","storage_proof":["00"],"indices":[0]}"#;
        let m = vec![
            known(1, "1".into(), Abs::Int(1)),
            known(2, "\"00\"".into(), Abs::Str(2)),
            known(3, "[\"00\"]".into(), Abs::Strs(vec![2])),
            known(4, "[0]".into(), Abs::Ints(vec![0])),
        ];
        run_doc(out, "doc-example", t, true, &m);
    }
    for _ in 0..1500 * scale {
        let sr = *rng.pick(&[0usize, 1, 2, 32, 63, 64, 64, 65, 66, 100, 1000]);
        let nn = rng.below(5) as usize;
        let nodes: Vec<usize> = (0..nn).map(|_| rng.below(70) as usize).collect();
        let ni = rng.below(5) as usize;
        let idx = small_idx(rng, ni);
        let mut m = std_members(rng, sr, &nodes, &idx, 9);
        shuffle(rng, &mut m);
        let mut d = DocGen { members: m, wf: true, prefix: String::new(), suffix: String::new() };
        if rng.chance(1, 3) {
            d.prefix = " \n\t".into();
            d.suffix = "\r\n ".into();
        }
        run_doc(out, "small", &d.text(), true, &d.members);
    }
    // ---- state root around its cap, every string style
    for style in 0..3 {
        for sr in [sr_cap - 1, sr_cap, sr_cap + 1, sr_cap + 2, 2 * sr_cap, 6 * sr_cap] {
            let m = std_members(rng, sr, &[2, 4], &[0], style);
            let d = DocGen { members: m, wf: true, prefix: String::new(), suffix: String::new() };
            run_doc(out, "state-root-cap", &d.text(), true, &d.members);
        }
    }
    // ---- node count around its cap (small nodes), index count around its cap
    for n in [n_cap - 1, n_cap, n_cap + 1, n_cap + 2, 2 * n_cap] {
        for node_len in [0usize, 1, 2] {
            let nodes = vec![node_len; n];
            let m = std_members(rng, 2, &nodes, &[1], 0);
            let d = DocGen { members: m, wf: true, prefix: String::new(), suffix: String::new() };
            run_doc(out, "node-count-cap", &d.text(), true, &d.members);
        }
    }
    for n in [ix_cap - 1, ix_cap, ix_cap + 1, ix_cap + 2, 2 * ix_cap] {
        let idx = small_idx(rng, n);
        let m = std_members(rng, 2, &[2], &idx, 0);
        let d = DocGen { members: m, wf: true, prefix: String::new(), suffix: String::new() };
        run_doc(out, "index-count-cap", &d.text(), true, &d.members);
    }
    // both counts on / over the cap together
    for (a, b) in [(n_cap, ix_cap), (n_cap + 1, ix_cap), (n_cap, ix_cap + 1)] {
        let idx = small_idx(rng, b);
        let m = std_members(rng, sr_cap, &vec![1; a], &idx, 0);
        let d = DocGen { members: m, wf: true, prefix: String::new(), suffix: String::new() };
        run_doc(out, "both-count-caps", &d.text(), true, &d.members);
    }
    // ---- one node around the node-length cap; total around the total cap with several shapes
    for l in [nl_cap - 1, nl_cap, nl_cap + 1] {
        let m = std_members(rng, 2, &[l], &[], 0);
        let d = DocGen { members: m, wf: true, prefix: String::new(), suffix: String::new() };
        run_doc(out, "node-len-cap", &d.text(), true, &d.members);
    }
    for total in [tot_cap - 1, tot_cap, tot_cap + 1] {
        for count in [2usize, 3, 7, 1000, n_cap] {
            let nodes = spread(rng, count, total);
            let m = std_members(rng, 2, &nodes, &[3], 0);
            let d = DocGen { members: m, wf: true, prefix: String::new(), suffix: String::new() };
            run_doc(out, "total-len-cap", &d.text(), true, &d.members);
        }
    }
    // total over the cap only by the last node / by the first; an empty node after a full total
    for nodes in [
        vec![tot_cap, 0],
        vec![0, tot_cap],
        vec![tot_cap, 1],
        vec![1, tot_cap],
        vec![tot_cap / 2, tot_cap / 2, 0, 0],
        vec![tot_cap / 2, tot_cap / 2, 0, 1],
        vec![tot_cap / 2 + 1, tot_cap / 2 + 1],
    ] {
        let m = std_members(rng, 2, &nodes, &[3], 0);
        let d = DocGen { members: m, wf: true, prefix: String::new(), suffix: String::new() };
        run_doc(out, "total-len-cap", &d.text(), true, &d.members);
    }
    // ---- escaped strings: the raw text is 6x the decoded length
    for l in [nl_cap - 1, nl_cap, nl_cap + 1] {
        // 6 MiB of escapes, inside the raw cap
        let m = std_members(rng, 2, &[l], &[], 1);
        let d = DocGen { members: m, wf: true, prefix: String::new(), suffix: String::new() };
        run_doc(out, "escaped-node", &d.text(), true, &d.members);
    }
    {
        // an escaped state root that decodes to more than 1.3 MiB: the raw cap fires, not the field bound
        let l = raw_cap / 6 + 1;
        let m = std_members(rng, l, &[], &[], 1);
        let d = DocGen { members: m, wf: true, prefix: String::new(), suffix: String::new() };
        run_doc(out, "escaped-over-raw-cap", &d.text(), true, &d.members);
        // the same just inside the raw cap: now the field bound
        let l = (raw_cap - 200) / 6;
        let m = std_members(rng, l, &[], &[], 1);
        let d = DocGen { members: m, wf: true, prefix: String::new(), suffix: String::new() };
        run_doc(out, "escaped-inside-raw-cap", &d.text(), true, &d.members);
    }
    // ---- raw length exactly cap-1 / cap / cap+1, padded with whitespace or with an ignored field;
    //      content valid, over a field cap, or not even JSON
    for delta in [-1i64, 0, 1, 2] {
        let target = (raw_cap as i64 + delta) as usize;
        for variant in 0..4 {
            let (sr, wf_content) = match variant {
                0 | 3 => (sr_cap, true),
                1 => (sr_cap + 1, true),
                _ => (sr_cap, false),
            };
            let mut m = std_members(rng, sr, &[10, 20], &[1, 2], 0);
            let mut d;
            if variant == 3 {
                // pad with an unknown member holding a long string
                let probe = DocGen { members: std::mem::take(&mut m), wf: true, prefix: String::new(), suffix: String::new() };
                let base_len = probe.text().len() + ",\"pad\":\"\"".len();
                let mut members = probe.members;
                members.insert(
                    rng.below(5) as usize,
                    Member {
                        key_text: "\"pad\"".into(),
                        key_code: 9,
                        val_text: format!("\"{}\"", "x".repeat(target - base_len)),
                        abs: Abs::Other,
                    },
                );
                d = DocGen { members, wf: true, prefix: String::new(), suffix: String::new() };
            } else {
                d = DocGen { members: m, wf: wf_content, prefix: String::new(), suffix: String::new() };
                if !wf_content {
                    d.suffix = "]".into();
                }
                let base_len = d.text().len();
                let pad = " ".repeat(target - base_len);
                if rng.chance(1, 2) {
                    d.prefix = pad;
                } else {
                    d.suffix = format!("{}{}", pad, d.suffix);
                }
            }
            let t = d.text();
            assert_eq!(t.len(), target);
            run_doc(out, "raw-cap", &t, d.wf, &d.members);
        }
    }
    // far over the raw cap with arbitrary bytes
    {
        let t = "[".repeat(raw_cap + 1);
        run_doc(out, "raw-cap", &t, false, &[]);
        let t = "\u{e9}".repeat(raw_cap / 2 + 1);
        run_doc(out, "raw-cap", &t, false, &[]);
    }

    // ---- structure: extra, duplicate, missing, mistyped members; malformed text
    for _ in 0..3000 * scale {
        let sr = *rng.pick(&[0usize, 2, 64, 64, 64, 65]);
        let nn = rng.below(4) as usize;
        let nodes: Vec<usize> = (0..nn).map(|_| rng.below(40) as usize).collect();
        let ni = rng.below(4) as usize;
        let idx = small_idx(rng, ni);
        let mut m = std_members(rng, sr, &nodes, &idx, 9);
        let mut wf = true;
        let mut prefix = String::new();
        let mut suffix = String::new();
        let tag;
        match rng.below(9) {
            0 => {
                // unknown members with arbitrary JSON values (also ones that look like known keys)
                for _ in 0..1 + rng.below(3) {
                    let key = *rng.pick(&["extra", "State_root", "state_root ", "stateRoot", "", "indices2", "num_layer0_proofs"]);
                    let val = *rng.pick(&[
                        "null",
                        "true",
                        "-1.5e3",
                        "\"zzz\"",
                        "[1,[2,{\"a\":null}],\"x\"]",
                        "{\"state_root\":\"00\",\"n\":{\"m\":[]}}",
                        "18446744073709551616",
                    ]);
                    m.push(Member { key_text: format!("\"{}\"", key), key_code: 9, val_text: val.into(), abs: Abs::Other });
                }
                tag = "extra-members";
            }
            1 => {
                // duplicate of a known member (valid or invalid second value), possibly with an escaped key
                let k = 1 + rng.below(4) as usize;
                let (vt, abs) = match k {
                    1 => ("7".to_string(), Abs::Int(7)),
                    2 => {
                        let l = *rng.pick(&[0usize, 64, 65]);
                        (json_string(rng, l, 0), Abs::Str(l))
                    }
                    3 => ("[]".to_string(), Abs::Strs(vec![])),
                    _ => ("[5]".to_string(), Abs::Ints(vec![5])),
                };
                let mut dup = known(k, vt, abs);
                if rng.chance(1, 3) {
                    // "state\u005froot"-style key: decodes to the same field name
                    dup.key_text = format!("\"{}\"", KEYS[k - 1].replace('_', "\\u005f").replace('a', "\\u0061"));
                }
                m.push(dup);
                tag = "duplicate-member";
            }
            2 => {
                let i = rng.below(m.len() as u64) as usize;
                m.remove(i);
                tag = "missing-member";
            }
            3 => {
                // mistyped value for a known member
                let i = rng.below(4) as usize;
                let bad: &[&str] = match i {
                    0 => &["\"1\"", "-1", "1.0", "1e2", "18446744073709551616", "null", "[1]", "-0"],
                    1 => &["1", "null", "[\"00\"]", "{\"a\":\"00\"}", "true"],
                    2 => &["\"00\"", "[1]", "[\"00\",1]", "[[\"00\"]]", "{}", "null", "[null]"],
                    _ => &["\"0\"", "[\"0\"]", "[-1]", "[1.5]", "[18446744073709551616]", "[0,null]", "{}", "null", "[[0]]"],
                };
                m[i].val_text = (*rng.pick(bad)).to_string();
                m[i].abs = Abs::Other;
                tag = "mistyped-member";
            }
            4 => {
                // u64 / usize boundaries
                let v = *rng.pick(&[u64::MAX as u128, u64::MAX as u128 + 1, 0, 1u128 << 63, u128::MAX >> 1]);
                if rng.chance(1, 2) {
                    m[0].val_text = v.to_string();
                    m[0].abs = Abs::Int(v);
                } else {
                    let mut vals = small_idx(rng, 2);
                    vals.push(v);
                    m[3].val_text = json_int_array(&vals);
                    m[3].abs = Abs::Ints(vals);
                }
                tag = "integer-range";
            }
            5 => {
                // syntax errors
                wf = false;
                match rng.below(8) {
                    0 => suffix = "x".into(),
                    1 => suffix = " {}".into(),
                    2 => suffix = ",".into(),
                    3 => prefix = "[".into(),
                    4 => m[1].val_text = "\"\\x41\"".into(),
                    5 => m[1].val_text = "\"\\ud800\"".into(),
                    6 => m[1].val_text = "\"a\nb\"".into(),
                    _ => m[0].val_text = "01".into(),
                }
                tag = "malformed";
            }
            6 => {
                // truncated text
                wf = false;
                tag = "truncated";
            }
            7 => {
                // key order, whitespace everywhere
                prefix = "\n  ".into();
                suffix = "\n".into();
                for mm in m.iter_mut() {
                    mm.key_text = format!(" {} ", mm.key_text);
                    mm.val_text = format!("\t{} ", mm.val_text);
                }
                tag = "whitespace";
            }
            _ => {
                // escaped key names for all members
                for mm in m.iter_mut() {
                    if mm.key_code <= 4 {
                        mm.key_text = format!("\"{}\"", KEYS[mm.key_code as usize - 1].replace('_', "\\u005F").replace('t', "\\u0074"));
                    }
                }
                tag = "escaped-keys";
            }
        }
        shuffle(rng, &mut m);
        let d = DocGen { members: m, wf, prefix, suffix };
        let mut t = d.text();
        if tag == "truncated" {
            let cut = 1 + rng.below(t.len() as u64 - 1) as usize;
            let mut c = cut;
            while !t.is_char_boundary(c) {
                c -= 1;
            }
            t.truncate(c);
        }
        run_doc(out, tag, &t, d.wf, &d.members);
    }
    // not an object at all
    for t in ["", " ", "null", "7", "\"{}\"", "{", "}", "{}", "{\"transfer_count\":1}", "\u{feff}{}", "[", "]"] {
        let (wf, members): (bool, Vec<Member>) = match t {
            "{}" => (true, vec![]),
            "{\"transfer_count\":1}" => (true, vec![known(1, "1".into(), Abs::Int(1))]),
            _ => (false, vec![]),
        };
        run_doc(out, "not-an-object", t, wf, &members);
    }

    // ---- a top-level array: serde's derived visit_seq takes the four fields positionally
    let arr_text = |ms: &[Member]| -> String {
        let mut s = String::from("[");
        for (i, m) in ms.iter().enumerate() {
            if i > 0 {
                s.push(',');
            }
            s.push_str(&m.val_text);
        }
        s.push(']');
        s
    };
    run_doc_shape(out, "top-level-array", "[]", true, 1, &[]);
    for _ in 0..300 * scale {
        let sr = *rng.pick(&[0usize, 2, 63, 64, 64, 65]);
        let nn = *rng.pick(&[0usize, 1, 2, 3, n_cap - 1, n_cap, n_cap + 1]);
        let nodes: Vec<usize> = (0..nn).map(|_| rng.below(3) as usize).collect();
        let ni = *rng.pick(&[0usize, 1, 2, ix_cap, ix_cap + 1]);
        let idx = small_idx(rng, ni);
        let mut m = std_members(rng, sr, &nodes, &idx, 9);
        match rng.below(8) {
            0 => {
                m.pop();
            }
            1 => {
                m.remove(0);
            }
            2 => m.push(Member { key_text: String::new(), key_code: 9, val_text: "null".into(), abs: Abs::Other }),
            3 => m.swap(1, 2),
            4 => m.swap(2, 3),
            5 => {
                let i = rng.below(4) as usize;
                m[i].val_text = "{}".into();
                m[i].abs = Abs::Other;
            }
            _ => {}
        }
        let t = arr_text(&m);
        run_doc_shape(out, "top-level-array", &t, true, 1, &m);
    }
    for l in [nl_cap, nl_cap + 1] {
        let m = std_members(rng, 2, &[l], &[], 0);
        run_doc_shape(out, "top-level-array", &arr_text(&m), true, 1, &m);
    }

    // ---- 3502: validate on directly constructed structs (the fields are public)
    let mut val_case = |out: &mut Out, tag: &str, sr: usize, nodes: &[usize], n_idx: usize| {
        let doc = TransferProofJson {
            transfer_count: 7,
            state_root: "a".repeat(sr),
            storage_proof: nodes.iter().map(|&l| "b".repeat(l)).collect(),
            indices: vec![1usize; n_idx],
        };
        let enc: Vec<i128> = match no_panic(|| doc.validate().is_ok()) {
            Some(b) => vec![b as i128],
            None => PANIC.to_vec(),
        };
        out.case(
            3502,
            tag,
            &[vec![7, sr as i128], nodes.iter().map(|&l| l as i128).collect(), vec![1i128; n_idx]],
            &enc,
        );
    };
    for sr in [0, sr_cap - 1, sr_cap, sr_cap + 1, 10 * sr_cap] {
        val_case(out, "v-state-root", sr, &[1, 2], 1);
    }
    for n in [0, n_cap - 1, n_cap, n_cap + 1, 3 * n_cap] {
        val_case(out, "v-node-count", 2, &vec![1; n], 0);
        val_case(out, "v-node-count", 2, &vec![0; n], 0);
    }
    for l in [nl_cap - 1, nl_cap, nl_cap + 1] {
        val_case(out, "v-node-len", 2, &[l], 0);
        val_case(out, "v-node-len", 2, &[0, l], 0);
    }
    for total in [tot_cap - 1, tot_cap, tot_cap + 1] {
        for count in [2usize, 5, n_cap] {
            let nodes = spread(rng, count, total);
            val_case(out, "v-total-len", 2, &nodes, 0);
        }
    }
    val_case(out, "v-total-len", 2, &[tot_cap / 2 + 1, tot_cap / 2 + 1], 0);
    val_case(out, "v-total-len", 2, &[tot_cap, 0, 0], 0);
    val_case(out, "v-total-len", 2, &[tot_cap, 0, 1], 0);
    for n in [0, ix_cap - 1, ix_cap, ix_cap + 1, 5 * ix_cap] {
        val_case(out, "v-index-count", 2, &[], n);
    }
    for _ in 0..300 * scale {
        let sr = *rng.pick(&[0usize, 63, 64, 65]);
        let nn = *rng.pick(&[0usize, 1, 2, 3, n_cap - 1, n_cap, n_cap + 1]);
        let nodes: Vec<usize> = if nn <= 3 {
            (0..nn).map(|_| *rng.pick(&[0usize, 1, 100, 1 << 19, (1 << 19) + 1, 1 << 20, (1 << 20) + 1])).collect()
        } else {
            (0..nn).map(|_| *rng.pick(&[0usize, 1, 1023, 1024, 1025])).collect()
        };
        let ni = *rng.pick(&[0usize, 1, ix_cap - 1, ix_cap, ix_cap + 1]);
        val_case(out, "v-random", sr, &nodes, ni);
    }
}

fn main() {
    if std::env::var("VERIF_LOUD").is_err() {
        quiet_panics();
    }
    let mut rng = Rng::new(seed_from_env());
    let thorough = tier_is_thorough();
    let mut out = Out::new();
    let which = std::env::args().nth(1).unwrap_or_else(|| "all".into());
    if which == "probe" {
        // config probe <k> <9 decimal config fields>: one constructor call, for replaying a 2802 case by hand
        let a: Vec<u64> = std::env::args().skip(2).map(|x| x.parse().expect("decimal")).collect();
        let c: Cfg = a[1..10].try_into().expect("9 fields");
        let fx = fixtures();
        let (r, dt, b) = call_constructor(a[0] as usize, to_config(&c), &fx);
        println!("{} {:?} -> {:?} in {:.4}s, {} heap bytes", CONSTRUCTORS[a[0] as usize], c, r, dt, b);
        return;
    }
    if which == "all" || which == "c28" {
        let mut r = rng.fork();
        c28(&mut out, &mut r, thorough);
    }
    if which == "all" || which == "c35" {
        let mut r = rng.fork();
        c35(&mut out, &mut r, thorough);
    }
    out.flush();
}
