//! C23: atomic publication of a staged artifact set, implementation side.
//!
//! fid 2301  segs = [out0 stg0] ; rename faults ; remove faults
//!           out  = [verdict, class(output), class(staging), class(aside), 4*src+dst of every rename call ...]
//!           The REAL `commit_staging_dir_impl` (through the cfg hook `verif_commit_staging_dir_impl`) runs in a
//!           fresh directory under std::env::temp_dir() with an injected rename closure:
//!             0 ok           -> std::fs::rename
//!             1 fail         -> Err(io::Error), nothing renamed
//!             2 crash-before -> panic (nothing renamed), caught by catch_unwind = the process died
//!             3 crash-after  -> std::fs::rename, then panic
//!           Faults are consumed in call order; an exhausted vector means "ok".
//!           remove_dir_all is not injectable in the code.  Remove fault 1 (Err, nothing removed) is induced from
//!           the outside where the file system supports the immutable inode flag (FS_IOC_SETFLAGS, effective for
//!           root): the directory the code is about to remove is made immutable from inside the rename closure.
//!           All other remove faults (partial removal, death during removal) are covered by the model only.
//! fid 2302  segs = [out0 gen] ; [] ; remove faults       REAL `generate_all_circuit_binaries`
//!           gen 0 invalid proof counts, 1 staging directory cannot be created (output parent is a file),
//!           2 generation fails after staging was created (RLIMIT_FSIZE = 0: the first artifact write fails),
//!           4 a full real generation and publication.
//!           out = [verdict, class(output), class(leftover staging entries), class(leftover aside entries)]
//!
//! classes: 0 absent, 1 exactly the previous set, 2 exactly the new set, 3 the operator's file,
//!          4 / 5 an incomplete previous / new set, 9 MIXED or unknown.  verdict: 1 Ok, 0 Err, 2 died (injected), -1 panic.
use std::cell::{Cell, RefCell};
use std::collections::BTreeMap;
use std::fs;
use std::io;
use std::os::unix::io::AsRawFd;
use std::path::{Path, PathBuf};
use verif_harness::*;

const ABSENT: i128 = 0;
const PREV: i128 = 1;
const NEW: i128 = 2;
const FILE: i128 = 3;
const PART_PREV: i128 = 4;
const PART_NEW: i128 = 5;
const MIXED: i128 = 9;

const FILE_BODY: &[u8] = b"i am a file";

type Tree = BTreeMap<String, Vec<u8>>;

fn prev_set() -> Tree {
    let mut t = Tree::new();
    t.insert("common.bin".into(), b"previous common data".to_vec());
    t.insert("verifier.bin".into(), b"previous verifier".to_vec());
    t.insert("config.json".into(), b"{\"generation\":\"previous\"}".to_vec());
    t.insert("stale_only.bin".into(), b"exists only in the previous set".to_vec());
    t.insert("nested/deep.bin".into(), b"previous nested".to_vec());
    t
}
fn new_set() -> Tree {
    let mut t = Tree::new();
    t.insert("common.bin".into(), b"NEW common data".to_vec());
    t.insert("verifier.bin".into(), b"NEW verifier".to_vec());
    t.insert("config.json".into(), b"{\"generation\":\"new\"}".to_vec());
    t.insert("fresh_only.bin".into(), b"exists only in the new set".to_vec());
    t.insert("nested/deep.bin".into(), b"NEW nested".to_vec());
    t
}

fn write_tree(dir: &Path, t: &Tree) {
    fs::create_dir_all(dir).unwrap();
    for (rel, body) in t {
        let p = dir.join(rel);
        fs::create_dir_all(p.parent().unwrap()).unwrap();
        fs::write(p, body).unwrap();
    }
}

fn read_tree(dir: &Path, prefix: &str, out: &mut Tree) -> io::Result<()> {
    for e in fs::read_dir(dir)? {
        let e = e?;
        let name = e.file_name().to_string_lossy().into_owned();
        let rel = if prefix.is_empty() { name.clone() } else { format!("{prefix}/{name}") };
        let ft = e.file_type()?;
        if ft.is_dir() {
            let before = out.len();
            read_tree(&e.path(), &rel, out)?;
            if out.len() == before {
                out.insert(format!("{rel}/"), Vec::new()); // empty sub-directory: not part of any set
            }
        } else {
            out.insert(rel, fs::read(e.path())?);
        }
    }
    Ok(())
}

fn is_strict_part(t: &Tree, whole: &Tree) -> bool {
    t.len() < whole.len() && t.iter().all(|(k, v)| whole.get(k) == Some(v))
}

/// Class of what is at `p`, by file names and contents. `empty_as` = class of an empty directory
/// (an incomplete set of the kind that lives at that location).
fn classify(p: &Path, empty_as: i128) -> i128 {
    let md = match fs::symlink_metadata(p) {
        Err(_) => return ABSENT,
        Ok(md) => md,
    };
    if md.file_type().is_file() {
        return if fs::read(p).map(|b| b == FILE_BODY).unwrap_or(false) { FILE } else { MIXED };
    }
    if !md.file_type().is_dir() {
        return MIXED;
    }
    let mut t = Tree::new();
    if read_tree(p, "", &mut t).is_err() {
        return MIXED;
    }
    let (pv, nw) = (prev_set(), new_set());
    if t == pv {
        PREV
    } else if t == nw {
        NEW
    } else if t.is_empty() {
        empty_as
    } else if is_strict_part(&t, &pv) {
        PART_PREV
    } else if is_strict_part(&t, &nw) {
        PART_NEW
    } else {
        MIXED
    }
}

// ---------------------------------------------------------------- immutable flag (remove_dir_all failure as root)

const FS_IOC_GETFLAGS: libc::c_ulong = 0x8008_6601;
const FS_IOC_SETFLAGS: libc::c_ulong = 0x4008_6602;
const FS_IMMUTABLE_FL: libc::c_int = 0x10;

fn set_immutable(p: &Path, on: bool) -> bool {
    let f = match fs::File::open(p) {
        Ok(f) => f,
        Err(_) => return false,
    };
    let mut flags: libc::c_int = 0;
    unsafe {
        if libc::ioctl(f.as_raw_fd(), FS_IOC_GETFLAGS as _, &mut flags as *mut libc::c_int) != 0 {
            return false;
        }
        let want = if on { flags | FS_IMMUTABLE_FL } else { flags & !FS_IMMUTABLE_FL };
        if want == flags {
            return true;
        }
        libc::ioctl(f.as_raw_fd(), FS_IOC_SETFLAGS as _, &want as *const libc::c_int) == 0
    }
}

/// clear the flag on every directory below `root` (best effort), then delete the tree
fn unlock_all(root: &Path) {
    if let Ok(rd) = fs::read_dir(root) {
        for e in rd.flatten() {
            let p = e.path();
            if e.file_type().map(|t| t.is_dir()).unwrap_or(false) {
                set_immutable(&p, false);
                unlock_all(&p);
            }
        }
    }
}
fn cleanup(root: &Path) {
    set_immutable(root, false);
    unlock_all(root);
    let _ = fs::remove_dir_all(root);
}

fn immutable_supported(base: &Path) -> bool {
    let d = base.join("probe");
    let _ = fs::create_dir_all(&d);
    let _ = fs::write(d.join("f"), b"x");
    let ok = set_immutable(&d, true) && fs::remove_dir_all(&d).is_err() && d.join("f").exists();
    set_immutable(&d, false);
    let _ = fs::remove_dir_all(&d);
    ok
}

// ---------------------------------------------------------------- fid 2301: commit_staging_dir_impl

struct InjectedCrash;

struct Paths {
    root: PathBuf,
    output: PathBuf,
    staging: PathBuf,
    old: PathBuf,
}

fn fresh_root(base: &Path, n: &Cell<u64>) -> PathBuf {
    n.set(n.get() + 1);
    let root = base.join(format!("case-{}", n.get()));
    fs::create_dir_all(&root).unwrap();
    root
}

fn install(p: &Path, class: i128) {
    match class {
        ABSENT => {}
        PREV => write_tree(p, &prev_set()),
        NEW => write_tree(p, &new_set()),
        FILE => fs::write(p, FILE_BODY).unwrap(),
        _ => unreachable!(),
    }
}

fn loc_code(ps: &Paths, p: &Path) -> i128 {
    if p == ps.output {
        0
    } else if p == ps.staging {
        1
    } else if p == ps.old {
        2
    } else {
        3
    }
}

/// One run of the real routine. `remove_fail`: make the directory the code removes next immutable.
fn run_commit(base: &Path, n: &Cell<u64>, out0: i128, stg0: i128, rf: &[i128], remove_fail: bool) -> Vec<i128> {
    let root = fresh_root(base, n);
    let ps = Paths {
        output: root.join("bins"),
        staging: root.join(".bins.staging-4242-00000000deadbeef"),
        old: root.join(".bins.staging-4242-00000000deadbeef.old"),
        root,
    };
    install(&ps.output, out0);
    install(&ps.staging, stg0);
    if remove_fail && out0 == FILE && stg0 == NEW {
        // "output is not a directory": the staged copy is removed without any rename before it
        set_immutable(&ps.staging, true);
    }

    let calls = Cell::new(0usize);
    let trace: RefCell<Vec<i128>> = RefCell::new(Vec::new());
    let rename = |src: &Path, dst: &Path| -> io::Result<()> {
        let k = calls.get();
        calls.set(k + 1);
        let (s, d) = (loc_code(&ps, src), loc_code(&ps, dst));
        trace.borrow_mut().push(4 * s + d);
        let res = match rf.get(k).copied().unwrap_or(0) {
            1 => Err(io::Error::other("injected rename failure")),
            2 => std::panic::panic_any(InjectedCrash),
            3 => {
                let _ = fs::rename(src, dst);
                std::panic::panic_any(InjectedCrash)
            }
            _ => fs::rename(src, dst),
        };
        if remove_fail {
            // the removal that follows this call, per the routine's structure
            match (s, res.is_ok()) {
                (0, false) => drop(set_immutable(&ps.staging, true)), // move-aside failed -> staging discarded
                (1, true) => drop(set_immutable(&ps.old, true)),      // swapped in -> old copy cleaned up
                (2, true) => drop(set_immutable(&ps.staging, true)),  // rolled back -> staging discarded
                _ => {}
            }
        }
        res
    };
    let r = std::panic::catch_unwind(std::panic::AssertUnwindSafe(|| {
        circuit_builder::verif_commit_staging_dir_impl(&ps.staging, &ps.output, &rename)
    }));
    let verdict: i128 = match r {
        Ok(Ok(())) => 1,
        Ok(Err(_)) => 0,
        Err(payload) => {
            if payload.is::<InjectedCrash>() {
                2
            } else {
                -1
            }
        }
    };
    if remove_fail {
        unlock_all(&ps.root);
    }
    let mut out = vec![verdict, classify(&ps.output, MIXED), classify(&ps.staging, PART_NEW), classify(&ps.old, PART_PREV)];
    out.extend(trace.borrow().iter());
    // anything else next to the three paths is foreign to the model
    let strays = fs::read_dir(&ps.root)
        .map(|rd| rd.flatten().filter(|e| ![&ps.output, &ps.staging, &ps.old].contains(&&e.path())).count())
        .unwrap_or(0);
    if strays > 0 {
        out.push(900 + strays as i128);
    }
    cleanup(&ps.root);
    out
}

fn vectors(alphabet: &[i128], max_len: usize) -> Vec<Vec<i128>> {
    let mut all: Vec<Vec<i128>> = vec![vec![]];
    let mut layer: Vec<Vec<i128>> = vec![vec![]];
    for _ in 0..max_len {
        let mut next = Vec::new();
        for v in &layer {
            for a in alphabet {
                let mut w = v.clone();
                w.push(*a);
                next.push(w);
            }
        }
        all.extend(next.iter().cloned());
        layer = next;
    }
    all
}

fn tag_of(out0: i128, stg0: i128, rf: &[i128], mf: &[i128]) -> String {
    let o = match out0 {
        ABSENT => "no-output",
        PREV => "output-dir",
        _ => "output-file",
    };
    let s = match stg0 {
        NEW => "",
        ABSENT => "/staging-missing",
        _ => "/staging-file",
    };
    let crash = rf.iter().any(|&f| f >= 2);
    let fails = rf.iter().filter(|&&f| f == 1).count();
    let k = if crash {
        "crash"
    } else if fails >= 2 {
        "multi-fail"
    } else if fails == 1 {
        "one-fail"
    } else {
        "no-fault"
    };
    format!("{o}{s}/{k}{}", if mf.is_empty() { "" } else { "+remove-fail" })
}

// ---------------------------------------------------------------- fid 2302: generate_all_circuit_binaries

/// run `f` with fd 1 pointing at /dev/null (the generators print progress to stdout)
fn with_stdout_silenced<T>(f: impl FnOnce() -> T) -> T {
    unsafe {
        let saved = libc::dup(1);
        let null = libc::open(b"/dev/null\0".as_ptr() as *const libc::c_char, libc::O_WRONLY);
        libc::dup2(null, 1);
        libc::close(null);
        let r = std::panic::catch_unwind(std::panic::AssertUnwindSafe(f));
        use std::io::Write;
        let _ = io::stdout().flush();
        libc::dup2(saved, 1);
        libc::close(saved);
        match r {
            Ok(v) => v,
            Err(p) => std::panic::resume_unwind(p),
        }
    }
}

/// run `f` while no regular file can grow (every write(2) of file data fails with EFBIG)
fn with_file_writes_failing<T>(f: impl FnOnce() -> T) -> T {
    unsafe {
        libc::signal(libc::SIGXFSZ, libc::SIG_IGN);
        let mut lim = libc::rlimit { rlim_cur: 0, rlim_max: 0 };
        libc::getrlimit(libc::RLIMIT_FSIZE, &mut lim);
        let saved = lim;
        lim.rlim_cur = 0;
        libc::setrlimit(libc::RLIMIT_FSIZE, &lim);
        let r = std::panic::catch_unwind(std::panic::AssertUnwindSafe(f));
        libc::setrlimit(libc::RLIMIT_FSIZE, &saved);
        match r {
            Ok(v) => v,
            Err(p) => std::panic::resume_unwind(p),
        }
    }
}

/// class of the real generator's output directory: complete iff config.json (written last) is there
fn classify_generated(p: &Path) -> i128 {
    let c = classify(p, MIXED);
    if c != MIXED {
        return c;
    }
    let has = |n: &str| p.join(n).is_file();
    if has("config.json") && has("common.bin") && has("verifier.bin") && has("dummy_proof.bin") && !has("stale_only.bin") {
        NEW
    } else {
        MIXED
    }
}

fn run_generate(base: &Path, n: &Cell<u64>, out0: i128, gen: i128, variant: usize, remove_fail: bool) -> Vec<i128> {
    let root = fresh_root(base, n);
    let parent = if gen == 1 {
        let b = root.join("blocker");
        fs::write(&b, b"not a directory").unwrap();
        b
    } else {
        root.clone()
    };
    let output = parent.join("bins");
    if gen != 1 {
        install(&output, out0);
    }
    // A watcher thread sees the staging directory appear (evidence that the generation really got past
    // create_staging_dir).  With `remove_fail` it also makes it immutable at once: the generation cannot write
    // into it and the cleanup `remove_dir_all` cannot remove it.
    let stop = std::sync::Arc::new(std::sync::atomic::AtomicBool::new(false));
    let seen = std::sync::Arc::new(std::sync::atomic::AtomicBool::new(false));
    let watcher = if gen == 2 {
        let (stop, seen, root) = (stop.clone(), seen.clone(), root.clone());
        Some(std::thread::spawn(move || {
            while !stop.load(std::sync::atomic::Ordering::Relaxed) {
                if let Ok(rd) = fs::read_dir(&root) {
                    for e in rd.flatten() {
                        if e.file_name().to_string_lossy().starts_with(".bins.staging-") {
                            if remove_fail {
                                set_immutable(&e.path(), true);
                            }
                            seen.store(true, std::sync::atomic::Ordering::Relaxed);
                            return;
                        }
                    }
                }
                std::thread::yield_now();
            }
        }))
    } else {
        None
    };
    let call = || -> Option<anyhow::Result<()>> {
        no_panic(|| {
            with_stdout_silenced(|| match (gen, variant) {
                (0, 0) => circuit_builder::generate_all_circuit_binaries(&output, false, 0, None),
                (0, 1) => circuit_builder::generate_all_circuit_binaries(&output, false, 1, Some(0)),
                (0, _) => circuit_builder::generate_all_circuit_binaries(&output, true, usize::MAX, Some(1)),
                (2, _) if !remove_fail => {
                    with_file_writes_failing(|| circuit_builder::generate_all_circuit_binaries(&output, false, 1, None))
                }
                _ => circuit_builder::generate_all_circuit_binaries(&output, false, 1, None),
            })
        })
    };
    let r = call();
    stop.store(true, std::sync::atomic::Ordering::Relaxed);
    if let Some(w) = watcher {
        let _ = w.join();
    }
    unlock_all(&root);
    let verdict: i128 = match r {
        Some(Ok(())) => 1,
        Some(Err(_)) => 0,
        None => -1,
    };
    let (mut stg, mut old, mut strays) = (ABSENT, ABSENT, 0);
    for e in fs::read_dir(&root).unwrap().flatten() {
        let name = e.file_name().to_string_lossy().into_owned();
        if name == "bins" || (gen == 1 && name == "blocker") {
            continue;
        }
        if name.starts_with(".bins.staging-") && name.ends_with(".old") {
            old = classify(&e.path(), PART_PREV);
        } else if name.starts_with(".bins.staging-") {
            stg = match classify_generated(&e.path()) {
                NEW => NEW,
                _ => PART_NEW,
            };
        } else {
            strays += 1;
        }
    }
    let out_class = if gen == 1 {
        // the blocker must still be the operator's file and nothing may exist below it
        if fs::read(&parent).map(|b| b == b"not a directory").unwrap_or(false) { ABSENT } else { MIXED }
    } else {
        classify_generated(&output)
    };
    let mut out = vec![verdict, out_class, stg, old];
    if strays > 0 {
        out.push(900 + strays as i128);
    }
    if gen == 2 && !seen.load(std::sync::atomic::Ordering::Relaxed) {
        out.push(899); // the generation failed before a staging directory existed: not the case this line claims
    }
    cleanup(&root);
    out
}

/// remove leftovers of harness processes that were killed (their pid no longer exists)
fn sweep_stale(tmp: &Path) {
    if let Ok(rd) = fs::read_dir(tmp) {
        for e in rd.flatten() {
            let name = e.file_name().to_string_lossy().into_owned();
            if let Some(pid) = name.strip_prefix("verif-c23-") {
                if !Path::new(&format!("/proc/{pid}")).exists() {
                    cleanup(&e.path());
                }
            }
        }
    }
}

fn main() {
    quiet_panics();
    let thorough = tier_is_thorough();
    let mut rng = Rng::new(seed_from_env());
    let tmp = std::env::temp_dir();
    sweep_stale(&tmp);
    let base = tmp.join(format!("verif-c23-{}", std::process::id()));
    let _ = fs::remove_dir_all(&base);
    fs::create_dir_all(&base).unwrap();
    let n = Cell::new(0u64);
    let mut out = Out::new();

    let can_lock = immutable_supported(&base);
    out.note("remove_fail_injection", if can_lock { "immutable-flag (remove fault 1 replayed on the real function)" } else { "unsupported here (remove faults: model only)" });

    // every rename-fault vector the model enumerates (length <= 3 = its bound) and one position beyond,
    // from every initial state; the order of the cases is shuffled by the seed
    let max_len = if thorough { 5 } else { 4 };
    let mut cases: Vec<(i128, i128, Vec<i128>, bool)> = Vec::new();
    for out0 in [ABSENT, PREV, FILE] {
        for rf in vectors(&[0, 1, 2, 3], max_len) {
            cases.push((out0, NEW, rf, false));
        }
        // a staging path that is not a directory is refused before any operation: no fault is ever consumed
        for stg0 in [ABSENT, FILE] {
            for rf in vectors(&[0, 1, 2, 3], 1) {
                cases.push((out0, stg0, rf, false));
            }
        }
        if can_lock {
            for rf in vectors(&[0, 1, 2, 3], 3) {
                cases.push((out0, NEW, rf, true));
            }
        }
    }
    for i in (1..cases.len()).rev() {
        let j = rng.below(i as u64 + 1) as usize;
        cases.swap(i, j);
    }
    let mut replayed = 0usize;
    for (out0, stg0, rf, remove_fail) in &cases {
        let mf: Vec<i128> = if *remove_fail { vec![1] } else { vec![] };
        let res = run_commit(&base, &n, *out0, *stg0, rf, *remove_fail);
        out.case(2301, &tag_of(*out0, *stg0, rf, &mf), &[vec![*out0, *stg0], rf.clone(), mf], &res);
        replayed += 1;
    }
    out.note("fault_vectors_replayed", &replayed.to_string());
    out.flush();

    // the outer entry point (its generators print to stdout: everything buffered is flushed before each call)
    let gen_case = |out: &mut Out, tag: &str, out0: i128, gen: i128, variant: usize, remove_fail: bool| {
        out.flush();
        let res = run_generate(&base, &n, out0, gen, variant, remove_fail);
        let mf: Vec<i128> = if remove_fail { vec![1] } else { vec![] };
        out.case(2302, tag, &[vec![out0, gen], vec![], mf], &res);
        out.flush();
    };
    for out0 in [ABSENT, PREV, FILE] {
        for variant in 0..3 {
            gen_case(&mut out, "generate/invalid-config", out0, 0, variant, false);
        }
        gen_case(&mut out, "generate/generation-fails", out0, 2, 0, false);
        if can_lock {
            gen_case(&mut out, "generate/generation-fails+remove-fail", out0, 2, 0, true);
        }
    }
    gen_case(&mut out, "generate/staging-not-creatable", ABSENT, 1, 0, false);
    // a full real generation + publication (about 2 s each): over a previous set always, the other two
    // initial states in the thorough tier
    gen_case(&mut out, "generate/real-success", PREV, 4, 0, false);
    if thorough {
        gen_case(&mut out, "generate/real-success", ABSENT, 4, 0, false);
        gen_case(&mut out, "generate/real-success", FILE, 4, 0, false);
    }
    out.flush();
    cleanup(&base);
}
