//! C01-C04 (and the circuit side of C27): the REAL Wormhole leaf circuit on arbitrary assignments of its
//! input targets (every target assigned independently, bypassing fill_targets) and on overridden
//! generator outputs. Model side: coq/Circ/LeafRun.v.
use plonky2::field::types::{Field, PrimeField64};
use plonky2::hash::poseidon2::Poseidon2Hash;
use plonky2::iop::target::Target;
use plonky2::iop::witness::PartialWitness;
use plonky2::plonk::config::Hasher;
use verif_harness::leafgen::*;
use verif_harness::plonk::*;
use verif_harness::*;
use wormhole_circuit::circuit::circuit_logic::{CircuitTargets, WormholeCircuit};
use zk_circuits_common::circuit::wormhole_leaf_circuit_config;
use zk_circuits_common::utils::string_to_felts;

const EQ: &str = "EqualityGenerator";
const SP: &str = "BaseSplitGenerator";

/// one adversarial deviation of an honest assignment; returns a tag
fn mutate(r: &mut Rng, a: &mut LeafAssign) -> &'static str {
    let big: [u64; 8] = [1 << 32, (1 << 32) + 1, P - 1, P - 2, P - (1 << 32), 1 << 33, 1 << 63, (1u64 << 48) + 5];
    match r.below(38) {
        0 => "honest",
        1 => {
            a.asset = *r.pick(&big);
            a.rederive();
            "asset-big(rederived)"
        }
        2 => {
            a.input_amount = *r.pick(&big);
            a.rederive();
            "input-big(rederived)"
        }
        3 => {
            a.out1 = *r.pick(&big);
            "out1-big"
        }
        4 => {
            a.out2 = *r.pick(&big);
            "out2-big"
        }
        5 => {
            a.fee = *r.pick(&[10001u64, 1 << 14, (1 << 14) + 10000, P - 1, 1 << 32, 16383, 20000, 26384]);
            "fee-out-of-range"
        }
        6 => {
            a.block_number = *r.pick(&big);
            a.block_hash = h(&a.header_preimage());
            "block-number-big(rehash)"
        }
        7 => {
            let i = r.below(2) as usize;
            a.leaf_tc[i] = *r.pick(&big);
            a.rederive();
            "tc-limb-big(rederived)"
        }
        8 => {
            // fee rule boundary: (o1+o2)*10000 vs in*(10000-fee), off by -1 / 0 / +1 unit of output
            let fee = *r.pick(&[0u64, 10, 100, 5000, 9999, 10000]);
            let inp = 1 + r.below((1 << 32) - 1);
            let cap = (inp as u128 * (10000 - fee) as u128 / 10000) as u64;
            let total = match r.below(3) {
                0 => cap,
                1 => cap + 1,
                _ => cap.saturating_sub(1),
            };
            a.fee = fee;
            a.input_amount = inp;
            a.out1 = r.below(total.min((1 << 32) - 1) + 1);
            a.out2 = total.saturating_sub(a.out1);
            a.rederive();
            "fee-rule-boundary(rederived)"
        }
        9 => {
            // wrap attempt: huge outputs whose product wraps mod p
            a.out1 = (1 << 32) - 1;
            a.out2 = (1 << 32) - 1;
            a.input_amount = r.below(1 << 32);
            a.rederive();
            "outputs-max"
        }
        10 => {
            a.null_secret = rand_digest(r);
            a.nullifier = LeafAssign::nullifier_of(&a.null_secret, &a.null_tc);
            "split-secret(nullifier from other secret)"
        }
        11 => {
            a.null_tc = [r.below(1 << 32), r.below(1 << 32)];
            a.nullifier = LeafAssign::nullifier_of(&a.null_secret, &a.null_tc);
            "split-transfer-count"
        }
        12 => {
            a.unsp_secret = rand_digest(r);
            a.unsp_account = LeafAssign::account_of(&a.unsp_secret);
            "split-account(unspendable from other secret)"
        }
        13 => {
            let i = r.below(4) as usize;
            a.nullifier[i] = (a.nullifier[i] + 1) % P;
            "nullifier-limb"
        }
        14 => {
            let i = r.below(4) as usize;
            a.block_hash[i] = (a.block_hash[i] + 1) % P;
            "block-hash-limb"
        }
        15 => {
            let i = r.below(4) as usize;
            a.root_hash[i] = (a.root_hash[i] + 1) % P;
            "root-hash!=header-root"
        }
        16 => {
            // a valid path to an unrelated root, header keeps its own root
            a.tree_root = rand_digest(r);
            a.block_hash = h(&a.header_preimage());
            "header-root-unrelated(rehash)"
        }
        17 => {
            let l = r.below(MAX_DEPTH as u64) as usize;
            a.positions[l] = *r.pick(&[4u64, 5, 7, P - 1, 1 << 32]);
            "position-out-of-range"
        }
        18 => {
            a.depth = *r.pick(&[17u64, 18, 31, 32, 33, P - 1, 1 << 32]);
            "depth-too-big"
        }
        19 => {
            // claimed depth differs from the path that was folded
            let d = a.depth;
            a.depth = if d == 0 { 1 } else { d - 1 };
            "depth-off-by-one"
        }
        20 => {
            let d = a.depth as usize;
            if d < MAX_DEPTH {
                let l = d + r.below((MAX_DEPTH - d) as u64) as usize;
                for s in 0..3 {
                    a.siblings[l][s] = rand_digest(r);
                }
                a.positions[l] = r.below(4);
            }
            "unused-level-garbage(must not matter)"
        }
        21 => {
            a.is_not_dummy = Some(*r.pick(&[0u64, 1, 2, P - 1]));
            "is-not-dummy-assigned"
        }
        22 => {
            // full dummy sentinel with garbage everywhere else
            a.block_hash = [0; 4];
            a.out1 = 0;
            a.out2 = 0;
            a.nullifier = rand_digest(r);
            a.root_hash = rand_digest(r);
            a.tree_root = rand_digest(r);
            "dummy-sentinel-garbage"
        }
        23 => {
            a.block_hash = [0; 4];
            a.nullifier = rand_digest(r);
            "zero-block-hash-nonzero-output"
        }
        24 => {
            a.out1 = 0;
            a.out2 = 0;
            "nonzero-block-hash-zero-outputs(valid)"
        }
        25 => {
            a.out1 = 0;
            a.out2 = 0;
            a.nullifier = rand_digest(r);
            "nonzero-block-hash-zero-outputs-forged-nullifier"
        }
        26 => {
            let i = r.below(28) as usize;
            a.digest[i] = r.next() % P;
            "digest-felt-changed"
        }
        27 => {
            a.parent_hash = rand_digest(r);
            "parent-hash-changed"
        }
        28 => {
            a.state_root = rand_digest(r);
            "state-root-changed"
        }
        29 => {
            let d = a.depth as usize;
            if d > 0 {
                let l = r.below(d as u64) as usize;
                let s = r.below(3) as usize;
                a.siblings[l][s][r.below(4) as usize] ^= 1;
            }
            "sibling-bit-flipped"
        }
        30 => {
            let d = a.depth as usize;
            if d > 0 {
                let l = r.below(d as u64) as usize;
                a.positions[l] = (a.positions[l] + 1) % 4;
            }
            "position-changed"
        }
        31 => {
            a.to_account = rand_digest(r);
            "to-account!=account-id"
        }
        32 => {
            // dummy with out-of-range scalars: range and fee constraints must hold for dummies too
            a.block_hash = [0; 4];
            a.out1 = 0;
            a.out2 = 0;
            match r.below(3) {
                0 => a.asset = P - 1,
                1 => a.fee = 10001,
                _ => a.block_number = 1 << 32,
            }
            "dummy-with-bad-range"
        }
        33 => {
            // a NON-zero block hash whose limbs cancel mod p (sum / product style shortcuts would call it zero),
            // zero outputs, forged nullifier: not a dummy, so every binding applies
            a.block_hash = *r.pick(&[[1, P - 1, 0, 0], [P - 1, 0, 1, 0], [0, 2, 0, P - 2], [5, 0, 0, 0], [0, 0, 0, 1]]);
            a.out1 = 0;
            a.out2 = 0;
            a.nullifier = rand_digest(r);
            "block-hash-limbs-cancel-zero-outputs"
        }
        34 => {
            // zero block hash, outputs whose SUM is 0 mod p but are not both zero
            a.block_hash = [0; 4];
            a.out1 = 1;
            a.out2 = P - 1;
            a.nullifier = rand_digest(r);
            "zero-block-hash-outputs-cancel"
        }
        35 | 36 => {
            // tamper one bound digest by a shift whose limb sum is 0 mod p (+k on one limb, -k on another): a binding that
            // was weakened to a sum / linear combination of limb differences would not notice
            let k = 1 + r.below(3);
            let i = r.below(4) as usize;
            let j = (i + 1 + r.below(3) as usize) % 4;
            let which = r.below(6);
            let d: &mut [u64; 4] = match which {
                0 => &mut a.nullifier,
                1 => &mut a.block_hash,
                2 => &mut a.root_hash,
                3 => &mut a.tree_root,
                4 => &mut a.to_account,
                _ => &mut a.unsp_account,
            };
            d[i] = ((d[i] as u128 + k as u128) % P as u128) as u64;
            d[j] = ((d[j] as u128 + P as u128 - k as u128) % P as u128) as u64;
            "digest-limbs-shifted-sum-preserving"
        }
        _ => {
            a.exit1 = rand_digest(r);
            a.exit2 = rand_digest(r);
            "exit-accounts-free"
        }
    }
}


/// Isolated single-component deviations: exactly ONE component (one limb of one binding, one conjunct of the dummy
/// decision, one scalar) is wrong and every OTHER constraint of the circuit is satisfied (everything downstream is
/// re-derived).  Random multi-limb tampering does not test a binding limb by limb: a digest that is wrong in all four
/// limbs is still caught by a binding that lost one limb, and a root_hash deviation is caught by either of the two
/// constraints it takes part in.  Enumerated, not sampled.
fn isolated(a0: &LeafAssign, r: &mut Rng) -> Vec<(String, LeafAssign)> {
    let mut v: Vec<(String, LeafAssign)> = Vec::new();
    let bump = |x: u64, k: u64| ((x as u128 + k as u128) % P as u128) as u64;
    let depth = a0.depth.min(MAX_DEPTH as u64) as usize;
    let rehash_tail = |a: &mut LeafAssign| {
        // roots and block hash follow the (possibly changed) leaf
        let root = a.fold_root(depth);
        a.root_hash = root;
        a.tree_root = root;
        a.block_hash = h(&a.header_preimage());
    };
    for i in 0..4 {
        // 1. public nullifier limb i differs from H(H(salt, secret, count))
        let mut a = a0.clone();
        a.nullifier[i] = bump(a.nullifier[i], 1);
        v.push((format!("iso:nullifier-limb{}", i), a));
        // 2. nullifier's secret limb i differs from the address secret; nullifier re-derived from its own secret
        let mut a = a0.clone();
        a.null_secret[i] = bump(a.null_secret[i], 1);
        a.nullifier = LeafAssign::nullifier_of(&a.null_secret, &a.null_tc);
        v.push((format!("iso:secret-wiring-limb{}", i), a));
        // 4. leaf.to_account limb i differs from the derived address; path, roots and block hash follow the leaf
        let mut a = a0.clone();
        a.to_account[i] = bump(a.to_account[i], 1);
        rehash_tail(&mut a);
        v.push((format!("iso:to-account-wiring-limb{}", i), a));
        // 5. address limb i differs from H(H(salt, secret)); the leaf carries the same (wrong) address
        let mut a = a0.clone();
        a.unsp_account[i] = bump(a.unsp_account[i], 1);
        a.to_account = a.unsp_account;
        rehash_tail(&mut a);
        v.push((format!("iso:address-derivation-limb{}", i), a));
        // 6. claimed root limb i differs from the folded path; the header commits to the claimed root
        let mut a = a0.clone();
        a.root_hash[i] = bump(a.root_hash[i], 1);
        a.tree_root = a.root_hash;
        a.block_hash = h(&a.header_preimage());
        v.push((format!("iso:merkle-root-limb{}", i), a));
        // 7. header's tree root limb i differs from the proven root; block hash commits to that header
        let mut a = a0.clone();
        a.tree_root[i] = bump(a.tree_root[i], 1);
        a.block_hash = h(&a.header_preimage());
        v.push((format!("iso:header-root-limb{}", i), a));
        // 8. block hash limb i differs from the header hash
        let mut a = a0.clone();
        a.block_hash[i] = bump(a.block_hash[i], 1);
        v.push((format!("iso:block-hash-limb{}", i), a));
        // 9a. exactly one non-zero block-hash limb, zero outputs, forged nullifier: NOT a dummy
        let mut a = a0.clone();
        a.block_hash = [0; 4];
        a.block_hash[i] = 1 + r.below(5);
        a.out1 = 0;
        a.out2 = 0;
        a.nullifier = rand_digest(r);
        v.push((format!("iso:dummy-decision-only-bh-limb{}-nonzero", i), a));
    }
    for i in 0..2 {
        // 3. nullifier's transfer-count limb i differs from the leaf's; nullifier re-derived from its own count
        let mut a = a0.clone();
        a.null_tc[i] = (a.null_tc[i] + 1) & 0xFFFF_FFFF;
        a.nullifier = LeafAssign::nullifier_of(&a.null_secret, &a.null_tc);
        v.push((format!("iso:transfer-count-wiring-limb{}", i), a));
        // 9b. zero block hash, exactly one non-zero output, forged nullifier: NOT a dummy
        let mut a = a0.clone();
        a.block_hash = [0; 4];
        a.out1 = if i == 0 { 1 + r.below(3) } else { 0 };
        a.out2 = if i == 1 { 1 + r.below(3) } else { 0 };
        a.nullifier = rand_digest(r);
        v.push((format!("iso:dummy-decision-only-out{}-nonzero", i + 1), a));
    }
    // 3b. the nullifier's transfer-count limbs differ from the leaf's but pack to the same value hi * 2^32 + lo (mod p):
    //     (hi + k, lo - k * 2^32).  A wiring weakened to one packed equality (the 32-bit range checks sit on the LEAF's
    //     limbs only) would accept it; nullifier re-derived from its own limbs.
    for k in [1u64, 2, 0xFFFF] {
        let mut a = a0.clone();
        let shift = ((k as u128) << 32) % P as u128;
        a.null_tc = [bump(a.null_tc[0], k), ((a.null_tc[1] as u128 + P as u128 - shift) % P as u128) as u64];
        a.nullifier = LeafAssign::nullifier_of(&a.null_secret, &a.null_tc);
        v.push((format!("iso:transfer-count-wiring-packed-value-preserved-k{}", k), a));
    }
    // 10. one scalar just outside its range (2^32, and 2^32 + small), everything re-derived around it
    for k in [0u64, 7] {
        for which in 0..7 {
            let mut a = a0.clone();
            let big = (1u64 << 32) + k;
            let name = match which {
                0 => { a.asset = big; "asset" }
                1 => { a.input_amount = big; a.out1 = 0; a.out2 = 1; "input" }
                2 => { a.out1 = big; "out1" }
                3 => { a.out2 = big; "out2" }
                4 => { a.block_number = big; "block-number" }
                5 => { a.leaf_tc[0] = big; "tc-hi" }
                _ => { a.leaf_tc[1] = big; "tc-lo" }
            };
            a.rederive();
            v.push((format!("iso:scalar-{}-is-2^32+{}", name, k), a));
        }
    }
    // 11. depth just above the maximum with an otherwise valid 16-level path (aliases of depth 16)
    if depth == MAX_DEPTH {
        for d in [MAX_DEPTH as u64 + 1, MAX_DEPTH as u64 + 2, 31] {
            let mut a = a0.clone();
            a.depth = d;
            v.push((format!("iso:depth-{}-on-a-full-path", d), a));
        }
    }
    v
}

/// widths of the split_le calls of the leaf circuit, in builder order
fn split_widths() -> Vec<usize> {
    let mut w = vec![32; 7];
    w.push(14);
    w.push(48);
    w.push(5);
    for _ in 0..MAX_DEPTH {
        w.push(5);
        w.push(2);
    }
    w.push(32);
    w
}

fn main() {
    quiet_panics();
    let mut rng = Rng::new(seed_from_env());
    let thorough = tier_is_thorough();
    let mut out = Out::new();

    let circuit = WormholeCircuit::new(wormhole_leaf_circuit_config()).expect("leaf circuit");
    let targets = circuit.targets();
    let data = circuit.build_circuit();
    let ev = CircuitEval::new(&data);
    out.note("leaf-circuit", &format!("degree={} public_inputs={} eq_generators={} split_generators={}", data.common.degree(), data.prover_only.public_inputs.len(), ev.count_gen(EQ), ev.count_gen(SP)));
    let widths = split_widths();

    // fingerprint of the hint-allocating calls (one per circuit; the honest path of any input has the same trace)
    {
        let a = LeafAssign::honest(&mut rng, 3);
        let fp: Vec<i128> = ev
            .hint_fingerprint()
            .iter()
            .map(|id| if id.starts_with(EQ) { 1 } else if id.starts_with("WireSplitGenerator") { 2 } else { 3 })
            .collect();
        out.case(105, "fingerprint", &a.segs(), &fp);
    }

    let per_depth = if thorough { 300 } else { 40 };
    let mut proved = 0usize;
    for depth in 0..=MAX_DEPTH {
        for rep in 0..per_depth {
            let mut a = LeafAssign::honest(&mut rng, depth);
            let tag = if rep == 0 { "honest" } else { mutate(&mut rng, &mut a) };
            let o = ev.run(a.to_pw(&targets), &mut no_tweak());
            out.case(101, tag, &a.segs(), &o.enc());
            // a sample of accepted statements goes through the real prover + verifier
            if o.accepted() && proved < (if thorough { 60 } else { 6 }) && rep % 5 == 0 {
                let w = ev.generate_with_overrides(a.to_pw(&targets), &mut no_tweak()).unwrap();
                let r = ev.prove_and_verify(w);
                out.note("real-prove+verify-of-accepted-assignment", &format!("depth={} tag={} ok={}", depth, tag, r.is_ok()));
                if let (Ok(pis), Outcome::Accept(p2)) = (&r, &o) {
                    if pis != p2 {
                        out.case(101, "prove-pis-mismatch", &a.segs(), &[-5]);
                    }
                } else {
                    out.case(101, "accepted-witness-fails-real-prover", &a.segs(), &[-5]);
                }
                proved += 1;
            }
        }
    }

    // isolated single-component deviations at depths 0, 1, a middle depth and the maximum
    let iso_depths: Vec<usize> = if thorough { (0..=MAX_DEPTH).collect() } else { vec![0, 1, 2 + rng.below(13) as usize, MAX_DEPTH] };
    for depth in iso_depths {
        let a0 = LeafAssign::honest(&mut rng, depth);
        for (tag, a) in isolated(&a0, &mut rng) {
            let o = ev.run(a.to_pw(&targets), &mut no_tweak());
            out.case(101, &tag, &a.segs(), &o.enc());
        }
    }

    // hint overrides on honest and on slightly wrong statements
    let nadv = if thorough { 3000 } else { 250 };
    let neq = ev.count_gen(EQ);
    for _ in 0..nadv {
        let depth = rng.below(MAX_DEPTH as u64 + 1) as usize;
        let mut a = LeafAssign::honest(&mut rng, depth);
        let base_tag = if rng.chance(1, 3) { mutate(&mut rng, &mut a) } else { "honest" };
        let mut ovr: Vec<(i128, usize, Vec<u64>)> = vec![];
        let kind_tag;
        match rng.below(4) {
            0 => {
                let occ = rng.below(neq as u64) as usize;
                ovr.push((1, occ, vec![*rng.pick(&[0u64, 1, 2, P - 1]), if rng.chance(1, 2) { 0 } else { rng.edge_felt() }]));
                kind_tag = "eq-forge";
            }
            1 => {
                // forge the dummy-decision equalities (the last six is_equal calls)
                let occ = neq - 6 + rng.below(6) as usize;
                ovr.push((1, occ, vec![1, 0]));
                kind_tag = "eq-claim-zero(dummy decision)";
            }
            2 => {
                let occ = rng.below(widths.len() as u64) as usize;
                let n = widths[occ];
                let mut bs: Vec<u64> = (0..n).map(|_| rng.below(2)).collect();
                if rng.chance(1, 4) {
                    bs[0] = 2;
                }
                ovr.push((3, occ, bs));
                kind_tag = "split-forge";
            }
            _ => {
                // level-activity comparator bits: claim a different depth decomposition
                let l = rng.below(MAX_DEPTH as u64) as usize;
                let occ = 10 + 2 * l;
                let v = rng.below(32);
                ovr.push((3, occ, (0..5).map(|i| (v >> i) & 1).collect()));
                kind_tag = "level-active-bits-forge";
            }
        }
        let ovr2 = ovr.clone();
        let mut tw = move |id: &str, occ: usize, _w: &plonky2::iop::witness::PartitionWitness<F>, vals: &mut Vec<(Target, F)>| {
            for (kind, o, vs) in &ovr2 {
                let pre = if *kind == 1 { EQ } else { SP };
                if id.starts_with(pre) && occ == *o {
                    for (i, v) in vs.iter().enumerate() {
                        if i < vals.len() {
                            vals[i].1 = f(*v);
                        }
                    }
                }
            }
        };
        let o = ev.run(a.to_pw(&targets), &mut tw);
        let mut segs = a.segs();
        for (kind, occ, vs) in &ovr {
            let mut s: Seg = vec![*kind, *occ as i128];
            s.extend(vs.iter().map(|&v| (v % P) as i128));
            segs.push(s);
        }
        let tag = format!("{}+{}", kind_tag, if base_tag == "honest" { "honest" } else { "mutated" });
        out.case(102, &tag, &segs, &o.enc());
    }
    out.flush();
}
