//! C15 - padding, shuffling and dummy preimages of committed batches, implementation side.
//!
//! (i)   rand 0.8.6 `SliceRandom::shuffle` / `gen_range(0..n as u32)` as linked into this build, driven by a
//!       replaying `RngCore` whose u32 outputs are recorded (fid 1501, 1502);
//! (ii)  `BytesDigest::try_from` on preimage candidates (fid 1503) and REAL `PrivateBatchProver::commit` runs over
//!       the fake-leaf stack: the committed slot order and the dummy preimages are read back from the partial
//!       witness (hook `verif_partial_witness`; `verif_c15_recycle` re-arms a prover so that many commits share one
//!       circuit build) (fid 1504, 1505, 1508);
//! (iii) REAL `PublicBatchProver::commit`: slot order (fid 1506).
//! Statistics (chi-square of slot orders / positions) are printed as notes: reported, never decided on.
use plonky2::field::types::Field;
use plonky2::iop::target::Target;
use plonky2::iop::witness::{PartialWitness, Witness, WitnessWrite};
use plonky2::plonk::circuit_data::CircuitData;
use plonky2::plonk::proof::{ProofWithPublicInputs, ProofWithPublicInputsTarget};
use rand::seq::SliceRandom;
use rand::{Rng as _, RngCore};
use std::time::Instant;
use test_helpers::fake_leaf::{build_fake_leaf_circuit, prove_fake_leaf};
use verif_harness::*;
use wormhole_aggregator::private_batch::circuit::circuit_logic::PrivateBatchCircuit;
use wormhole_aggregator::private_batch::prover::PrivateBatchProver;
use wormhole_aggregator::public_batch::circuit::circuit_logic::PublicBatchCircuit;
use wormhole_aggregator::public_batch::prover::{PublicBatchInputs, PublicBatchProver};
use zk_circuits_common::circuit::{
    wormhole_private_batch_circuit_config, wormhole_public_batch_circuit_config, C, D, F,
};
use zk_circuits_common::utils::{bytes_to_digest, BytesDigest};

type Proof = ProofWithPublicInputs<F, C, D>;

/// Output handle for the parts that run on their own threads: every line is flushed on its own (`Stdout` takes its
/// lock per write call, so whole lines stay intact when several threads print).
struct LineOut(Out);
impl LineOut {
    fn new() -> Self {
        LineOut(Out::new())
    }
    fn case(&mut self, fid: u32, tag: &str, segs: &[Seg], o: &[i128]) {
        self.0.case(fid, tag, segs, o);
        self.0.flush();
    }
    fn note(&mut self, key: &str, val: &str) {
        self.0.note(key, val);
        self.0.flush();
    }
}

// ------------------------------------------------------------------------------------------- replaying generator

/// A generator whose u32 outputs are chosen by the harness and logged. Only `next_u32` is expected to be used by
/// `shuffle` / `gen_range::<u32>`; any other entry point is flagged.
struct Replay {
    src: Rng,
    mode: u8,
    log: Vec<u32>,
    other_calls: usize,
}
impl Replay {
    fn new(src: Rng, mode: u8) -> Self {
        Replay { src, mode, log: vec![], other_calls: 0 }
    }
    fn draw(&mut self) -> u32 {
        // structured values alternate with random ones: a structured value may be one that gen_range rejects for
        // the current range, so a purely structured stream could loop forever
        if self.mode != 0 && self.src.chance(1, 2) {
            return self.src.next() as u32;
        }
        match self.mode {
            0 => self.src.next() as u32,
            1 => self.src.below(8) as u32,            // hi = 0: swap with index 0
            2 => u32::MAX - self.src.below(8) as u32, // hi = range - 1 when accepted; rejected for most ranges
            3 => *self.src.pick(&[0u32, 1, 0x7FFF_FFFF, 0x8000_0000, 0xBFFF_FFFF, 0xC000_0000, 0xFFFF_FFFF, 0x5555_5555, 0xAAAA_AAAA]),
            _ => (self.src.next() as u32) | 0xC000_0000, // top quarter: often rejected
        }
    }
}
impl RngCore for Replay {
    fn next_u32(&mut self) -> u32 {
        let v = self.draw();
        self.log.push(v);
        v
    }
    fn next_u64(&mut self) -> u64 {
        self.other_calls += 1;
        self.src.next()
    }
    fn fill_bytes(&mut self, dest: &mut [u8]) {
        self.other_calls += 1;
        for b in dest.iter_mut() {
            *b = self.src.next() as u8;
        }
    }
    fn try_fill_bytes(&mut self, dest: &mut [u8]) -> Result<(), rand::Error> {
        self.fill_bytes(dest);
        Ok(())
    }
}

/// recover the Fisher-Yates draw vector from a shuffled identity vector by undoing the swaps from the front:
/// rand performs steps i = n-1 .. 1; step i is the LAST one to touch position i, so perm[i] after all steps is the
/// element that step i moved there. Replaying the model's algorithm is the model's job; here we only need the
/// draws for the output line, and take them by simulating with the recorded positions.
fn recover_draws(perm: &[usize]) -> Vec<usize> {
    let n = perm.len();
    let mut cur: Vec<usize> = (0..n).collect();
    let mut draws = vec![];
    for i in (1..n).rev() {
        // the element that ends at position i is perm[i]; it is at some position d <= i of `cur` now
        let d = cur.iter().position(|&x| x == perm[i]).expect("element present");
        draws.push(d);
        cur.swap(i, d);
    }
    draws
}

fn shuffle_cases(out: &mut Out, r: &mut Rng, thorough: bool) {
    let reps = if thorough { 6000 } else { 1200 };
    for it in 0..reps {
        let n: usize = match r.below(10) {
            0 => r.below(3) as usize,
            1..=6 => 2 + r.below(8) as usize,
            7 | 8 => 10 + r.below(55) as usize,
            _ => 65 + r.below(200) as usize,
        };
        let mode = (it % 5) as u8;
        let mut rng = Replay::new(r.fork(), mode);
        let mut v: Vec<usize> = (0..n).collect();
        let ok = no_panic(|| v.shuffle(&mut rng));
        let tag = format!("shuffle mode{} n{}", mode, if n < 2 { "0-1" } else if n < 10 { "2-9" } else if n < 65 { "10-64" } else { "65+" });
        let segs = [vec![n as i128], rng.log.iter().map(|&x| x as i128).collect::<Seg>()];
        if ok.is_none() || rng.other_calls > 0 {
            out.case(1501, &tag, &segs, &PANIC);
            continue;
        }
        let mut o: Vec<i128> = vec![1];
        o.extend(v.iter().map(|&x| x as i128));
        o.extend(recover_draws(&v).iter().map(|&x| x as i128));
        o.push(rng.log.len() as i128);
        out.case(1501, &tag, &segs, &o);
    }
    // gen_range(0..ubound as u32) alone, all magnitudes of ubound
    let reps = if thorough { 20000 } else { 4000 };
    for it in 0..reps {
        let ub: u32 = match r.below(6) {
            0 => 1 + r.below(70) as u32,
            1 => *r.pick(&[1u32, 2, 3, 4, 5, 0x7FFF_FFFF, 0x8000_0000, 0x8000_0001, 0xFFFF_FFFE, 0xFFFF_FFFF, 0x1_0000 - 1, 0x1_0000, 0x1_0001]),
            2 => 1 + (r.next() as u32 >> (r.below(32) as u32)),
            3 => (1u32 << r.below(32)) .wrapping_add(r.below(3) as u32).max(1),
            _ => (r.next() as u32).max(1),
        };
        let mode = (it % 5) as u8;
        let mut rng = Replay::new(r.fork(), mode);
        let got = no_panic(|| rng.gen_range(0..ub));
        let tag = format!("gen_range mode{} ubound<2^{}", mode, ((32 - ub.leading_zeros() + 7) / 8) * 8);
        let segs = [vec![ub as i128], rng.log.iter().map(|&x| x as i128).collect::<Seg>()];
        match got {
            Some(x) if rng.other_calls == 0 => out.case(1502, &tag, &segs, &[1, x as i128, rng.log.len() as i128]),
            _ => out.case(1502, &tag, &segs, &PANIC),
        }
    }
}

// ------------------------------------------------------------------------------------------- preimage candidates

fn candidate_cases(out: &mut Out, r: &mut Rng, thorough: bool) {
    let reps = if thorough { 20000 } else { 4000 };
    for _ in 0..reps {
        let mut limbs = [0u64; 4];
        let kind = r.below(4);
        for l in limbs.iter_mut() {
            *l = match kind {
                0 => r.next(),
                1 => *r.pick(&[0u64, 1, P - 2, P - 1, P, P + 1, u64::MAX, u64::MAX - 1, 1 << 63, 0xFFFF_FFFF, 1 << 32]),
                2 => {
                    if r.chance(1, 4) {
                        P + r.below(0xFFFF_FFFF)
                    } else {
                        r.next() % P
                    }
                }
                _ => r.edge_u64(),
            };
        }
        let bytes = limbs_digest(&limbs);
        let res = no_panic(|| BytesDigest::try_from(bytes));
        let tag = format!("candidate kind{}", kind);
        let o: Vec<i128> = match res {
            None => PANIC.to_vec(),
            Some(Err(_)) => vec![0],
            Some(Ok(d)) => {
                let mut o = vec![1i128];
                o.extend(bytes_to_digest(d).iter().map(|f| f.0 as i128));
                o
            }
        };
        out.case(1503, &tag, &[seg_bytes(&bytes)], &o);
    }
}

// ------------------------------------------------------------------------------------------- reading a witness back

/// the values a proof target was assigned: public inputs, the three Merkle caps, the proof-of-work witness
/// (enough to tell every proof of this run apart; `None` if some target is unassigned)
fn slot_signature(pw: &PartialWitness<F>, pt: &ProofWithPublicInputsTarget<D>) -> Option<Vec<u64>> {
    let mut ts: Vec<Target> = pt.public_inputs.clone();
    for cap in [&pt.proof.wires_cap, &pt.proof.plonk_zs_partial_products_cap, &pt.proof.quotient_polys_cap] {
        for h in &cap.0 {
            ts.extend_from_slice(&h.elements);
        }
    }
    ts.push(pt.proof.opening_proof.pow_witness);
    ts.iter().map(|t| pw.try_get_target(*t).map(|f| f.0)).collect()
}
fn proof_signature(p: &Proof) -> Vec<u64> {
    let mut v: Vec<u64> = p.public_inputs.iter().map(|f| f.0).collect();
    for cap in [&p.proof.wires_cap, &p.proof.plonk_zs_partial_products_cap, &p.proof.quotient_polys_cap] {
        for h in &cap.0 {
            v.extend(h.elements.iter().map(|f| f.0));
        }
    }
    v.push(p.proof.opening_proof.pow_witness.0);
    v
}
/// label of a committed slot: j+1 for the j-th supplied proof, 0 for the template, -7 unknown / unassigned
fn label(sig: &Option<Vec<u64>>, reals: &[Vec<u64>], template: &[u64]) -> i128 {
    match sig {
        None => -7,
        Some(s) => {
            if let Some(j) = reals.iter().position(|r| r == s) {
                (j + 1) as i128
            } else if s.as_slice() == template {
                0
            } else {
                -7
            }
        }
    }
}

fn perm_rank(labels: &[i128]) -> usize {
    // Lehmer rank of a permutation of 1..=n
    let n = labels.len();
    let mut rank = 0usize;
    for i in 0..n {
        let smaller = labels[i + 1..].iter().filter(|&&x| x < labels[i]).count();
        rank = rank * (n - i) + smaller;
    }
    rank
}
fn factorial(n: usize) -> usize {
    (1..=n).product::<usize>().max(1)
}
fn chi2(counts: &[u64]) -> (f64, usize) {
    let total: u64 = counts.iter().sum();
    let e = total as f64 / counts.len() as f64;
    let x: f64 = counts.iter().map(|&c| (c as f64 - e) * (c as f64 - e) / e).sum();
    (x, counts.len() - 1)
}

fn leaf_pis(j: usize) -> [F; 21] {
    let mut pis = [F::ZERO; 21];
    pis[1] = F::from_canonical_u64(10 + j as u64); // output_amount_1
    pis[3] = F::from_canonical_u64(10); // volume_fee_bps
    pis[4] = F::from_canonical_u64(1 + j as u64); // nullifier (pairwise distinct)
    pis[5] = F::from_canonical_u64(7);
    pis[8] = F::from_canonical_u64(100 + j as u64); // exit account 1
    pis[16] = F::from_canonical_u64(1); // block hash (non-dummy, shared)
    pis[20] = F::from_canonical_u64(5); // block number
    pis
}

struct LeafStack {
    leaf: CircuitData<F, C, D>,
    dummy: Proof,
    reals: Vec<Proof>,
}

fn leaf_stack(max_real: usize) -> LeafStack {
    let (leaf, targets) = build_fake_leaf_circuit();
    let dummy = prove_fake_leaf(&leaf, &targets, [F::ZERO; 21]);
    let reals = (0..max_real).map(|j| prove_fake_leaf(&leaf, &targets, leaf_pis(j))).collect();
    LeafStack { leaf, dummy, reals }
}

/// all commits of one batch size over ONE circuit build. plan = (k, number of commits)
fn private_commits(st: &LeafStack, n: usize, plan: &[(usize, usize)], sanity_hist: bool) {
    let out = &mut LineOut::new();
    let t0 = Instant::now();
    let cfg = wormhole_private_batch_circuit_config();
    let targets = PrivateBatchCircuit::new(cfg.clone(), &st.leaf.common, &st.leaf.verifier_only, n)
        .expect("private batch circuit")
        .targets();
    let mut prover = PrivateBatchProver::new(cfg, st.leaf.common.clone(), &st.leaf.verifier_only, n, st.dummy.clone())
        .expect("private batch prover");
    let build_s = t0.elapsed().as_secs_f64();
    let template_sig = proof_signature(&st.dummy);
    let real_sigs: Vec<Vec<u64>> = st.reals.iter().map(proof_signature).collect();
    let t1 = Instant::now();
    let mut commits = 0usize;
    for &(k, reps) in plan {
        let mut hist = vec![0u64; if k == n { factorial(n) } else { n }];
        let mut prev_pre: Option<Vec<i128>> = None;
        for _ in 0..reps {
            let supplied: Vec<Proof> = st.reals[..k].to_vec();
            let committed = match no_panic(|| prover.verif_c15_recycle(targets.clone()).commit(supplied)) {
                Some(Ok(p)) => p,
                other => {
                    // a commit that must succeed failed (or panicked): report and stop this size (the prover is consumed)
                    let o = if other.is_none() { PANIC.to_vec() } else { vec![0] };
                    out.case(1504, &format!("private n{} k{}", n, k), &[vec![k as i128, n as i128], vec![], vec![]], &o);
                    out.note("c15_private_build", &format!("n={} aborted after {} commits", n, commits));
                    return;
                }
            };
            commits += 1;
            let pw = committed.verif_partial_witness();
            let labels: Vec<i128> =
                targets.leaf_proofs.iter().map(|pt| label(&slot_signature(pw, pt), &real_sigs[..k], &template_sig)).collect();
            let mut pre: Vec<i128> = vec![];
            for slot in &targets.dummy_nullifier_pre_images {
                for t in slot {
                    pre.push(pw.try_get_target(*t).map(|f| f.0 as i128).unwrap_or(-7));
                }
            }
            out.case(1504, &format!("private n{} k{}", n, k), &[vec![k as i128, n as i128], labels.clone(), pre.clone()], &[1]);
            if let Some(pp) = prev_pre.take() {
                out.case(1505, &format!("fresh n{}", n), &[pp, pre.clone()], &[1]);
            }
            prev_pre = Some(pre);
            if labels.iter().all(|&l| l >= 0) {
                if k == n {
                    hist[perm_rank(&labels)] += 1;
                } else if k == 1 {
                    hist[labels.iter().position(|&l| l == 1).unwrap_or(0)] += 1;
                }
            }
            prover = committed;
        }
        if k == n && (2..=4).contains(&n) {
            let (x, df) = chi2(&hist);
            out.note(
                "c15_chi2_orders",
                &format!("n={} k={} commits={} chi2={:.2} df={} (reported only) min_count={} counts={:?}", n, k, reps, x, df, hist.iter().min().unwrap(), hist),
            );
            if sanity_hist {
                out.case(1508, &format!("histogram n{}", n), &[vec![n as i128, reps as i128], hist.iter().map(|&c| c as i128).collect()], &[1]);
            }
        } else if k == 1 && n >= 2 {
            let (x, df) = chi2(&hist);
            out.note(
                "c15_chi2_position_of_single_real",
                &format!("n={} commits={} chi2={:.2} df={} (reported only) counts={:?}", n, reps, x, df, hist),
            );
        }
    }
    out.note("c15_private_build", &format!("n={} build_s={:.2} commits={} commit_s={:.2}", n, build_s, commits, t1.elapsed().as_secs_f64()));
}

/// the two count checks: an empty batch and an oversized batch are rejected (each consumes a prover)
fn private_rejections(st: &LeafStack, thorough: bool) {
    let out = &mut LineOut::new();
    let cfg = wormhole_private_batch_circuit_config();
    let all = [(1usize, 0usize), (1, 2), (2, 0), (2, 3)];
    for &(n, k) in if thorough { &all[..] } else { &all[..2] } {
        let prover = PrivateBatchProver::new(cfg.clone(), st.leaf.common.clone(), &st.leaf.verifier_only, n, st.dummy.clone())
            .expect("private batch prover");
        let supplied: Vec<Proof> = st.reals[..k].to_vec();
        let o = match no_panic(|| prover.commit(supplied)) {
            None => PANIC.to_vec(),
            Some(Err(_)) => vec![0],
            Some(Ok(_)) => vec![1],
        };
        out.case(1504, &format!("private reject n{} k{}", n, k), &[vec![k as i128, n as i128], vec![], vec![]], &o);
    }
}

// ------------------------------------------------------------------------------------------- public batch

fn public_commits(st: &LeafStack, m: usize) {
    let out = &mut LineOut::new();
    let t0 = Instant::now();
    let pcfg = wormhole_private_batch_circuit_config();
    // the private-batch circuit (1 leaf) and its all-dummy proof = the padding template of the public batch
    let (pb, template) = {
        let circuit = PrivateBatchCircuit::new(pcfg.clone(), &st.leaf.common, &st.leaf.verifier_only, 1).expect("pb circuit");
        let targets = circuit.targets();
        let data = circuit.build_circuit();
        let mut pw = PartialWitness::<F>::new();
        pw.set_proof_with_pis_target(&targets.leaf_proofs[0], &st.dummy).expect("set leaf proof");
        for (i, t) in targets.dummy_nullifier_pre_images[0].iter().enumerate() {
            pw.set_target(*t, F::from_canonical_u64(0x1234_5678 + i as u64)).expect("set preimage");
        }
        let proof = data.prove(pw).expect("all-dummy private batch proof");
        (data, proof)
    };
    // real inner proofs through the real private prover
    let reals: Vec<Proof> = (0..m)
        .map(|j| {
            PrivateBatchProver::new(pcfg.clone(), st.leaf.common.clone(), &st.leaf.verifier_only, 1, st.dummy.clone())
                .expect("private prover")
                .commit(vec![st.reals[j].clone()])
                .expect("private commit")
                .prove()
                .expect("private prove")
        })
        .collect();
    let cfg = wormhole_public_batch_circuit_config();
    let targets = PublicBatchCircuit::new(cfg.clone(), pb.common.clone(), &pb.verifier_only, m, 1).expect("public circuit").targets();
    let mk = || PublicBatchProver::new(cfg.clone(), pb.common.clone(), &pb.verifier_only, m, 1, template.clone()).expect("public prover");
    let mut prover = mk();
    let build_s = t0.elapsed().as_secs_f64();
    let template_sig = proof_signature(&template);
    let real_sigs: Vec<Vec<u64>> = reals.iter().map(proof_signature).collect();
    let mut commits = 0;
    for k in 1..=m {
        for rep in 0..2 {
            let supplied: Vec<Proof> = reals[..k].to_vec();
            let inputs = PublicBatchInputs { proofs: supplied, aggregator_address: BytesDigest::default() };
            let committed = match no_panic(|| prover.verif_c15_recycle(targets.clone()).commit(inputs)) {
                Some(Ok(p)) => p,
                other => {
                    let o = if other.is_none() { PANIC.to_vec() } else { vec![0] };
                    out.case(1506, &format!("public m{} k{}", m, k), &[vec![k as i128, m as i128], vec![]], &o);
                    return;
                }
            };
            commits += 1;
            let pw = committed.verif_partial_witness();
            let labels: Vec<i128> =
                targets.private_batch_proofs.iter().map(|pt| label(&slot_signature(pw, pt), &real_sigs[..k], &template_sig)).collect();
            out.case(1506, &format!("public m{} k{} rep{}", m, k, rep), &[vec![k as i128, m as i128], labels], &[1]);
            prover = committed;
        }
    }
    // count checks
    for k in [0usize, m + 1] {
        let mut supplied: Vec<Proof> = reals[..k.min(m)].to_vec();
        if k > m {
            supplied.push(reals[0].clone());
        }
        let inputs = PublicBatchInputs { proofs: supplied, aggregator_address: BytesDigest::default() };
        let o = match no_panic(|| prover.verif_c15_recycle(targets.clone()).commit(inputs)) {
            None => PANIC.to_vec(),
            Some(Err(_)) => vec![0],
            Some(Ok(_)) => vec![1],
        };
        out.case(1506, &format!("public reject m{} k{}", m, k), &[vec![k as i128, m as i128], vec![]], &o);
        prover = mk();
    }
    out.note("c15_public_build", &format!("m={} leaves=1 setup_s={:.2} commits={} total_s={:.2}", m, build_s, commits, t0.elapsed().as_secs_f64()));
}

fn main() {
    quiet_panics();
    let thorough = tier_is_thorough();
    let mut r = Rng::new(seed_from_env());
    let mut out = Out::new();
    let only: Option<String> = std::env::args().nth(1);
    let want = |s: &str| only.as_deref().map(|o| o == s).unwrap_or(true);

    if want("shuffle") {
        shuffle_cases(&mut out, &mut r, thorough);
    }
    if want("candidates") {
        candidate_cases(&mut out, &mut r, thorough);
    }
    out.flush();
    if want("private") || want("public") {
        let st = &leaf_stack(8);
        let s = if thorough { 5 } else { 1 };
        // one circuit build per batch size; the sizes run side by side
        std::thread::scope(|sc| {
            if want("public") {
                // quick: 2 slots (pad-after and order both observable); thorough: 3
                sc.spawn(move || public_commits(st, if thorough { 3 } else { 2 }));
            }
            if want("private") {
                sc.spawn(move || private_rejections(st, thorough));
                sc.spawn(move || private_commits(st, 1, &[(1, 20 * s)], false));
                sc.spawn(move || private_commits(st, 2, &[(1, 100 * s), (2, 200 * s)], true));
                sc.spawn(move || private_commits(st, 3, &[(1, 100 * s), (2, 100 * s), (3, 600 * s)], true));
                // n = 4: 24 orders; "every order observed" is only decided on in the thorough tier
                sc.spawn(move || {
                    private_commits(st, 4, &[(1, 60 * s), (2, 60 * s), (3, 60 * s), (4, 400 * if thorough { 10 } else { 1 })], thorough)
                });
                if thorough {
                    sc.spawn(move || private_commits(st, 5, &[(2, 20 * s), (5, 20 * s)], false));
                }
                sc.spawn(move || private_commits(st, 8, &[(1, 40 * s), (3, 20 * s), (8, 20 * s)], false));
            }
        });
    }
    out.flush();
}
