//! Shared pieces of the /verif correspondence harness.
//!
//! Every binary under src/bin prints *cases*, one per line, in the format
//!
//!   <fid> \t <tag> \t <seg>;<seg>;... \t <out>
//!
//! where a segment is a space-separated list of hexadecimal integers (optionally `-` prefixed) and
//! `out` is the canonical encoding of what the *implementation* returned on that input. The Coq model
//! (extracted, /verif/model) evaluates `dispatch fid segs` and must print the same `out`.
#![allow(clippy::all)]

use std::fmt::Write as _;
use std::io::Write as _;

pub mod batchgen;
pub mod leafgen;
pub mod plonk;

pub const P: u64 = 0xFFFF_FFFF_0000_0001;

/// splitmix64: every random choice of a run derives from one u64 state (VERIF_SEED).
#[derive(Clone)]
pub struct Rng(pub u64);
impl Rng {
    pub fn new(seed: u64) -> Self {
        Rng(seed ^ 0x9E37_79B9_7F4A_7C15)
    }
    pub fn next(&mut self) -> u64 {
        self.0 = self.0.wrapping_add(0x9E37_79B9_7F4A_7C15);
        let mut z = self.0;
        z = (z ^ (z >> 30)).wrapping_mul(0xBF58_476D_1CE4_E5B9);
        z = (z ^ (z >> 27)).wrapping_mul(0x94D0_49BB_1331_11EB);
        z ^ (z >> 31)
    }
    pub fn below(&mut self, n: u64) -> u64 {
        if n == 0 {
            0
        } else {
            self.next() % n
        }
    }
    pub fn chance(&mut self, num: u64, den: u64) -> bool {
        self.below(den) < num
    }
    pub fn pick<'a, T>(&mut self, xs: &'a [T]) -> &'a T {
        &xs[self.below(xs.len() as u64) as usize]
    }
    /// A u64 biased towards interesting boundaries.
    pub fn edge_u64(&mut self) -> u64 {
        const E: [u64; 18] = [
            0,
            1,
            2,
            3,
            0xFFFF_FFFE,
            0xFFFF_FFFF,
            0x1_0000_0000,
            0x1_0000_0001,
            0x7FFF_FFFF,
            0x8000_0000,
            P - 2,
            P - 1,
            P,
            P + 1,
            u64::MAX - 1,
            u64::MAX,
            10000,
            10001,
        ];
        match self.below(4) {
            0 => *self.pick(&E),
            1 => self.below(1 << 32),
            2 => self.below(16),
            _ => self.next(),
        }
    }
    /// canonical field element, biased to boundaries
    pub fn edge_felt(&mut self) -> u64 {
        self.edge_u64() % P
    }
    pub fn fork(&mut self) -> Rng {
        Rng(self.next())
    }
}

pub fn seed_from_env() -> u64 {
    std::env::var("VERIF_SEED")
        .ok()
        .and_then(|s| s.parse::<u64>().ok())
        .unwrap_or(1)
}

pub fn tier_is_thorough() -> bool {
    std::env::var("VERIF_TIER").map(|t| t == "thorough").unwrap_or(false)
}

/// segment = list of integers
pub type Seg = Vec<i128>;

pub fn seg_u64(xs: &[u64]) -> Seg {
    xs.iter().map(|&x| x as i128).collect()
}
pub fn seg_usize(xs: &[usize]) -> Seg {
    xs.iter().map(|&x| x as i128).collect()
}
pub fn seg_bytes(xs: &[u8]) -> Seg {
    xs.iter().map(|&x| x as i128).collect()
}

fn fmt_seg(s: &mut String, seg: &[i128]) {
    for (i, v) in seg.iter().enumerate() {
        if i > 0 {
            s.push(' ');
        }
        if *v < 0 {
            let _ = write!(s, "-{:x}", -*v);
        } else {
            let _ = write!(s, "{:x}", *v);
        }
    }
}

pub struct Out {
    w: std::io::BufWriter<std::io::Stdout>,
    pub n: usize,
}
impl Out {
    pub fn new() -> Self {
        Out { w: std::io::BufWriter::with_capacity(1 << 20, std::io::stdout()), n: 0 }
    }
    pub fn case(&mut self, fid: u32, tag: &str, segs: &[Seg], out: &[i128]) {
        let mut s = String::new();
        let _ = write!(s, "{}\t{}\t", fid, tag);
        for (i, seg) in segs.iter().enumerate() {
            if i > 0 {
                s.push(';');
            }
            fmt_seg(&mut s, seg);
        }
        s.push('\t');
        fmt_seg(&mut s, out);
        s.push('\n');
        self.w.write_all(s.as_bytes()).unwrap();
        self.n += 1;
    }
    /// free-form line for the orchestrator (`#key value`)
    pub fn note(&mut self, key: &str, val: &str) {
        let _ = writeln!(self.w, "#{}\t{}", key, val);
    }
    pub fn flush(&mut self) {
        self.w.flush().unwrap();
    }
}
impl Drop for Out {
    fn drop(&mut self) {
        let _ = self.w.flush();
    }
}

/// Run `f`, mapping a panic to `None` (result class `Panic`, encoded as `[-1]` by callers).
pub fn no_panic<T>(f: impl FnOnce() -> T) -> Option<T> {
    std::panic::catch_unwind(std::panic::AssertUnwindSafe(f)).ok()
}

pub fn quiet_panics() {
    if std::env::var("VERIF_LOUD").is_err() {
        std::panic::set_hook(Box::new(|_| {}));
    }
}

pub const PANIC: [i128; 1] = [-1];

/// 32 digest bytes -> four little-endian u64 limbs
pub fn digest_limbs(b: &[u8; 32]) -> [u64; 4] {
    let mut o = [0u64; 4];
    for i in 0..4 {
        o[i] = u64::from_le_bytes(b[i * 8..i * 8 + 8].try_into().unwrap());
    }
    o
}
pub fn limbs_digest(l: &[u64; 4]) -> [u8; 32] {
    let mut b = [0u8; 32];
    for i in 0..4 {
        b[i * 8..i * 8 + 8].copy_from_slice(&l[i].to_le_bytes());
    }
    b
}
