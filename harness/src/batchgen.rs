//! Generator of leaf-statement batches shared by `wrappers` (wrapper constraints over free child public
//! inputs) and `recursive` (the full circuits over really proved children). Moved verbatim out of
//! bin/wrappers.rs: for a given Rng state the sequence of draws, hence every generated batch, is unchanged.
use crate::{Rng, P};

pub type Leaf = [u64; 21];

pub struct Universe {
    pub accounts: Vec<[u64; 4]>,
    pub nullifiers: Vec<[u64; 4]>,
    pub blocks: Vec<([u64; 4], u64)>,
}
pub fn universe(r: &mut Rng) -> Universe {
    let d = |r: &mut Rng| -> [u64; 4] { core::array::from_fn(|_| r.next() % P) };
    let a = d(r);
    // algebraically related digests: limb permutations, equal limb sums / products, limbs summing to 0 mod p, a single
    // differing limb - anything a "cheaper" equality or zero test (sum, product, first limb ...) would confuse
    let a_perm = [a[3], a[2], a[1], a[0]];
    let a_one = [a[0], a[1], a[2], (a[3] + 1) % P];
    Universe {
        accounts: vec![[0; 4], a, d(r), [1, 0, 0, 0], [0, 0, 0, 1], a_perm, a_one, [1, P - 1, 0, 0], [2, 3, 0, 0], [3, 2, 0, 0]],
        nullifiers: vec![d(r), d(r), a, a_perm, a_one, [1, P - 1, 0, 0], [0, 0, P - 1, 1], d(r)],
        blocks: vec![(d(r), r.below(1 << 32)), (d(r), r.below(1 << 32)), ([0, 0, 0, 7], 3), ([1, P - 1, 0, 0], 9), ([P - 1, 0, 1, 0], 9), ([0, 5, 0, 0], 11)],
    }
}
pub fn amount(r: &mut Rng) -> u64 {
    match r.below(8) {
        0 => 0,
        1 => 1,
        2 => 1 << 31,
        3 => (1 << 32) - 1,
        4 => (1 << 31) - 1,
        5 => r.below(1 << 20),
        _ => r.below(1 << 32),
    }
}
/// a batch of leaf statements: mostly compatible, with occasional conflicts
pub fn gen_leaves(r: &mut Rng, n: usize, u: &Universe) -> (Vec<Leaf>, String) {
    let conflict = r.below(12);
    let asset = if r.chance(1, 4) { r.below(5) } else { 0 };
    let fee = *r.pick(&[0u64, 10, 10000]);
    let blk = r.below(u.blocks.len() as u64) as usize;
    let other_blk = (blk + 1 + r.below(u.blocks.len() as u64 - 1) as usize) % u.blocks.len();
    let mut tag = String::from("compatible");
    let mut leaves: Vec<Leaf> = vec![];
    let few_accounts = r.chance(2, 3);
    for i in 0..n {
        let dummy = r.chance(1, 3);
        let mut l: Leaf = [0; 21];
        l[0] = asset;
        l[1] = amount(r);
        l[2] = if r.chance(1, 2) { 0 } else { amount(r) };
        l[3] = fee;
        let nl = if r.chance(1, 6) { *r.pick(&u.nullifiers) } else { core::array::from_fn(|_| r.next() % P) };
        l[4..8].copy_from_slice(&nl);
        let a1 = if few_accounts { u.accounts[r.below(3) as usize] } else { *r.pick(&u.accounts) };
        let a2 = if few_accounts { u.accounts[r.below(3) as usize] } else { *r.pick(&u.accounts) };
        l[8..12].copy_from_slice(&a1);
        l[12..16].copy_from_slice(&a2);
        if dummy {
            // dummy slot: zero block hash; everything else may be garbage (the wrapper must ignore it)
            if r.chance(1, 2) {
                l[1] = 0;
                l[2] = 0;
            }
            if r.chance(1, 3) {
                l[3] = r.below(20000);
            }
            l[20] = r.below(1 << 32);
        } else {
            l[16..20].copy_from_slice(&u.blocks[blk].0);
            l[20] = u.blocks[blk].1;
        }
        let _ = i;
        leaves.push(l);
    }
    match conflict {
        0 => {
            let i = r.below(n as u64) as usize;
            leaves[i][0] = asset + 1;
            tag = "asset-mismatch".into();
        }
        1 => {
            let i = r.below(n as u64) as usize;
            leaves[i][3] = fee + 1;
            tag = "fee-mismatch(maybe dummy)".into();
        }
        2 => {
            let i = r.below(n as u64) as usize;
            leaves[i][16..20].copy_from_slice(&u.blocks[other_blk].0);
            tag = "block-mismatch".into();
        }
        3 => {
            if n >= 2 {
                let i = r.below(n as u64) as usize;
                let j = (i + 1 + r.below(n as u64 - 1) as usize) % n;
                let c: [u64; 4] = leaves[i][4..8].try_into().unwrap();
                leaves[j][4..8].copy_from_slice(&c);
                tag = "duplicate-nullifier(real or dummy)".into();
            }
        }
        4 => {
            // grouped sum near / over 2^32: everybody pays the same account
            let acc = u.accounts[1];
            for l in leaves.iter_mut() {
                l[8..12].copy_from_slice(&acc);
                l[12..16].copy_from_slice(&acc);
                l[1] = *r.pick(&[1u64 << 31, (1 << 32) - 1, 1 << 30, 1 << 29]);
                l[2] = *r.pick(&[0u64, 1, 1 << 31, 1 << 30]);
            }
            tag = "sum-near-2^32".into();
        }
        5 => {
            // values outside the leaf-accepted domain (the model must still agree)
            let i = r.below(n as u64) as usize;
            leaves[i][1 + r.below(2) as usize] = *r.pick(&[1u64 << 32, P - 1, P - (1 << 32), 1 << 40]);
            tag = "amount-not-u32".into();
        }
        6 => {
            for l in leaves.iter_mut() {
                l[16..20].copy_from_slice(&[0; 4]);
            }
            tag = "all-dummy".into();
        }
        7 => {
            for l in leaves.iter_mut() {
                l[16..20].copy_from_slice(&u.blocks[blk].0);
                l[20] = u.blocks[blk].1;
                l[3] = fee;
            }
            tag = "all-real".into();
        }
        8 | 9 => {
            // real slots share the block HASH but carry different block NUMBERS (the wrapper does not compare numbers; over
            // free child public inputs this is reachable): the header must show the FIRST real slot's number
            for (q, l) in leaves.iter_mut().enumerate() {
                if l[16..20] != [0u64; 4] {
                    l[20] = 1000 + q as u64;
                }
            }
            tag = "real-slots-with-different-block-numbers(not checked)".into();
        }
        _ => {}
    }
    (leaves, tag)
}
