//! Honest leaf statements at the field-element level (shared by the leaf-circuit and leaf-prover harnesses).
use crate::plonk::*;
use crate::*;
use plonky2::field::types::PrimeField64;
use plonky2::hash::poseidon2::Poseidon2Hash;
use plonky2::iop::target::Target;
use plonky2::iop::witness::PartialWitness;
use plonky2::plonk::config::Hasher;
use wormhole_circuit::circuit::circuit_logic::CircuitTargets;
use zk_circuits_common::utils::string_to_felts;

pub const MAX_DEPTH: usize = 16;

pub fn h(l: &[u64]) -> [u64; 4] {
    let felts: Vec<F> = l.iter().map(|&x| f(x)).collect();
    let e = Poseidon2Hash::hash_no_pad(&felts).elements;
    [e[0].to_canonical_u64(), e[1].to_canonical_u64(), e[2].to_canonical_u64(), e[3].to_canonical_u64()]
}

#[derive(Clone, Debug)]
pub struct LeafAssign {
    pub asset: u64,
    pub out1: u64,
    pub out2: u64,
    pub fee: u64,
    pub input_amount: u64,
    pub depth: u64,
    /// None = not assigned (the copy constraint to the derived flag determines it)
    pub is_not_dummy: Option<u64>,
    pub block_number: u64,
    pub to_account: [u64; 4],
    pub leaf_tc: [u64; 2],
    pub root_hash: [u64; 4],
    pub positions: [u64; MAX_DEPTH],
    pub nullifier: [u64; 4],
    pub null_secret: [u64; 4],
    pub null_tc: [u64; 2],
    pub unsp_account: [u64; 4],
    pub unsp_secret: [u64; 4],
    pub exit1: [u64; 4],
    pub exit2: [u64; 4],
    pub block_hash: [u64; 4],
    pub parent_hash: [u64; 4],
    pub state_root: [u64; 4],
    pub extrinsics_root: [u64; 4],
    pub tree_root: [u64; 4],
    pub digest: [u64; 28],
    pub siblings: [[[u64; 4]; 3]; MAX_DEPTH],
}

pub fn salt(s: &str) -> Vec<u64> {
    string_to_felts(s).unwrap().iter().map(|x| x.to_canonical_u64()).collect()
}

pub fn rand_digest(r: &mut Rng) -> [u64; 4] {
    core::array::from_fn(|_| r.next() % P)
}

impl LeafAssign {
    pub fn nullifier_of(secret: &[u64; 4], tc: &[u64; 2]) -> [u64; 4] {
        let mut pre = salt(wormhole_circuit::nullifier::NULLIFIER_SALT);
        pre.extend_from_slice(secret);
        pre.extend_from_slice(tc);
        h(&h(&pre))
    }
    pub fn account_of(secret: &[u64; 4]) -> [u64; 4] {
        let mut pre = salt(wormhole_circuit::unspendable_account::UNSPENDABLE_SALT);
        pre.extend_from_slice(secret);
        h(&h(&pre))
    }
    pub fn leaf_hash(&self) -> [u64; 4] {
        let mut pre: Vec<u64> = self.to_account.to_vec();
        pre.extend_from_slice(&self.leaf_tc);
        pre.push(self.asset);
        pre.push(self.input_amount);
        h(&pre)
    }
    /// fold the first `depth` levels natively (positions must be 0..3)
    pub fn fold_root(&self, depth: usize) -> [u64; 4] {
        let mut cur = self.leaf_hash();
        for l in 0..depth {
            let p = (self.positions[l] % 4) as usize;
            let mut ch: Vec<[u64; 4]> = self.siblings[l].to_vec();
            ch.insert(p, cur);
            let flat: Vec<u64> = ch.iter().flat_map(|d| d.iter().copied()).collect();
            cur = h(&flat);
        }
        cur
    }
    pub fn header_preimage(&self) -> Vec<u64> {
        let mut v = self.parent_hash.to_vec();
        v.push(self.block_number);
        v.extend_from_slice(&self.state_root);
        v.extend_from_slice(&self.extrinsics_root);
        v.extend_from_slice(&self.tree_root);
        v.extend_from_slice(&self.digest);
        v
    }
    /// recompute everything derived (account, nullifier, roots, block hash) from the free fields
    pub fn rederive(&mut self) {
        self.unsp_account = Self::account_of(&self.unsp_secret);
        self.to_account = self.unsp_account;
        self.null_secret = self.unsp_secret;
        self.null_tc = self.leaf_tc;
        self.nullifier = Self::nullifier_of(&self.null_secret, &self.null_tc);
        let root = self.fold_root(self.depth.min(MAX_DEPTH as u64) as usize);
        self.root_hash = root;
        self.tree_root = root;
        self.block_hash = h(&self.header_preimage());
    }
    pub fn honest(r: &mut Rng, depth: usize) -> Self {
        let fee = match r.below(4) {
            0 => 0,
            1 => 10000,
            2 => 10,
            _ => r.below(10001),
        };
        let input_amount = match r.below(4) {
            0 => (1u64 << 32) - 1,
            1 => r.below(1000),
            _ => r.below(1 << 32),
        };
        let max_total = (input_amount as u128 * (10000 - fee) as u128 / 10000) as u64;
        let total = match r.below(3) {
            0 => max_total,
            1 => 0,
            _ => r.below(max_total + 1),
        };
        let out1 = r.below(total + 1);
        let out2 = total - out1;
        let tc = r.next();
        let mut a = LeafAssign {
            asset: if r.chance(1, 2) { 0 } else { r.below(1 << 32) },
            out1,
            out2,
            fee,
            input_amount,
            depth: depth as u64,
            is_not_dummy: None,
            block_number: r.below(1 << 32),
            to_account: [0; 4],
            leaf_tc: [tc >> 32, tc & 0xFFFF_FFFF],
            root_hash: [0; 4],
            positions: [0; MAX_DEPTH],
            nullifier: [0; 4],
            null_secret: [0; 4],
            null_tc: [0; 2],
            unsp_account: [0; 4],
            unsp_secret: rand_digest(r),
            exit1: rand_digest(r),
            exit2: if r.chance(1, 2) { [0; 4] } else { rand_digest(r) },
            block_hash: [0; 4],
            parent_hash: rand_digest(r),
            state_root: rand_digest(r),
            extrinsics_root: rand_digest(r),
            tree_root: [0; 4],
            digest: core::array::from_fn(|_| r.below(1 << 32)),
            siblings: [[[0; 4]; 3]; MAX_DEPTH],
        };
        for l in 0..depth {
            a.positions[l] = r.below(4);
            for s in 0..3 {
                a.siblings[l][s] = rand_digest(r);
            }
        }
        a.rederive();
        a
    }
    pub fn segs(&self) -> Vec<Seg> {
        let ind: i128 = match self.is_not_dummy {
            None => -1,
            Some(v) => v as i128,
        };
        let mut s: Vec<Seg> = vec![
            vec![self.asset as i128, self.out1 as i128, self.out2 as i128, self.fee as i128, self.input_amount as i128, self.depth as i128, ind, self.block_number as i128],
            seg_u64(&self.to_account),
            seg_u64(&self.leaf_tc),
            seg_u64(&self.root_hash),
            seg_u64(&self.positions),
            seg_u64(&self.nullifier),
            seg_u64(&self.null_secret),
            seg_u64(&self.null_tc),
            seg_u64(&self.unsp_account),
            seg_u64(&self.unsp_secret),
            seg_u64(&self.exit1),
            seg_u64(&self.exit2),
            seg_u64(&self.block_hash),
            seg_u64(&self.parent_hash),
            seg_u64(&self.state_root),
            seg_u64(&self.extrinsics_root),
            seg_u64(&self.tree_root),
            seg_u64(&self.digest),
        ];
        for l in 0..MAX_DEPTH {
            for k in 0..3 {
                s.push(seg_u64(&self.siblings[l][k]));
            }
        }
        s
    }
    pub fn to_pw(&self, t: &CircuitTargets) -> PartialWitness<F> {
        let mut pw = PartialWitness::new();
        let z = &t.zk_merkle_proof;
        pw_set(&mut pw, z.leaf.asset_id, self.asset);
        pw_set(&mut pw, z.leaf.output_amount_1, self.out1);
        pw_set(&mut pw, z.leaf.output_amount_2, self.out2);
        pw_set(&mut pw, z.leaf.volume_fee_bps, self.fee);
        pw_set(&mut pw, z.leaf.input_amount, self.input_amount);
        set_arr(&mut pw, &z.leaf.to_account.elements, &self.to_account);
        set_arr(&mut pw, &z.leaf.transfer_count, &self.leaf_tc);
        set_arr(&mut pw, &z.root_hash.elements, &self.root_hash);
        pw_set(&mut pw, z.depth, self.depth);
        if let Some(v) = self.is_not_dummy {
            pw_set(&mut pw, z.is_not_dummy.target, v);
        }
        for l in 0..MAX_DEPTH {
            pw_set(&mut pw, z.positions[l], self.positions[l]);
            for k in 0..3 {
                set_arr(&mut pw, &z.siblings[l][k].elements, &self.siblings[l][k]);
            }
        }
        set_arr(&mut pw, &t.nullifier.hash.elements, &self.nullifier);
        set_arr(&mut pw, &t.nullifier.secret.elements, &self.null_secret);
        set_arr(&mut pw, &t.nullifier.transfer_count, &self.null_tc);
        set_arr(&mut pw, &t.unspendable_account.account_id.elements, &self.unsp_account);
        set_arr(&mut pw, &t.unspendable_account.secret.elements, &self.unsp_secret);
        set_arr(&mut pw, &t.exit_accounts.exit_account_1.address.elements, &self.exit1);
        set_arr(&mut pw, &t.exit_accounts.exit_account_2.address.elements, &self.exit2);
        let b = &t.block_header;
        set_arr(&mut pw, &b.block_hash.elements, &self.block_hash);
        set_arr(&mut pw, &b.header.parent_hash, &self.parent_hash);
        pw_set(&mut pw, b.header.block_number, self.block_number);
        set_arr(&mut pw, &b.header.state_root, &self.state_root);
        set_arr(&mut pw, &b.header.extrinsics_root, &self.extrinsics_root);
        set_arr(&mut pw, &b.header.zk_tree_root, &self.tree_root);
        set_arr(&mut pw, &b.header.digest, &self.digest);
        pw
    }
}
pub fn set_arr(pw: &mut PartialWitness<F>, ts: &[Target], vs: &[u64]) {
    assert_eq!(ts.len(), vs.len());
    for (t, v) in ts.iter().zip(vs) {
        pw_set(pw, *t, *v);
    }
}

