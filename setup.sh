#!/bin/bash
# Build the whole framework from files on disk (offline). Run once after a fresh restore; every check
# afterwards only rebuilds incrementally what /repo's working tree changed.
set -e
cd "$(dirname "$0")"
export CARGO_NET_OFFLINE=true
python3 - <<'PY'
import sys, os, glob
sys.path.insert(0, os.getcwd())
from lib import vlib
t = vlib.build_harness()
print("harness built in %.0fs" % t)
vlib.gen_constants()
ok, out = vlib.coq_make([])
print(out[-3000:])
if not ok:
    sys.exit("coq build failed")
for d in sorted(glob.glob(os.path.join(vlib.MODEL, "gen", "*"))):
    if os.path.exists(os.path.join(d, "model.ml")):
        print("model:", vlib.build_model(os.path.basename(d)))
bad = vlib.grep_forbidden()
if bad:
    sys.exit("forbidden constructs: %s" % bad)
PY
