/-
  Evaluates the *executable definitions* of the repository's Lean spec (WormholeSpec.Aggregation) on
  explored private-batch inputs, for /verif's C34 check.  stdin: one case per line,
      n  <21*n leaf public-input felts>  <4*n nullifiers of the circuit's output region>
  stdout: one line per case:
      slots <5*2n felts of groupExits (maskedChildPairs leaves)> | ref <bh(4) bn asset fee or "none"> | sorted <0/1>
-/
import WormholeSpec
open WormholeSpec

def mkDigest (l : List Nat) : Digest :=
  match l with
  | [a, b, c, d] => ⟨a, b, c, d⟩
  | _ => Digest.zero

def mkLeaf (l : List Nat) : LeafPublic :=
  { assetId := l.getD 0 0, outputAmount1 := l.getD 1 0, outputAmount2 := l.getD 2 0, volumeFeeBps := l.getD 3 0,
    nullifier := mkDigest ((l.drop 4).take 4), exitAccount1 := mkDigest ((l.drop 8).take 4),
    exitAccount2 := mkDigest ((l.drop 12).take 4), blockHash := mkDigest ((l.drop 16).take 4),
    blockNumber := l.getD 20 0 }

partial def chunks (k : Nat) (l : List Nat) : List (List Nat) :=
  if l.isEmpty then [] else l.take k :: chunks k (l.drop k)

instance (a b : Digest) : Decidable (digestLt a b) := by unfold digestLt; infer_instance
instance (a b : Digest) : Decidable (digestLE a b) := by unfold digestLE; infer_instance

instance (ns : List Digest) : Decidable (nullifiersSorted ns) := by unfold nullifiersSorted; infer_instance
def sortedB (ns : List Digest) : Bool := decide (nullifiersSorted ns)

def showSlots (s : List ExitSlot) : String :=
  " ".intercalate (s.map (fun e => s!"{e.sum} {e.account.x0} {e.account.x1} {e.account.x2} {e.account.x3}"))

partial def loop (h : IO.FS.Stream) (out : IO.FS.Stream) : IO Unit := do
  let line ← h.getLine
  if line.isEmpty then return
  let toks := (line.splitOn " ").filterMap (fun t => (t.replace "\n" "").toNat?)
  match toks with
  | [] => loop h out
  | n :: rest =>
    let leaves := ((chunks 21 (rest.take (21 * n))).map mkLeaf)
    let nulls := (chunks 4 ((rest.drop (21 * n)).take (4 * n))).map mkDigest
    let slots := groupExits (maskedChildPairs leaves)
    let refS := match leaves.find? isRealB with
      | some p => s!"{p.blockHash.x0} {p.blockHash.x1} {p.blockHash.x2} {p.blockHash.x3} {p.blockNumber} {p.assetId} {p.volumeFeeBps}"
      | none => "none"
    let sorted := if sortedB nulls then "1" else "0"
    out.putStrLn s!"slots {showSlots slots} | ref {refS} | sorted {sorted}"
    loop h out

def main : IO Unit := do
  let h ← IO.getStdin
  let out ← IO.getStdout
  loop h out
