(* Driver for an extracted Coq *circuit* model (module Model, exporting
   dispatch_h : (z list -> z list) -> z -> z list list -> z list): the hash oracle H is answered by the
   native Poseidon2 of the Rust `hashd` helper ($VERIF_HASHD), memoised.  stdin: one case per line
     <fid>|<seg>;<seg>;...        (seg = space separated hex integers, optional leading '-')
   stdout: one line per case, the hex integers of the result (or "!exn <msg>"). *)
open Model

let hexval c =
  match c with
  | '0' .. '9' -> Char.code c - 48
  | 'a' .. 'f' -> Char.code c - 87
  | 'A' .. 'F' -> Char.code c - 55
  | _ -> failwith "bad hex digit"

(* positive from a hex string (most significant digit first) *)
let pos_of_hex (s : string) (start : int) : positive option =
  let acc = ref None in
  for i = start to String.length s - 1 do
    let d = hexval s.[i] in
    for b = 3 downto 0 do
      let bit = (d lsr b) land 1 = 1 in
      acc :=
        (match !acc with
        | None -> if bit then Some XH else None
        | Some p -> Some (if bit then XI p else XO p))
    done
  done;
  !acc

let z_of_tok (s : string) : z =
  if s = "" then failwith "empty token"
  else if s.[0] = '-' then (match pos_of_hex s 1 with None -> Z0 | Some p -> Zneg p)
  else match pos_of_hex s 0 with None -> Z0 | Some p -> Zpos p

let hex_of_pos (p : positive) : string =
  (* collect bits little-endian *)
  let bits = ref [] in
  let rec go p = match p with
    | XH -> bits := true :: !bits
    | XO q -> bits := false :: !bits; go q
    | XI q -> bits := true :: !bits; go q in
  (* go pushes LSB first, so after the walk !bits is MSB first *)
  go p;
  let bl = Array.of_list !bits in
  let n = Array.length bl in
  let pad = (4 - (n mod 4)) mod 4 in
  let total = n + pad in
  let buf = Buffer.create (total / 4) in
  let get i = if i < pad then false else bl.(i - pad) in
  let i = ref 0 in
  while !i < total do
    let v = ref 0 in
    for k = 0 to 3 do v := (!v lsl 1) lor (if get (!i + k) then 1 else 0) done;
    Buffer.add_char buf "0123456789abcdef".[!v];
    i := !i + 4
  done;
  Buffer.contents buf

let tok_of_z (x : z) : string =
  match x with Z0 -> "0" | Zpos p -> hex_of_pos p | Zneg p -> "-" ^ hex_of_pos p

let hashd = lazy (
  let exe = try Sys.getenv "VERIF_HASHD" with Not_found -> failwith "VERIF_HASHD not set" in
  Unix.open_process exe)
let memo : (string, z list) Hashtbl.t = Hashtbl.create 4096
let oracle (l : z list) : z list =
  let key = String.concat " " (List.map tok_of_z l) in
  match Hashtbl.find_opt memo key with
  | Some v -> v
  | None ->
    let (ic, oc) = Lazy.force hashd in
    output_string oc key; output_char oc '\n'; flush oc;
    let ans = input_line ic in
    let v = List.map z_of_tok (List.filter (fun t -> t <> "") (String.split_on_char ' ' ans)) in
    Hashtbl.replace memo key v; v

let split_nonempty c s = List.filter (fun t -> t <> "") (String.split_on_char c s)

let () =
  let out = Buffer.create 65536 in
  (try
     while true do
       let line = input_line stdin in
       (match String.index_opt line '|' with
        | None -> Buffer.add_string out "!exn no-bar\n"
        | Some k ->
          (try
             let fid = z_of_tok (Printf.sprintf "%x" (int_of_string (String.trim (String.sub line 0 k)))) in
             let rest = String.sub line (k + 1) (String.length line - k - 1) in
             let segs =
               if String.trim rest = "" then []
               else List.map (fun seg -> List.map z_of_tok (split_nonempty ' ' seg))
                      (String.split_on_char ';' rest) in
             let r = dispatch_h oracle fid segs in
             Buffer.add_string out (String.concat " " (List.map tok_of_z r));
             Buffer.add_char out '\n'
           with e -> Buffer.add_string out ("!exn " ^ Printexc.to_string e ^ "\n")));
       if Buffer.length out > 60000 then (print_string (Buffer.contents out); Buffer.clear out)
     done
   with End_of_file -> ());
  print_string (Buffer.contents out)
