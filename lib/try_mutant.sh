#!/bin/bash
# try_mutant.sh <patch> <prop> [<prop>...]: apply a seeded change to /repo, run the named quick checks, restore /repo.
set -u
PATCH=$1; shift
[ -z "$(git -C /repo status --short)" ] || { echo "repo dirty"; exit 2; }
git -C /repo apply "$PATCH" || exit 2
for p in "$@"; do
  s=$(date +%s); out=$(/verif/check $p quick 2>&1 | grep -E "VIOLATION|KNOWN-FINDING|^OK|^FAIL" | head -5); rc=$?
  echo "[$p $(( $(date +%s)-s ))s] $out"
done
git -C /repo checkout -- . ; git -C /repo status --short
