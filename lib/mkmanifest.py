#!/usr/bin/env python3
"""Regenerates /verif/MANIFEST.json from the table below (run from /verif: python3 lib/mkmanifest.py).
A property is claimed only when lib/props/<id>.py and coq/Properties/<id>*.v exist."""
import json
import os
import subprocess

V = os.path.dirname(os.path.dirname(os.path.abspath(__file__)))

PROOF = "proof"
GEN_NOTE = ("Trusted: Coq 8.16.1 kernel (vm_compute used, native_compute not), no axioms (Print Assumptions of every property theorem is "
            "audited on every run: 'Closed under the global context'); the model is hand-written and tied to /repo on every run by "
            "(1) a differential correspondence run of the real implementation (harness rebuilt against the working tree) vs the "
            "OCaml-extracted model (ExtrOcamlBasic only), (2) constants regenerated from /repo and pinned by reflexivity; the "
            "correspondence covers only the inputs it generates. ")
CIRC_NOTE = GEN_NOTE + ("Circuits: the constraint relations of the qp-plonky2 1.5.5 builder primitives (is_equal, split_le, split_low_high, "
                        "select, and/or/not, connect) are transcribed into Coq and validated by running the REAL circuits on honest and "
                        "on generator-overridden (adversarial) witnesses with every gate constraint evaluated; Poseidon2 is an "
                        "uninterpreted function in the theorems; PLONK/FRI soundness+completeness relative to 'all gate and copy "
                        "constraints hold' is trusted. ")

T = {
    "C01": (PROOF, "7", "For all leaf-circuit inputs and all (adversarial) hint values: satisfiable => ranges, fee <= 10000 and the fee rule over Z (Coq, unbounded); model tied to the real leaf circuit on every-target assignments and hint overrides.", CIRC_NOTE),
    "C02": (PROOF, "7", "Nullifier / address / count bindings of every non-dummy satisfiable statement, same secret and count (Coq, all inputs and hints).", CIRC_NOTE),
    "C03": (PROOF, "7", "Block-hash preimage order, header root = fold of position-inserted 4-ary hashing over at most 16 levels, positions < 4, depth <= 16 (Coq induction over the level list).", CIRC_NOTE),
    "C04": (PROOF, "7", "Dummy flag is a function of the public statement; bindings enforced unless the full sentinel; ranges hold for dummies; refinement rel<->hon of the whole leaf circuit (no witness freedom).", CIRC_NOTE),
    "C05": (PROOF, "7", "Completeness of the prover-side fill + honest semantics for every well-formed honest input, public-input order, parse-back, exact rejection set (Coq); real commit/prove/pinned-verifier/parsers run on every depth 0..16.", CIRC_NOTE + "Panic-freedom and the cryptographic completeness step are observed, not proved (partial)."),
    "C06": (PROOF, "7", "rel(private_batch) <-> priv_compat /\\ output = the Lean-ported specification, for all N <= 64, all leaf vectors, all preimages, all hints (Coq).", CIRC_NOTE),
    "C07": (PROOF, "7", "Acceptance iff compatibility + replay-freedom + grouped sums < 2^32; order and dummy-field irrelevance (Coq).", CIRC_NOTE),
    "C08": (PROOF, "7", "Value conservation of the grouping for all batches (Coq re-proof of the Lean theorem on the port + circuit link).", CIRC_NOTE),
    "C09": (PROOF, "7", "Permutation invariance of header and nullifier region, zero slots, dummy non-interference (Coq).", CIRC_NOTE + "Header block-number invariance needs 'equal real block hashes have equal numbers' (holds for leaf-accepted statements via collision resistance): explicit premise."),
    "C10": (PROOF, "7", "refines (rel <-> hon) for every comparison/sorting gadget and both wrappers: unique output, honest-fails => all-fail (Coq); hint-override runs of the real circuits against the model's override semantics.", CIRC_NOTE),
    "C11": (PROOF, "7", "Wiring of the recursive layer (constant verifier key, PI-count checks) proved; foreign-circuit rejection validated on real recursive circuits; knowledge soundness is an explicit premise (partial).", CIRC_NOTE),
    "C12": (PROOF, "7", "rel(public_batch) <-> pub_compat /\\ output = forwarding specification with segment ownership, for all M, N (Coq).", CIRC_NOTE),
    "C13": (PROOF, "7", "Acceptance iff real inners share (block hash, asset, fee); dummies exempt; no cross checks (Coq).", CIRC_NOTE),
    "C14": (PROOF, "7", "Preflight decision functions modelled; accept => circuit-compatible, documented-policy-free reject => incompatible (Coq); real commit on the fake-leaf stack, committed witness evaluated.", GEN_NOTE + "`verifies` is an abstract boolean per proof."),
    "C15": (PROOF, "7", "Padding multiset, Fisher-Yates bijection for all n, canonical preimages (Coq); rand 0.8.6 shuffle replayed against the model; real commits observed. RNG quality is runtime (partial).", GEN_NOTE),
    "C16": (PROOF, "7", "Exact accept sets of the two template validators (Coq); every entry point exercised with single/pair deviations.", GEN_NOTE + "'every entry point calls the validator' is conformance, not proof."),
    "C17": (PROOF, "7", "Loader decision logic: size cap first, then byte / keccak pin (Coq, keccak a parameter); canonical artifacts rebuilt each run and mutated; strace shows no prover artifact is opened (partial: file system observed).", GEN_NOTE),
    "C18": (PROOF, "7", "verify accepts only own address + right length + verifying proof (Coq logic); real two-layer artifacts in the thorough tier (partial for cryptography).", GEN_NOTE),
    "C19": (PROOF, "7", "push admits iff the seven documented conditions, in order; rejected push leaves the pool unchanged apart from the budget (Coq, all states/limits).", GEN_NOTE + "Instant is virtualised (clock_gettime interposed); `verifies` abstract."),
    "C20": (PROOF, "7", "Pool invariant by induction over arbitrary operation lists; statistics exact (Coq).", GEN_NOTE),
    "C21": (PROOF, "7", "Proofs leave only by settlement / expiry / bucket removal; snapshots non-consuming, oldest-first, preflight-acceptable (Coq).", GEN_NOTE),
    "C22": (PROOF, "7", "At most `budget` verifications per window in any history; restart only after a full window (Coq). Wall-clock semantics replaced by the virtual clock (partial).", GEN_NOTE),
    "C23": (PROOF, "7", "All fault vectors x crash points x initial states: output is previous or new set, both copies survive otherwise, Ok iff new live (finite enumeration inside Coq lifted to all vectors); every vector replayed on the real function.", GEN_NOTE + "Real power loss / non-atomic rename not modelled (partial)."),
    "C24": (PROOF, "7", "Totality, exact accept sets, round trips, agreement of the two private-batch parsers for all u64/felt vectors (Coq).", GEN_NOTE),
    "C25": (PROOF, "7", "Round trip / injectivity / caps of the edge encoding, digest acceptance, limb codecs, quantisation (Coq, all inputs).", GEN_NOTE),
    "C26": (PROOF, "7", "Compact hash domain exact, encoding injective, node hashing order-independent and presorted-consistent (Coq, H arbitrary).", GEN_NOTE + "'distinct felt lists hash distinctly' is collision resistance: explicit premise."),
    "C27": (PROOF, "7", "Native verify iff the five conditions; from_unsorted succeeds with rank positions and verifies; circuit walk = native fold (Coq).", GEN_NOTE),
    "C28": (PROOF, "7", "Policy accepts exactly the ten inequalities (machine log2 modelled); CLI-accept => policy-accept for all flag sets (Coq); constructors observed to reject before building.", GEN_NOTE),
    "C29": (PROOF, "7", "validate exact, layout arithmetic never wraps for 1..64, try_pi_len None iff overflow (Coq); 32 entry points x 7 counts in child processes with allocation accounting; config round trip exhaustive.", GEN_NOTE + "serde JSON text not modelled."),
    "C30": (PROOF, "7", "is_const_less_than for all widths 1..64, constants, elements and hints: satisfiable iff in range, output = integer comparison, alias excluded; enforce exact (Coq).", CIRC_NOTE),
    "C31": (PROOF, "7", "sort_digests4 output = sorted permutation for n <= 64 (0-1 principle + monotone prefix counts + vm_compute of 2145 extremal cases), permutation for all n, against all hints (Coq).", CIRC_NOTE + "Sortedness bound n <= 64 = MAX_PROOF_COUNT, pinned."),
    "C32": ("other", "7", "Exact-string conformance of the redacting Debug renderings + needle search over all renderings of private values; the Coq non-interference theorem is about the transcription.", GEN_NOTE),
    "C33": ("other", "7", "Freed-block scanning allocator over all secret-handling call sequences of length <= 3, matched against an abstract heap-event model (Coq: no secret-bearing block freed unzeroed, no realloc after secret write). Compiler/allocator behaviour outside the model.", GEN_NOTE),
    "C34": (PROOF, "7", "Coq: the circuit model equals the Gallina port of the Lean definitions for all inputs (C06). Tool run: lake build of the Lean package, sorry/axioms audit, Lean definitions evaluated on explored batches vs the real circuit output.", CIRC_NOTE + "The Lean kernel run is a tool run."),
    "C35": (PROOF, "7", "Raw cap first; accept iff all caps; accept => validate (Coq over decoded documents); JSON documents around every cap. serde_json lexing not modelled (partial).", GEN_NOTE),
    "C36": (PROOF, "7", "Two-layer value and nullifier conservation by composition of the two wrapper specifications, all splits and padding levels (Coq); chained real wrapper circuits.", CIRC_NOTE),
}


def main():
    props = [json.loads(l) for l in open(os.path.join(V, "properties.jsonl"))]
    checks, na, claimed = [], [], []
    for p in props:
        pid = p["id"]
        spec = os.path.join(V, "lib", "props", pid.lower() + ".py")
        have_prop = any(f.startswith(pid) and f.endswith(".v") for f in os.listdir(os.path.join(V, "coq", "Properties")))
        if not (os.path.exists(spec) and have_prop and pid in T):
            na.append({"property_id": pid, "reason": "check not finished in this build round (model/harness in progress); design in DESIGN.md section 7 %s" % pid})
            continue
        cat, ref, text, note = T[pid]
        claimed.append(pid)
        checks.append({
            "property_id": pid,
            "quick_cmd": "./check %s quick" % pid,
            "thorough_cmd": "./check %s thorough" % pid,
            "evidence_file": "evidence/%s.json" % pid,
            "replay_cmd_template": "./check %s quick --replay {path}" % pid,
            "engine": "coq+correspondence",
            "level_claimed": {"category": cat, "text": text, "design_ref": "DESIGN.md section %s %s" % (ref, pid)},
            "level_note": note,
            "technique": "machine-checked proof in Coq (Rocq) 8.16 of a hand-written executable model + checked correspondence (differential run of implementation vs extracted model, regenerated constants)",
        })
    hooks = subprocess.run(["git", "-C", "/repo", "log", "--format=%H %s"], stdout=subprocess.PIPE, text=True).stdout.strip().split("\n")
    hook_commits = [l.split()[0] for l in hooks if " verif hook" in l]
    m = {
        "version": 1,
        "setup_cmd": "./setup.sh",
        "hooks": {"guard": "quantus_network_qp_zk_circuits_verif",
                  "enable": "RUSTFLAGS=\"--cfg quantus_network_qp_zk_circuits_verif\" (set for the harness crate in /verif/harness/.cargo/config.toml)",
                  "baseline_off_cmd": "cd /repo && cargo test --workspace --no-fail-fast --offline",
                  "source_commits": hook_commits, "add_only": True},
        "engines": [{"name": "coq+correspondence", "path": "/verif/check", "serves_properties": claimed,
                     "kind_free_text": "Coq 8.16.1 proofs over hand-written executable models (coq/), OCaml-extracted model runners (model/), Rust correspondence harness over the real crates (harness/), python orchestration (lib/)"}],
        "checks": checks,
        "not_applicable": na,
        "notes": "See DESIGN.md. known_findings.json lists fixed/open findings.",
    }
    json.dump(m, open(os.path.join(V, "MANIFEST.json"), "w"), indent=1)
    print("claimed", len(claimed), "not yet", [x["property_id"] for x in na])


if __name__ == "__main__":
    main()
