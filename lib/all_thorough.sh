#!/bin/bash
# runs setup and every thorough check in sequence (meant for `vp run -- lib/all_thorough.sh`), one summary line per property
./setup.sh > setup.log 2>&1 || { echo "setup failed"; tail -n 30 setup.log; exit 1; }
for i in $(seq -w 1 36); do p=C$i; s=$(date +%s); out=$(./check $p thorough 2>&1 | grep -E "^OK|VIOLATION|KNOWN-FINDING|Error|error" | head -4 | tr '\n' ' '); echo "$p $(( $(date +%s)-s ))s $out"; done
