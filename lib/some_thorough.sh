#!/bin/bash
# lib/some_thorough.sh C01 C02 ...: setup, then the named thorough checks in sequence (for `vp run -- lib/some_thorough.sh ...`)
./setup.sh > setup.log 2>&1 || { echo "setup failed"; tail -n 30 setup.log; exit 1; }
for p in "$@"; do s=$(date +%s); out=$(./check $p thorough 2>&1 | grep -E "^OK|VIOLATION|KNOWN-FINDING|Error|error" | head -4 | tr '\n' ' '); echo "$p $(( $(date +%s)-s ))s $out"; done
