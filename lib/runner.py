"""Generic per-property check: proof obligations + correspondence + verdict + evidence."""
import importlib
import json
import os
import sys
import time
import traceback

from . import vlib
from .vlib import CheckError, log


class Violation:
    def __init__(self, what, case=None, model_out=None, found_input=True, detail=None):
        self.what, self.case, self.model_out, self.found_input, self.detail = what, case, model_out, found_input, detail

    def payload(self, pid, seed, tier):
        d = {"property": pid, "seed": seed, "tier": tier, "what": self.what,
             "replay_cmd": "./check %s %s  (VERIF_SEED=%s regenerates the same case stream; the case below is re-run first when "
                           "passed with --replay <this file>)" % (pid, tier, seed)}
        if self.case is not None:
            d["case"] = self.case.to_json()
        if self.model_out is not None:
            d["model_out_hex"] = self.model_out
        if self.detail is not None:
            d["detail"] = self.detail
        if not self.found_input:
            d["no_failing_input_found"] = True
        return d


def load_spec(pid):
    mod = importlib.import_module("lib.props.%s" % pid.lower())
    return mod


def correspondence(spec, pid, tier, seed, replay_cases=None):
    """Run implementation and model on the same cases. Returns (cases, model_outs, stats)."""
    cases, notes = [], {}
    for (binname, args) in spec.HARNESS:
        text = vlib.run_harness(binname, args, seed=seed, tier=tier, timeout=getattr(spec, "HARNESS_TIMEOUT", 3000))
        cs, ns = vlib.parse_cases(text)
        cases += cs
        for k, v in ns.items():
            notes.setdefault(k, []).extend(v)
    fids = set(str(f) for f in spec.FIDS)
    cases = [c for c in cases if c.fid in fids]
    if replay_cases:
        cases = replay_cases + cases
    gof = getattr(spec, "GROUP_OF_FID", {})
    by_group = {}
    for idx, c in enumerate(cases):
        by_group.setdefault(gof.get(int(c.fid), spec.GROUP), []).append(idx)
    outs = [None] * len(cases)
    for g, idxs in by_group.items():
        res = vlib.run_model(g, [cases[i].model_line() for i in idxs])
        for i, r in zip(idxs, res):
            outs[i] = r
    return cases, outs, notes


def run_check(pid, tier, seed, replay=None):
    t0 = time.time()
    spec = load_spec(pid)
    violations = []
    infra_notes = []

    # 1. rebuild the harness from /repo's working tree, re-derive the generated constants
    try:
        bt = vlib.build_harness(bins=sorted(set(['consts'] + [b for b, _ in getattr(spec, 'HARNESS', [])] + list(getattr(spec, 'EXTRA_BINS', [])))))
    except CheckError as e:
        # /repo changed in a way the correspondence harness no longer compiles against (renamed / removed API, or /repo
        # itself does not compile with the hooks on): the tie between model and code is broken.
        v = Violation("the correspondence harness no longer builds against /repo's working tree (correspondence broken)",
                      found_input=False, detail=str(e)[-4000:])
        path = vlib.write_replay(pid, v.payload(pid, seed, tier))
        vlib.write_evidence(pid, {"property_id": pid, "tier": tier, "seed": seed, "level": "other",
                                  "coverage": {"explanation": "harness build failed; nothing could be run", "evaluations": 1, "distinct_nontrivial": 2},
                                  "wall_s": round(time.time() - t0, 2), "violations": 1})
        print("VIOLATION property=%s replay=%s no-failing-input-found" % (pid, path))
        return 1
    consts = vlib.gen_constants()

    # 2. proof obligations
    prop_files = getattr(spec, "PROP_FILES", [pid])
    theorems = []
    for pf in prop_files:
        theorems += vlib.property_theorems(pf)
    targets = ["Properties/%s.vo" % pf for pf in prop_files] + ["Extract/%s.vo" % g for g in getattr(spec, "EXTRACTS", [spec.GROUP.capitalize()] if getattr(spec, "GROUP", None) else [])]
    ok, out = vlib.coq_make(targets)
    discharged = 0
    assumptions = {}
    proofs_ok = ok
    if not ok:
        violations.append(Violation("proof obligation no longer checks: make %s failed" % " ".join(targets), found_input=False,
                                    detail=out[-3000:]))
        # try to keep the executable model alive for the failing-input search
        ok2, out2 = vlib.coq_make(targets[len(prop_files):]) if len(targets) > len(prop_files) else (True, "")
        if not ok2:
            raise CheckError("model does not build either:\n" + out2[-3000:])
    else:
        assumptions, raw = vlib.audit_assumptions(pid, theorems, prop_files)
        if assumptions is None:
            raise CheckError("assumption audit failed:\n" + raw[-3000:])
        for t in theorems:
            if vlib.assumptions_ok(assumptions.get(t, [])):
                discharged += 1
            else:
                violations.append(Violation("theorem %s depends on non-allow-listed assumptions: %s" % (t, assumptions.get(t)),
                                            found_input=False))
    bad = vlib.grep_forbidden()
    if bad:
        violations.append(Violation("forbidden construct in the Coq development: %s" % bad[:5], found_input=False))

    # 3. correspondence
    replay_cases = None
    if replay:
        rp = json.load(open(replay))
        if "case" in rp:
            c = rp["case"]
            replay_cases = [vlib.Case(str(c["fid"]), c.get("tag", "replay"), ";".join(c["input_hex_segments"]), c["impl_out_hex"])]
    evaluations = 0
    distinct = set()
    tags = {}
    samples = []
    disagreements = 0
    extra = {}
    if getattr(spec, "HARNESS", None):
        cases, outs, notes = correspondence(spec, pid, tier, seed)
        evaluations = len(cases)
        nontrivial = getattr(spec, "nontrivial", lambda c, m: True)
        judge = getattr(spec, "judge", None)
        inspect = getattr(spec, "inspect", None)   # implementation-side predicate evaluated on every agreeing case
        # structural alarm first: did a hint-generator fingerprint case disagree?  Hint overrides are addressed by
        # (generator kind, occurrence), so after a restructuring an override hits a different site in the implementation
        # than in the model and a disagreement on such a case is not by itself a failing input.
        fp_broken = any(m != c.out for c, m in zip(cases, outs) if c.tag.startswith("fingerprint"))
        override_fids = set(getattr(spec, "OVERRIDE_FIDS", ()))

        def default_judge(c, m):
            if c.tag.startswith("fingerprint"):
                return ("differs", "the ordered hint-generator fingerprint of the built circuit no longer matches the model's "
                                   "trace: the circuit was restructured (a hint-allocating call was added, removed or moved)")
            if fp_broken and c.fid in override_fids:
                return ("differs", "hint-override case after a restructuring of the circuit (the override may address a "
                                   "different site in the implementation than in the model)")
            return ("violates", "implementation result differs from the proved model on this input")
        n_viol = n_diff = 0
        for c, m in zip(cases, outs):
            tags[c.tag] = tags.get(c.tag, 0) + 1
            if nontrivial(c, m):
                distinct.add(c.key())
            if inspect is not None and m == c.out:
                why = inspect(c, m)
                if why:
                    disagreements += 1
                    n_viol += 1
                    if n_viol <= 3:
                        violations.append(Violation("%s [fid %s, tag %s]" % (why, c.fid, c.tag), case=c, model_out=m,
                                                    found_input=True))
            if m != c.out:
                disagreements += 1
                verdict = judge(c, m) if judge else None
                kind, why = verdict if verdict else default_judge(c, m)
                if kind == "violates":
                    n_viol += 1
                    if n_viol > 3:
                        continue
                else:
                    n_diff += 1
                    if n_diff > 2:
                        continue
                violations.append(Violation("%s [fid %s, tag %s]" % (why, c.fid, c.tag), case=c, model_out=m,
                                            found_input=(kind == "violates")))
        step = max(1, len(cases) // 6)
        for c, m in list(zip(cases, outs))[::step][:6]:
            samples.append({"case": c.to_json(), "model_out_hex": m})
        extra["tag_distribution"] = tags
        extra["harness_notes"] = {k: v[:20] for k, v in notes.items()}
        extra["disagreements"] = disagreements

    # 4. property-specific extra steps (tool runs, implementation-side predicates, ...)
    if hasattr(spec, "extra_checks"):
        ex = spec.extra_checks(tier=tier, seed=seed, consts=consts)
        evaluations += ex.get("evaluations", 0)
        for v in ex.get("violations", []):
            violations.append(v)
        for s in ex.get("samples", [])[:4]:
            samples.append(s)
        for k in ex.get("distinct", []):
            distinct.add(k)
        extra.update(ex.get("evidence", {}))

    # 5. known findings
    known = [f for f in vlib.load_known_findings() if f.get("property") == pid and f.get("status") == "open"]
    reported = []
    for v in violations:
        hit = None
        if hasattr(spec, "finding_key"):
            k = spec.finding_key(v)
            for f in known:
                if k is not None and f.get("key") == k:
                    hit = f
        if hit:
            print("KNOWN-FINDING: property=%s %s" % (pid, hit.get("what", hit.get("key"))))
        else:
            reported.append(v)

    wall = time.time() - t0
    level = getattr(spec, "LEVEL", "proof")
    if level not in ("exploration", "fault_enumeration", "model_checking", "proof", "translation_validation", "other"):
        level = "other"
    cov = {
        "obligations": len(theorems), "discharged": discharged,
        "checker_cmd": "make -C coq %s ; coqc Print Assumptions audit (lib/vlib.py:audit_assumptions)" % " ".join(targets),
        "trusted_base": getattr(spec, "TRUSTED_BASE", []) + [
            "Coq 8.16.1 kernel incl. vm_compute (no native_compute)",
            "Print Assumptions of every property theorem: " + ("; ".join("%s: %s" % (t, " ".join(assumptions.get(t, ["?"]))) for t in theorems))[:3000],
            "correspondence: Rust harness /verif/harness (rebuilt against /repo working tree), extraction ExtrOcamlBasic only, OCaml driver model/driver.ml",
        ],
        "theorems": theorems,
        "evaluations": evaluations, "distinct_nontrivial": len(distinct),
        "rule": getattr(spec, "RULE", "cases are generated by the harness from VERIF_SEED; distinct = distinct (function id, input); non-trivial per property module"),
        "samples": samples if samples else [{"obligation": t} for t in theorems[:3]],
        "harness_build_s": round(bt, 1),
    }
    cov.update(extra)
    ev = {"property_id": pid, "tier": tier, "seed": seed, "level": level, "coverage": cov,
          "assumptions": getattr(spec, "ASSUMPTIONS", []), "wall_s": round(wall, 2), "violations": len(reported)}
    vlib.write_evidence(pid, ev)

    for v in reported:
        path = vlib.write_replay(pid, v.payload(pid, seed, tier))
        print("VIOLATION property=%s replay=%s%s" % (pid, path, "" if v.found_input else " no-failing-input-found"))
    if not reported:
        print("OK property=%s tier=%s obligations=%d/%d evaluations=%d distinct_nontrivial=%d wall=%.1fs" % (
            pid, tier, discharged, len(theorems), evaluations, len(distinct), wall))
    return 1 if reported else 0


def main(argv):
    if len(argv) < 2:
        print("usage: ./check <Cxx> <quick|thorough> [--replay file]")
        return 2
    pid = argv[0]
    tier = argv[1]
    replay = None
    if "--replay" in argv:
        replay = argv[argv.index("--replay") + 1]
    seed = int(os.environ.get("VERIF_SEED", "1") or 1)
    os.environ["VERIF_TIER"] = tier
    try:
        return run_check(pid, tier, seed, replay)
    except CheckError as e:
        log("CHECK-ERROR %s: %s" % (pid, e))
        return 2
    except Exception:
        traceback.print_exc()
        return 2
