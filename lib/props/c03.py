"""C03 - leaf circuit (shared harness run with C01-C04)."""
GROUP = "leaf"
EXTRACTS = ["Leaf"]
HARNESS = [("leaf", [])]
EXTRA_BINS = ["hashd"]
FIDS = [101, 102, 105]
LEVEL = "proof"
RULE = ("harness/src/bin/leaf.rs: the REAL leaf circuit (WormholeCircuit::new(wormhole_leaf_circuit_config())) is built from /repo "
        "and evaluated on assignments of ALL its input targets, each target assigned independently (the two secret targets, the two "
        "transfer-count pairs, to_account vs account_id, root_hash vs header.zk_tree_root, is_not_dummy ...): honest statements over "
        "random secrets/amounts/fees and random 4-ary paths of every depth 0..16, each with one adversarial deviation out of 33 kinds "
        "(scalars 2^32 / p-k, fee 10001 / 2^14 / p-1, fee-rule off by one, split secret / count / account, forged nullifier / block "
        "hash / root limb, unrelated header root, position 4.., depth 17.., depth off by one, unused-level garbage, assigned dummy "
        "flag, the four sentinel combinations, header field corruptions); plus generator-output overrides (forged equality hints incl. "
        "the six dummy-decision equalities, forged bit decompositions, forged level-activity bits). All gate constraints are evaluated "
        "on every row; a sample of accepted assignments is pushed through the real prover+verifier. Compared: accept/reject and the 21 "
        "public inputs against the Coq model (hon / ovr), Poseidon2 answered natively (hashd). fid 105: hint-generator fingerprint vs "
        "model trace. distinct = distinct (fid, assignment, overrides); non-trivial = not a plain honest statement (a deviation or an "
        "override is present) or depth >= 1")
ASSUMPTIONS = ["plonky2 primitive constraint relations transcribed from qp-plonky2 1.5.5 (Core.v/Prims.v), validated by these runs",
               "Poseidon2 is an uninterpreted function H in the theorems; in the runs it is the native hash_no_pad (checked equal to the "
               "in-circuit hash by the agreement of accept/reject and public inputs)",
               "PLONK/FRI soundness+completeness relative to 'all gate and copy constraints hold' is trusted"]


def nontrivial(case, model_out):
    if case.fid != "101":
        return True
    depth = int(case.segs.split(";")[0].split()[5], 16)
    return case.tag != "honest" or depth >= 1

# fids whose cases apply hint overrides addressed by (generator kind, occurrence) - see runner.default_judge
OVERRIDE_FIDS = {"102"}

from . import leafcommon as _lc

judge = _lc.judge_for("C03")
