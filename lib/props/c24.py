"""C24 - public-input parsers are total, exact and mutually consistent."""
GROUP = "parsers"
EXTRACTS = ["Parsers"]
HARNESS = [("parsers", [])]
FIDS = [2401, 2402, 2403, 2404, 2405]
LEVEL = "proof"
RULE = ("harness/src/bin/parsers.rs: valid serialisations of every layout (leaf; private batch n in {1..8,63..66} quick / 1..66 "
        "thorough; public batch over a grid of (m,n)) with one mutation each (u32-overflowing scalar, non-canonical limb, "
        "shorter/longer by 1..3, +21, header edge value, +1, wrong count felt, mismatched declared dimensions) plus length sweeps; "
        "distinct = distinct (parser, input vector); non-trivial = the input is not rejected by the length test alone "
        "(model reaches the field checks) or is accepted")
ASSUMPTIONS = ["u64 inputs only (the Rust signature); GoldilocksField inner values are arbitrary u64 (non-canonical allowed)",
               "usize is 64 bit"]


def nontrivial(case, model_out):
    # accepted, or long enough to pass the length gate of its parser
    if model_out.startswith("1"):
        return True
    n = len(case.segs.split(";")[0].split())
    if case.fid in ("2401", "2402"):
        return n == 21
    if case.fid in ("2403", "2404"):
        return n >= 29 and (n - 8) % 21 == 0
    return n >= 26
