"""C24 - public-input parsers are total, exact and mutually consistent."""
GROUP = "parsers"
EXTRACTS = ["Parsers"]
HARNESS = [("parsers", [])]
FIDS = [2401, 2402, 2403, 2404, 2405]
LEVEL = "proof"
RULE = ("harness/src/bin/parsers.rs: valid serialisations of every layout (leaf; private batch n in {1..8,63..66} quick / 1..66 "
        "thorough; public batch over a grid of (m,n)) with one mutation each (u32-overflowing scalar, non-canonical limb, "
        "shorter/longer by 1..3, +21, header edge value, +1, wrong count felt, mismatched declared dimensions) plus length sweeps; "
        "distinct = distinct (parser, input vector); non-trivial = the input is not rejected by the length test alone "
        "(model reaches the field checks) or is accepted")
ASSUMPTIONS = ["u64 inputs only (the Rust signature); GoldilocksField inner values are arbitrary u64 (non-canonical allowed)",
               "usize is 64 bit",
               "results are compared by class (Ok value / some error / panic): error messages and which of several "
               "defects is reported first are not part of the property (the two private-batch parsers check in different orders)",
               "to_canonical_u64 and try_4_felts_to_bytes (plonky2 / zk-circuits-common) are modelled as one conditional "
               "subtraction of FIELD_ORDER resp. a length test; the differential run covers them with non-canonical inner values"]


def judge(case, model_out):
    names = {"2401": "leaf u64 parser", "2402": "leaf felt parser", "2403": "private-batch u64 parser",
             "2404": "private-batch felt parser", "2405": "public-batch parser"}
    what = names.get(case.fid, case.fid)
    if case.out == "-1":
        return ("violates", "%s PANICKED on this input (C24_total)" % what)
    if case.out.startswith("1") and not model_out.startswith("1"):
        return ("violates", "%s accepts an input outside the well-formed layouts (C24_*_accept_iff)" % what)
    if model_out.startswith("1") and not case.out.startswith("1"):
        return ("violates", "%s rejects a well-formed layout (C24_*_accept_iff / round trip)" % what)
    return ("violates", "%s returns a different structure than the one laid out at the documented offsets" % what)


def nontrivial(case, model_out):
    # accepted, or long enough to pass the length gate of its parser
    if model_out.startswith("1"):
        return True
    n = len(case.segs.split(";")[0].split())
    if case.fid in ("2401", "2402"):
        return n == 21
    if case.fid in ("2403", "2404"):
        return n >= 29 and (n - 8) % 21 == 0
    return n >= 26
