"""C26 - compact node hashing is injective on the domain it accepts."""
GROUP = "encoding"
EXTRACTS = ["Encoding"]
HARNESS = [("encoding", ["c26"])]
FIDS = [2601, 2602, 2603, 2604, 2605, 2611]
LEVEL = "proof"
RULE = ("harness/src/bin/encoding.rs: hash_bytes_compact (hook verif_hash_bytes_compact) on every length 0..41, aligned strings "
        "built from limbs around p (p-1, p, p+1, 2^64-1, v and v+p alias pairs) and their unaligned neighbours (x, x||0), described "
        "constant-fill strings at 2^20-8, 2^20, 2^20+8, 2^20+-1; hash_node on child quadruples (small byte domain with ties, edge limbs, "
        "random, duplicates, non-canonical children) in all 24 orders, hash_node_presorted on every one of those arrangements, "
        "is_canonical_hash, the strict 8-byte limb conversion. The Poseidon2 value comes from a (preimage felts -> native "
        "qp_poseidon_core::hash_to_felts) table computed by the harness; a preimage the model asks for that is not in the table "
        "yields the distinct output -3, so equality of preimages is checked. distinct = distinct (function id, input); non-trivial = "
        "accepted, or rejected by the limb-canonicity check (not merely by length/alignment)")
ASSUMPTIONS = ["children are [u8; 32] x 4 (the Rust signature); bytes are u8",
               "the Poseidon2 sponge is not modelled: it is an arbitrary function in every theorem, and a finite table of native values in the "
               "correspondence runs; collision resistance appears only as the explicit premise of the *_partial theorem",
               "qp-poseidon-core 3.1.0 is the resolved dependency"]


def nontrivial(case, model_out):
    if model_out.startswith("1"):
        return True
    f = case.fid
    segs = case.segs.split(";")
    if f == "2601":
        n = len(segs[0].split())
        return n % 8 == 0 and n <= (1 << 20)
    if f == "2611":
        n = int(segs[0].split()[0], 16) + len(segs[1].split())
        return n % 8 == 0 and n <= (1 << 20)
    return True
