"""C22 - the admission verification budget bounds verification work."""
from .c19 import GROUP, EXTRACTS, HARNESS, LEVEL, tagbits, opcodes
from .c19 import ASSUMPTIONS as _A

FIDS = [1901]
ASSUMPTIONS = _A + ["partial: wall-clock semantics of std::time::Instant are replaced by the virtual clock"]
RULE = ("same histories as C19; the verifier-call counter (hook: static incremented just before verifier.verify in push) is "
        "compared with the model's per-step verifier-call flag after every op; half of the clock advances are aimed at the "
        "window boundary (window-1ns, window, window+1ns since the window start); distinct = distinct histories; non-trivial = "
        "the history exhausts the budget at least once and advances the clock")


def nontrivial(case, model_out):
    return bool(tagbits(case) & (1 << 2)) and "6" in opcodes(case)


from . import poolcommon as _pc


def judge(case, model_out):
    return _pc.judge_c22(case, model_out)
