"""C29 - per-layer proof counts are bounded at every entry point; layout arithmetic never wraps; config round trip."""
GROUP = "parsers"
EXTRACTS = ["Parsers"]
HARNESS = [("counts", []), ("parsers", [])]
FIDS = [2901, 2902, 2903, 2904, 2905, 2910, 2911]
LEVEL = "proof"
RULE = ("harness/src/bin/counts.rs: 32 public entry points taking a per-layer count (validate_proof_count; CircuitBinsConfig "
        "new/validate/load incl. legacy key; the u64/felt/verifier-crate parsers; private_batch_num_leaves_from_padded_pi_len; "
        "add_recursive_verifiers; PrivateBatchCircuit/PublicBatchCircuit::new; PrivateBatchProver/PublicBatchProver "
        "new/new_from_bytes/new_from_files/new_from_binaries_dir; ProofPool::new; the three artifact builders; "
        "canonical_*_verifier_data; PublicBatchAggregator::new), each in its own child process, with counts "
        "0,1,2,63,64,65,66,2^16,2^32,usize::MAX/21+1,usize::MAX per position (entry points whose accepting path builds a "
        "real circuit or needs real artifacts get only rejecting counts plus listed cheap accepting ones; length-derived "
        "counts only up to 200). Observation class: 1 accepted / 0 rejected with the proof-count error after < 1 MiB "
        "allocated (counting global allocator) and < 50 ms and without creating the output directory / 2 count error after "
        "heavy work / 3 rejected for another reason first / -1 panic or abort; model = counts_accept. "
        "Config file: all 64x65 valid pairs x {new+save+load, serde text with current key, with legacy key} (exhaustive) and 30 "
        "invalid pairs; model = config_accepts and the loaded values. harness/src/bin/parsers.rs: validate_proof_count on "
        "0..130 + edges, try_pi_len / pi_len / aggregator layout helpers on all 64x64 validated pairs, edge-value pairs and "
        "random u64 pairs (release build: wrapping). distinct = distinct (function id, input); all counted cases are "
        "non-trivial (each is a distinct (entry point, count vector) or arithmetic input)")
ASSUMPTIONS = ["usize is 64 bit",
               "the JSON text of config.json is not modelled (serde_json is trusted): the model is the accepted set "
               "config_accepts and the identity on accepted values; the round trip is an exhaustive conformance run",
               "'before allocating or building' is measured, not proved: bytes allocated (global counting allocator) and wall "
               "time on the rejection path of the real entry point, argument construction by the caller excluded",
               "entry points whose accepting path would build a full recursive circuit are only exercised with rejecting "
               "counts (plus cheap accepting ones where `new` does not build): PrivateBatchProver/PublicBatchProver "
               "constructors, artifact builders, canonical_*_verifier_data, PublicBatchAggregator::new",
               "length-derived counts (parsers) are exercised up to 200 leaves; larger lengths do not fit a test vector",
               "release build (wrapping arithmetic) only; the debug/overflow-checks build is not run in this tier",
               "verif_c21_preflight_private_batch_proofs (a cfg-gated verification hook, not a product entry point) is excluded"]
EXHAUSTIVE = {"config_roundtrip_valid_pairs": "64 x 65 x 3 variants", "try_pi_len_validated_pairs": "64 x 64"}

_CLASS = {"1": "accepted", "0": "rejected (count error, cheap)", "2": "rejected with the count error but only after heavy work",
          "3": "rejected for a different reason before the count check", "-1": "panicked / aborted"}


def judge(case, model_out):
    if case.fid == "2910":
        return ("violates", "entry point %s: implementation %s, model (validate_proof_count on every count) says %s" % (
            case.tag, _CLASS.get(case.out, case.out), _CLASS.get(model_out, model_out)))
    if case.fid == "2911":
        return ("violates", "config file round trip: loaded %s, expected %s" % (case.out, model_out))
    return ("violates", "proof-count / layout arithmetic differs from the proved model")


def nontrivial(case, model_out):
    return True
