"""C30 - the less-than gadget computes the integer comparison for every input."""
GROUP = "gadgets"
EXTRACTS = ["Gadgets"]
HARNESS = [("gadgets", ["lt", "enforce"])]
FIDS = [3001, 3002, 3003, 3005]
LEVEL = "proof"
RULE = ("harness/src/bin/gadgets.rs: the REAL is_const_less_than / enforce_target_less_than_const circuits are built for every "
        "width 1..64 (exhaustive (c,x) for widths <= 4 quick / <= 6 thorough; boundary + random constants and elements otherwise) "
        "and run (a) with honest witness generation, (b) with overridden generator outputs (other 64-bit decomposition x+p, forged "
        "equality hints, forged comparison bit, non-boolean / flipped / shifted bit decompositions); all gate constraints are then "
        "evaluated on every row; one accepted adversarial witness is pushed through the real prover+verifier. Compared with the Coq "
        "model's hon/ovr semantics; fid 3005 compares the ordered hint-generator fingerprint of the built circuit with the model's "
        "trace. distinct = distinct (fid, input, overrides); non-trivial = the element is within the width (so the comparison bit, "
        "not only the range check, decides) or an override is present")
ASSUMPTIONS = ["plonky2 primitive constraint relations (is_equal, split_le, split_low_high, select, and/or/not) are transcribed from "
               "qp-plonky2 1.5.5 into coq/Circ/Core.v, Prims.v; validated by these runs, not proved",
               "PLONK/FRI soundness+completeness relative to 'all gate and copy constraints hold' is trusted"]


def nontrivial(case, model_out):
    segs = case.segs.split(";")
    if case.fid == "3003":
        return len(segs) > 1
    if case.fid == "3005":
        return True
    w, c, x = [int(t, 16) for t in segs[0].split()[:3]]
    return x < (1 << w)

# fids whose cases apply hint overrides addressed by (generator kind, occurrence) - see runner.default_judge
OVERRIDE_FIDS = {"3003"}
