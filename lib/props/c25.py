"""C25 - byte, digest and integer encodings are lossless and reject out-of-range input."""
GROUP = "encoding"
EXTRACTS = ["Encoding"]
HARNESS = [("encoding", ["c25"])]
FIDS = [2501, 2502, 2503, 2504, 2505, 2506, 2507, 2508, 2509, 2510, 2511, 2512, 2513, 2514, 2515, 2521, 2522]
LEVEL = "proof"
RULE = ("harness/src/bin/encoding.rs: edge encoding on byte strings of every length 0..9 (30 contents each, incl. 0/1-only strings "
        "that collide with the marker/padding bytes), random lengths < 70 and 100..500, x / x||0 / x||1 triples, and described "
        "constant-fill strings of length 2^20-1, 2^20, 2^20+1 (expanded by the model); decoding on valid encodings and one mutation each "
        "(last word, limb >= 2^32, raw >= p, dropped/extra word, high bits), all 81 single-word marker patterns over bytes {0,1,2}, "
        "empty and random vectors, vectors of 262145 / 262146 felts; digests with limbs drawn around p (p-1, p, p+1, 2^64-1, 0) through "
        "BytesDigest::try_from (slice and array), Secret::new, bytes_to_digest, both digest_to_bytes; u64/u128 limb codecs on raw "
        "felts around 2^32 and p; quantisation around (2^32-1)*10^10. distinct = distinct (function id, input); non-trivial = accepted, "
        "or rejected by a check other than the plain length / cap / emptiness test")
ASSUMPTIONS = ["bytes are u8, field elements are GoldilocksField with an arbitrary inner u64 (non-canonical allowed), amounts are u128 "
               "(the Rust signatures)",
               "usize is 64 bit",
               "qp-poseidon-core 3.1.0 is the resolved dependency (its bytes_to_u64s / u64s_to_bytes are modelled and run through the real crate)"]

CAP_B = 1 << 20
CAP_F = (1 << 18) + 1


def _seg_len(case, i=0):
    return len(case.segs.split(";")[i].split())


def nontrivial(case, model_out):
    if model_out.startswith("1"):
        return True
    f = case.fid
    if f in ("2501", "2514"):
        return _seg_len(case) <= CAP_B
    if f in ("2502", "2515"):
        n = _seg_len(case)
        return 0 < n <= CAP_F
    if f in ("2521", "2522"):
        segs = case.segs.split(";")
        n = int(segs[0].split()[0], 16) + (len(segs[1].split()) if len(segs) > 1 else 0)
        return n <= (CAP_B if f == "2521" else CAP_F)
    if f == "2503":
        return _seg_len(case) == 32
    return True
