"""C05 - leaf proving is complete and exposes exactly the stated public inputs."""
GROUP = "leafprover"
EXTRACTS = ["LeafProver"]
HARNESS = [("leafprove", [])]
EXTRA_BINS = ["hashd"]
FIDS = [501]
LEVEL = "proof"
RULE = ("harness/src/bin/leafprove.rs: the REAL WormholeProver (build -> commit -> prove) on CircuitInputs built at the byte level, for "
        "every tree depth 0..16 (6 cases per depth quick, 120 thorough): honest statements (random secrets, counts, amounts, fees, "
        "exit accounts, 4-ary paths, 110-byte digest logs), honest dummies, malformed shapes (depth 17..19, positions longer / "
        "shorter / empty than siblings, positions 4,5,7,128,255), and well-shaped dishonest statements (commit Ok, prove must fail). "
        "Every produced proof is verified by the canonical pinned WormholeVerifier (fresh rebuild loaded through new_from_bytes, so "
        "through the keccak pins) and its 21 public inputs must parse back to the statement with BOTH parsers; panics are caught. "
        "Observation [0]=commit Err, [2]=prove Err, 1::pis, [3]/[4]=verifier/parser anomaly, [-1]=panic, compared with the Coq model "
        "prove_outcome (fill + honest semantics of the leaf-circuit model). distinct = distinct inputs; non-trivial = depth >= 1 or malformed")
ASSUMPTIONS = ["completeness of PLONK/FRI (a satisfying witness yields an accepted proof) is checked on every case, not proved",
               "byte<->felt conversions are done with the repo's own functions in the harness (their properties are C25's subject)",
               "panic-freedom is observed (catch_unwind), not proved"]


def nontrivial(case, model_out):
    return case.tag != "honest" or len(case.segs.split(";")) > 13
