"""C14 - batch provers admit exactly the batches the circuit can prove."""
import os
import re

from .. import vlib

GROUP = "preflight"
EXTRACTS = ["Preflight"]
HARNESS = [("provers", ["c14"])]
FIDS = [1401, 1402, 1403, 1404, 1411, 1412, 1414]
LEVEL = "proof"
HARNESS_TIMEOUT = 3000
RULE = ("harness/src/bin/provers.rs drives the REAL PrivateBatchProver::commit (fresh or recycled prover per vector, batch sizes 1..3 "
        "quick / 1..4 thorough, over the 21-PI fake leaf circuit of the repo's own tests) and PublicBatchProver::commit (M = 2 quick / "
        "1..3 thorough, inner proofs = genuine private-batch proofs made by the real PrivateBatchProver) with vectors of lengths 0..N+1. "
        "Quick tier: a fixed scenario list (every feature below once at N = 2, k = 2; k = 1 < N plain / tampered / wrong PI length / "
        "template supplied / non-native asset; k = 0; k = N+1; N = 1 and N = 3 samples) with seed-dependent values; thorough adds ~370 "
        "random vectors. Features: compatible batches, one deliberate feature each (asset / fee / block differing, nullifier shared real-real and real-supplied-dummy, "
        "all supplied dummies, grouped sums 2^32-2 .. 2^33 on one account incl. the zero account, max amounts on distinct accounts, "
        "supplied dummy with huge outputs, accounts differing in one limb), plus tampered proofs (a public input flipped after proving), "
        "wrong PI length, the template supplied as a proof, non-native asset with padding; result compared by class (Ok / error kind from "
        "stable message substrings) with the Coq model (fid 1401/1411). On every Ok the COMMITTED partial witness (cfg hook) is run through "
        "witness generation and every gate constraint of the real circuit (fid 1402/1412; a sample is really proved and verified); for every "
        "vector of valid proofs that fits, the padded batch is also evaluated on the real circuit WITHOUT commit in the supplied and in a "
        "random order and compared with priv_compat (fid 1403: rejected => unprovable, accepted => provable in any order). The two F1 "
        "regression vectors (two leaves paying 2^31 / 2^30 each to one account) run first through commit and the real prove(). Bulk: "
        "ensure_leaf_batch_compatible (fid 1404) and preflight_private_batch_proofs (fid 1414, the function ProvingContext::prove_batch "
        "calls before building the prover) through cfg-gated forwarders. ProvingContext::prove_batch itself needs the canonical artifact "
        "set (tens of seconds) and is not run; that it calls the preflight before PublicBatchProver::new is checked on the source text. "
        "distinct = distinct (fid, input); non-trivial = the vector gets past the count checks (1 <= k <= N) or is accepted")
ASSUMPTIONS = ["a child proof is abstracted to (public inputs as canonical u64, verifies?) - the verifier is plonky2's and is not modelled",
               "'the circuit can prove the batch' is LeanPort.priv_compat / pub_compat (C07 / C13 relate them to the wrapper circuits); the "
               "run additionally evaluates the real circuits on every accepted and every well-formed rejected vector",
               "results are compared by class; which of several defects is reported follows the code's order and is part of the model",
               "shuffle, dummy-nullifier preimages and fill_*_witness's proof-shape checks are outside this property (C15 / C11)",
               "the fake leaf circuit range-checks both outputs and the fee to 32 bits like the real leaf; asset ids are free there"]

_COMPAT = {"6", "7", "8", "9", "b"}


def _kind(out):
    t = out.split()
    return t[1] if len(t) > 1 else None


def judge(case, model_out):
    if case.out == "-1":
        return ("violates", "the prover PANICKED on this vector")
    if case.fid in ("1402", "1412"):
        if case.out == "0":
            return ("violates", "commit ACCEPTED this vector but the committed witness does not satisfy the circuit / proving fails "
                                "afterwards (C14_*_accept_sound)")
        return ("violates", "commit accepted a vector whose padded batch the specification calls unprovable")
    if case.fid == "1403":
        return ("violates", "the real private-batch circuit and priv_compat disagree on this explicitly ordered padded batch")
    who = "private-batch" if case.fid in ("1401", "1404") else "public-batch"
    if case.out.startswith("1") and not model_out.startswith("1"):
        return ("violates", "%s commit/preflight ACCEPTS a vector the model rejects with class %s (accept-only-if / accept_sound)"
                % (who, _kind(model_out)))
    if model_out.startswith("1"):
        return ("violates", "%s commit/preflight REJECTS (class %s) a vector that is within policy and provable (C14_*_accept_iff)"
                % (who, _kind(case.out)))
    return ("violates", "%s commit/preflight reports class %s where the code order modelled in Sys/Preflight.v gives %s "
                        "(C14_order_of_checks; class 63 = unrecognised message)" % (who, _kind(case.out), _kind(model_out)))


def nontrivial(case, model_out):
    if model_out.startswith("1"):
        return True
    if case.fid in ("1402", "1412", "1403", "1404"):
        return True
    return _kind(model_out) not in ("1", "2")


def extra_checks(tier, seed, consts):
    """prove_batch must run the preflight before it builds the prover (anchor: aggregator.rs ~187)."""
    src = open(os.path.join(vlib.REPO, "wormhole/aggregator/src/aggregator.rs")).read()
    src = re.sub(r"//[^\n]*", "", src)
    m = re.search(r"pub fn prove_batch\(&self, proofs: Vec<Proof>\) -> Result<Proof> \{(.*?)\n    \}\n", src, re.S)
    from ..runner import Violation
    viol = []
    ok = False
    if m:
        body = m.group(1)
        a = body.find("preflight_private_batch_proofs(")
        b = body.find("PublicBatchProver::new(")
        c = body.find(".commit(")
        ok = 0 <= a < b < c and re.search(r"preflight_private_batch_proofs\(\s*&proofs,\s*self\.num_private_batch_proofs,\s*"
                                          r"&self\.private_batch_verifier,\s*\)\s*(\.context\([^)]*\))?\s*\?", body) is not None
    if not ok:
        viol.append(Violation("ProvingContext::prove_batch no longer runs preflight_private_batch_proofs(&proofs, "
                              "self.num_private_batch_proofs, &self.private_batch_verifier)? before PublicBatchProver::new "
                              "(source-order check of wormhole/aggregator/src/aggregator.rs)", found_input=False))
    return {"evaluations": 1, "violations": viol,
            "evidence": {"prove_batch_preflight_before_build": bool(ok)}}


def finding_key(v):
    c = getattr(v, "case", None)
    if c is not None and "F1-two-leaves" in (c.tag or ""):
        return "private-commit-grouped-sum"
    return None
