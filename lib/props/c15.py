"""C15 - private-batch padding and shuffling are exact and uniform; public batches keep the given order.

What is PROVED (coq/Properties/C15.v, about the model coq/Sys/Shuffle.v, all sizes, all draws):
  padding is exactly k proofs + (n-k) templates and the result a permutation of it; rand's Fisher-Yates is a
  bijection between the draw vectors prod_{i=1}^{n-1} [0,i] (there are n! of them) and the orders of n distinct
  slots; rand's u32 index draw (widening multiply + rejection zone) returns an in-range index and every index is
  produced by exactly 2^lz consecutive u32 values (so it is exactly uniform given uniform u32s); the preimage
  sampler returns the digest of the first accepted candidate, accepted candidates are in 1-1 correspondence with
  canonical digests, slot j uses the j-th accepted candidate; the public batch keeps the given order.
What is only VALIDATED (harness/src/bin/shuffle.rs): that the code behaves like the model - rand 0.8.6's shuffle /
  gen_range as linked into /repo's build on recorded generator outputs; BytesDigest::try_from on candidates; and
  real PrivateBatchProver::commit / PublicBatchProver::commit runs whose committed slot order and dummy preimages are
  read back from the partial witness and judged by the Coq-extracted predicates private_obs_ok / fresh_ok /
  public_obs_ok (proved sound in C15_observation_checks_sound).
What is NOT covered: the quality of ThreadRng (that its u32 / byte outputs are uniform and independent) - chi-square
  statistics of the observed orders are reported in the evidence, never decided on.
"""
GROUP = "privacy"
EXTRACTS = ["Privacy"]
HARNESS = [("shuffle", [])]
FIDS = [1501, 1502, 1503, 1504, 1505, 1506, 1508]
LEVEL = "proof"
HARNESS_TIMEOUT = 1500
RULE = ("harness/src/bin/shuffle.rs: (1501) SliceRandom::shuffle of [0..n) (n in 0..264) and (1502) gen_range(0..ubound as u32) "
        "(ubound over all magnitudes incl. 1, 2^31, 2^32-1) driven by a replaying RngCore in 5 modes (random, small, "
        "near-max, boundary picks, top-quarter = frequently rejected): permutation, recovered draw vector, index and number "
        "of u32 consumed must equal the model's; (1503) BytesDigest::try_from on candidates with limbs around p; "
        "(1504) one case per REAL PrivateBatchProver::commit (n in {1,2,3,4,8} quick, +5 thorough; k in 1..n; plus the empty / oversized "
        "rejections): slot labels read from the committed partial witness (public inputs + 3 Merkle caps + pow witness "
        "identify each proof) and the 4n preimage limbs, judged by the extracted predicate private_obs_ok (multiset exact, "
        "preimages canonical and pairwise distinct); (1505) preimages of consecutive commits share no value (fresh_ok); "
        "(1506) REAL PublicBatchProver::commit (m=2 quick / m=3 thorough over 1-leaf private batches, k=1..m, rejections k=0 and k=m+1): labels in order = "
        "supplied order then templates; (1508) histogram of the orders seen for n<=3 (quick) / n<=4 (thorough): every order "
        "observed at least once (the only statistical decision; miss probability < 1e-40). distinct = distinct (fid, input); "
        "non-trivial = a shuffle with n>=2 / an index draw with ubound>=2 / every preimage candidate / every commit observation")
ASSUMPTIONS = [
    "level partial: ThreadRng (ChaCha12 reseeded from the OS) and that gen_range / fill receive uniform independent outputs are "
    "runtime behaviour outside the model; the theorems take the draws / u32 outputs / candidate bytes as inputs",
    "rand's gen_index u32 fast path (ubound <= u32::MAX) is the one modelled; batch sizes are <= MAX_PROOF_COUNT = 64 (pinned)",
    "commit's other preflight checks (proof verification, asset/block/fee/nullifier compatibility) are C14's subject: the model's "
    "commit has only the two count checks; the harness supplies valid, mutually compatible fake-leaf proofs",
    "a committed slot is identified by the values assigned to the proof target's public inputs, wires / partial-products / "
    "quotient caps and pow witness (not by every opening value)",
    "hooks: verif_partial_witness (read access) and verif_c15_recycle (re-arms a committed prover with the deterministic targets "
    "of the same circuit so that thousands of commits share one circuit build); commit itself is unmodified",
    "generate_random_nullifier_preimage is crate-private and draws from ThreadRng: its loop is modelled (sample_preimage) and tied "
    "through BytesDigest::try_from (1503) and through the canonical / distinct / fresh preimages observed in real commits",
]


def judge(case, model_out):
    f = case.fid
    if case.out == "-1":
        return ("violates", "the implementation PANICKED on this input")
    if f == "1501":
        return ("violates", "rand's SliceRandom::shuffle (as linked into /repo) disagrees with the model's Fisher-Yates on these "
                            "recorded generator outputs (C15_shuffle_bijection is about a different algorithm than the code runs)")
    if f == "1502":
        return ("violates", "rand's gen_range(0..n as u32) disagrees with the model's widening-multiply rejection sampler")
    if f == "1503":
        return ("violates", "BytesDigest::try_from accepts/rejects a preimage candidate differently from the model "
                            "(C15_preimage_canonical: accepted = every 8-byte limb < p)")
    if f == "1504":
        if model_out == "0":
            return ("violates", "commit accepted an empty or oversized batch")
        if case.out == "0":
            return ("violates", "commit rejected a batch of 1 <= k <= n valid compatible proofs")
        return ("violates", "a committed private batch violates C15: the slots are not exactly the k supplied proofs plus n-k "
                            "template copies, or a dummy preimage is non-canonical, or two slots share a preimage "
                            "(segments: [k n]; slot labels in committed order (j = j-th supplied proof, 0 = template, -7 = "
                            "neither / unassigned); 4n preimage limbs)")
    if f == "1505":
        return ("violates", "two commits reuse a dummy preimage (preimages are not fresh per commit)")
    if f == "1506":
        if model_out == "0":
            return ("violates", "public commit accepted an empty or oversized batch")
        return ("violates", "a committed public batch does not hold the supplied proofs in the given order followed by templates")
    if f == "1508":
        return ("violates", "some slot order of n distinct proofs was never produced in hundreds of commits (the shuffle does "
                            "not reach every permutation)")
    return ("violates", "implementation result differs from the proved model on this input")


def nontrivial(case, model_out):
    f = case.fid
    segs = case.segs.split(";")
    if f == "1501":
        return int(segs[0], 16) >= 2
    if f == "1502":
        return int(segs[0], 16) >= 2
    if f == "1503":
        return True
    return True
