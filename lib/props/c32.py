"""C32 - Debug output never reveals secret or deposit-identifying data.

What is checked, and by what:

* Coq (coq/Properties/C32.v): non-interference of the MODEL's rendering functions - two values that agree on the
  printed (public) fields have the same `{:?}` and `{:#?}` text for all values of the secret, deposit account,
  transfer count, input amount, digest logs, siblings and positions. These theorems are true BY CONSTRUCTION of the
  model (debug_<type> in coq/Sys/DebugRender.v does not read the private projections). On their own they say
  nothing about the Rust code; they fix, formally, *which* fields the output may depend on.
* The tie to the code, which carries the assurance, is the correspondence run of harness/src/bin/redact.rs:
    (a) the real `format!("{:?}")` / `format!("{:#?}")` string of every listed type, built through its real
        constructors, equals the model's rendering byte for byte - and the model is a function of the public fields;
    (b) a twin value with the same public fields and every private field re-drawn renders byte-identically
        (implementation only, no model involved);
    (c) no decimal / hex / byte-list / felt-encoding rendering of any private value occurs in any output
        (implementation only).
  (a) is the runner's ordinary diff; (b) and (c) are run by `extra_checks` (`redact --check`).
"""
import json

GROUP = "privacy"
EXTRACTS = ["Privacy"]
HARNESS = [("redact", [])]
FIDS = [3201, 3202, 3203, 3204, 3205, 3206, 3207, 3208, 3209, 3210]
LEVEL = "other"
RULE = (
    "harness/src/bin/redact.rs. Per iteration: one public side (5 u32 scalars, 8 digests; one third structured: zero / all-same / "
    "counting / boundary limbs, 10% dummy (zero block hash, zero outputs), 8% non-canonical zk_tree_root bytes) and one private "
    "side of kind random | allsame (0xAB..) | ascii | counting | boundary (limbs p-1, p-2, .., u64::MAX, u32::MAX) | small "
    "(transfer_count < 1000, amount < 10000): secret and deposit account as canonical 32-byte digests, transfer_count u64, "
    "input_amount u32, 110 digest-log bytes, 0..=16 levels of 3 siblings (10% non-canonical), positions. Built from them, through the "
    "real constructors: PublicCircuitInputs, PrivateCircuitInputs, CircuitInputs, Nullifier::{new, from(&CircuitInputs), "
    "from_preimage}, UnspendableAccount::{new, from_secret, from(&CircuitInputs)}, ZkLeafData::new, ZkMerkleProofData::{try_from, new, "
    "struct literal with an unrelated depth}, HeaderInputs::try_from, BlockHeader::{new, try_from}, WormholeProver build_fresh and "
    "build_fresh().commit(&inputs) (every 6th iteration quick / 12th thorough); each rendered with {:?} and {:#?}. "
    "(a) each rendering is one case: segments = ALL fields incl. the private ones + mode, out = bytes of the real string; distinct = "
    "distinct (type, fields, mode); every case is non-trivial unless the model reports a malformed/unknown case. "
    "(b) `--check`: two twins with the same public side and every private field re-drawn to a different value must render "
    "byte-identically: one with the same path length, one with a different path length (the latter not compared for "
    "ZkMerkleProofData::{try_from, new}, whose `depth` publishes siblings.len()); Nullifier::from_preimage is excepted (its printed "
    "hash is the public nullifier, a function of the secret by design). "
    "(c) `--check`: needles of every private value - integers in decimal and bare lower/upper hex (the 0x-prefixed and zero-padded "
    "forms contain the bare form), LE/BE byte strings as hex and as decimal lists; for byte strings every 4-byte window as `a, b, c, d` "
    "and as hex in both cases (any longer run or whole-array rendering contains one); felt encodings: 8-byte LE limbs "
    "(bytes_to_digest), 8-byte BE limbs, 4-byte LE/BE limbs, u64_to_felts halves, bytes_to_felts (4 bytes/felt) of the digest logs, raw "
    "and canonical, singly and as adjacent pairs `x, y`; positions as windows and as the whole `[..]` list; the account id that "
    "from_secret derives. Needles shorter than 5 characters are not searched (a transfer count of 3 cannot be told from a list index). "
    "Searched in the raw output and, for {:#?}, also in the output with whitespace runs collapsed. Coincidences are excluded by "
    "construction: a private side is re-drawn until none of its needles occurs in the public corpus (every public value in every "
    "printed form + all type/field names and literals), so a needle found in an output cannot come from a public field; private "
    "scalars of the searched kinds are >= 2^20. A boundary-valued private side gets a public side without boundary values.")
ASSUMPTIONS = [
    "the Coq theorems are about the hand-written transcription (coq/Sys/DebugRender.v) and hold by construction; the property of the "
    "code rests on the exact string equality, the twin runs and the needle search over the sampled values",
    "core::fmt's machinery (DebugStruct, DebugList, PadAdapter, integer/str/bool Debug) is outside the model: the model transcribes "
    "its observable behaviour for `{:?}` and `{:#?}` only; other format specs (`{:x?}`, width/precision flags) are not covered",
    "only Debug of the listed types: Display impls, error messages / anyhow contexts (e.g. the bail! texts that print lengths), logs "
    "written by other routes, serde output and memory contents are out of scope",
    "GoldilocksField's Debug prints to_canonical_u64() in decimal (qp-plonky2-field 1.5.5 goldilocks_field.rs); the model prints "
    "(x - FIELD_ORDER if x >= FIELD_ORDER else x); the harness feeds raw inner values incl. non-canonical ones",
    "Nullifier.transfer_count and WormholeProver.partial_witness are private Rust fields the harness cannot read back: the segments "
    "carry the values that went into the constructor (they are unused by the model anyway)",
    "ZkMerkleProofData prints `depth`, which its constructors set to siblings.len(): the path LENGTH is visible by design of the "
    "impl; the twins keep the length and the struct-literal variant decouples depth from the lengths",
    "NOT covered, observed: zk_circuits_common::zk_merkle::ZkMerkleProof (re-exported by wormhole_circuit::zk_merkle_proof) derives "
    "Debug and prints siblings, positions, leaf_hash and leaf_index in full; it is not one of the redacting impls of the property's "
    "anchors. Likewise zk_circuits_common::circuit::TransferProofJson (JSON loading DTO, derived Debug) prints its transfer_count. "
    "The run records both as `observations` in the evidence",
    "usize is 64 bit",
]


def _text(hexs):
    try:
        return bytes(int(x, 16) for x in hexs.split()).decode("ascii", "replace")
    except Exception:
        return hexs[:200]


def judge(case, model_out):
    impl, model = _text(case.out), _text(model_out)
    if model_out.strip() in ("-2", "-3"):
        return ("infra", "the model could not decode this case (%s): harness and model disagree on the segment layout" % model_out)
    at = next((i for i, (x, y) in enumerate(zip(impl, model)) if x != y), min(len(impl), len(model)))
    ctx = impl[max(0, at - 60):at + 60].replace("\n", "\\n")
    return ("violates",
            "the real Debug output differs from the model's rendering, which depends on the public fields only: either a "
            "private field is printed / the output depends on private data, or the format of the impl changed "
            "(first difference at byte %d: ...%s...)" % (at, ctx))


def nontrivial(case, model_out):
    return model_out.strip() not in ("-2", "-3", "") and not model_out.startswith("!")


def extra_checks(tier, seed, consts):
    from lib import runner, vlib
    text = vlib.run_harness("redact", ["--check"], seed=seed, tier=tier, timeout=3000)
    _, notes = vlib.parse_cases(text)

    def num(k):
        try:
            return int(notes.get(k, ["0"])[0])
        except ValueError:
            return 0

    violations = []
    parsed, per_kind = [], {}
    for v in notes.get("violation", []):
        try:
            d = json.loads(v)
        except ValueError:
            d = {"what": v}
        # at most three reports of each kind (needle hit / twin difference / panic)
        per_kind[d.get("what")] = per_kind.get(d.get("what"), 0) + 1
        if per_kind[d.get("what")] <= 3:
            parsed.append(d)
    for d in parsed:
        if d.get("what") == "private value printed":
            what = ("%s: the %s output contains the %s (%s: %s)" % (d.get("type"), d.get("mode"), d.get("field"),
                                                                   d.get("needle_kind"), d.get("needle")))
        elif d.get("what") == "rendering depends on private fields":
            what = ("%s: two values with the same public fields and different private fields render differently in %s "
                    "(near: %s)" % (d.get("type"), d.get("mode"), d.get("context")))
        else:
            what = d.get("what", "redaction check failed")
        d["rerun"] = "VERIF_SEED=%s VERIF_TIER=%s .cache/target/release/redact --check" % (seed, tier)
        violations.append(runner.Violation(what="C32 redaction: " + what, detail=d))
    n_viol = num("violations")
    if n_viol and not violations:
        violations.append(runner.Violation(what="C32 redaction: harness reports %d violations" % n_viol, detail=notes))
    pairs, searches = num("pairs"), num("needle_searches")
    if pairs == 0 or searches == 0:
        violations.append(runner.Violation(what="C32: the --check run compared no twins / searched no needles", found_input=False,
                                           detail={k: v[:5] for k, v in notes.items()}))
    return {
        "evaluations": pairs + num("renderings"),
        "violations": violations,
        "samples": [],
        "distinct": [],
        "evidence": {
            "check_run": {
                "iterations": num("iterations"),
                "renderings_searched": num("renderings"),
                "twin_pairs_compared": pairs,
                "needles": num("needles"),
                "needle_searches (needle x rendering)": searches,
                "twin_private_fields_differing": notes.get("twin_private_fields_differing", ["?"])[0],
                "private_sides_redrawn_for_coincidence_or_equality": num("redraws"),
                "violations": n_viol,
                "skipped_constructions": notes.get("skipped", []),
            },
            "observations": notes.get("observation", []),
            "what_the_proof_adds": "non-interference of the model's rendering functions (true by construction); the assurance about "
                                   "the code is the exact-string conformance, the twin runs and the needle search",
        },
    }
