"""C10 - aggregation outputs leave no witness freedom (gadget part; wrapper part added by PrivateBatch/PublicBatch)."""
GROUP = "gadgets"
PROP_FILES = ["C10_gadgets", "C10_private", "C10_public"]
HARNESS = [("gadgets", ["lt", "sortsmall", "digesteq"]), ("wrappers", ["priv", "pub"])]
FIDS = [3003, 3004, 3102, 3005, 3105, 602, 605, 1202, 1205]
GROUP_OF_FID = {602: "wrappers", 605: "wrappers", 1202: "wrappers", 1205: "wrappers"}
EXTRACTS = ["Gadgets", "Wrappers"]
EXTRA_BINS = ["hashd"]
LEVEL = "proof"
RULE = ("hint-override runs of the REAL gadget circuits (see C30/C31 rules): for each overridden generator (EqualityGenerator, "
        "LowHighGenerator, BaseSplitGenerator by occurrence) the real circuit's accept/reject and public output must equal the Coq "
        "model's ovr semantics, for which refines (rel <-> hon) is proved; fingerprints tie the hint-site sequence. "
        "non-trivial = at least one generator output overridden")
ASSUMPTIONS = ["as C30"]


def nontrivial(case, model_out):
    return case.fid in ("3003", "3102", "602", "1202")

# fids whose cases apply hint overrides addressed by (generator kind, occurrence) - see runner.default_judge
OVERRIDE_FIDS = {"602", "1202", "3003", "3102"}
