"""C23 - artifact publication is atomic under failures and crashes."""
GROUP = "publish"
EXTRACTS = ["Publish"]
HARNESS = [("publish", [])]
FIDS = [2301, 2302]
LEVEL = "proof"
RULE = ("exhaustive: harness/src/bin/publish.rs replays on the REAL commit_staging_dir_impl (cfg hook, injected rename closure, fresh "
        "directory under the temp dir, file names + contents compared afterwards) every rename-fault vector over {ok, Err, die-before, "
        "die-after} of length 0..4 (quick) / 0..5 (thorough) - the model's proved bound is 3 renames per run (C23_fault_bound), so this is "
        "every vector the Coq enumeration covers plus one/two positions beyond - from every initial state {no output, output dir, output "
        "file} (plus staging missing / a file, which is refused before any operation); where the file system honours the immutable inode flag the same vectors are "
        "replayed once more with remove_dir_all failing (Err, nothing removed). Partial removals and death inside remove_dir_all are "
        "enumerated in Coq only (6 remove faults x 64 rename vectors x 3 states, all_safe). generate_all_circuit_binaries is run for real "
        "with rejected proof counts, an uncreatable staging directory, a generation that fails after staging exists (RLIMIT_FSIZE=0), the "
        "same with the cleanup removal failing, and a full successful generation. "
        "evaluations = runs of the real function; distinct_nontrivial = distinct (entry point, initial state, remove fault, *consumed* "
        "prefix of the rename-fault vector) among runs that get past the first check (staging is a directory)")
ASSUMPTIONS = ["a crash is modelled as process death between two file-system calls (panic in the injected closure, no cleanup code runs); "
               "power loss with unsynced metadata and a non-atomic rename(2) are outside the model",
               "the staging name is fresh: nothing pre-exists at the staging path or at <staging>.old (64 random bits in the real name)",
               "remove_dir_all is not injectable in the code: only its clean failure is induced on the real function (immutable flag, "
               "when supported); partial removal / death during removal are covered by the Coq enumeration only",
               "no concurrent writer at the three paths (wormhole/THREAT_MODEL.md puts local races out of scope)"]

_seen = set()


def _ints(s):
    return [int(t, 16) for t in s.split()]


def nontrivial(case, model_out):
    segs = case.segs.split(";")
    head = _ints(segs[0])
    rf = _ints(segs[1]) if len(segs) > 1 else []
    mf = segs[2].strip() if len(segs) > 2 else ""
    m = model_out.split()
    if case.fid == "2301":
        if head[1] != 2:
            return False
        used = max(0, len(m) - 4)          # rename calls the run made
        prefix = tuple((rf + [0] * used)[:used])
        key = (case.fid, head[0], mf, prefix)
    else:
        key = (case.fid, tuple(head), mf)
    if key in _seen:
        return False
    _seen.add(key)
    return True


def judge(case, model_out):
    """Property predicate on the *implementation's* observation (C23 (a)-(c), failed generation)."""
    segs = case.segs.split(";")
    head = _ints(segs[0])
    mf = _ints(segs[2]) if len(segs) > 2 and segs[2].strip() else []
    try:
        o = [int(t, 16) for t in case.out.split()]
        verdict, out, stg, old = o[0], o[1], o[2], o[3]
    except Exception:
        return ("violates", "unreadable implementation observation")
    o0 = head[0]
    bad = []
    if verdict == -1:
        bad.append("the routine panicked on its own")
    if case.fid == "2301" and head[1] == 2 or case.fid == "2302" and head[1] == 4:
        if out not in (o0, 2, 0):
            bad.append("output path holds neither the previous contents nor the complete new set (class %d)" % out)
        if out != o0 and not (out == 2 or (old == o0 and stg == 2)):
            bad.append("previous contents left the output path but the new set is not live and the two copies did not both survive")
        if not (out == 2 or stg == 2 or (o0 != 0 and out == o0)):
            bad.append("the new set was lost although the output path does not hold its previous contents")
        if verdict == 1 and out != 2:
            bad.append("Ok reported but the new set is not live")
        if verdict == 0 and out == 2:
            bad.append("Err reported although the new set is live")
    elif case.fid == "2302":
        if out != o0:
            bad.append("failed generation changed the output path")
        if verdict == 1:
            bad.append("failed generation reported Ok")
        if stg != 0 and not mf:
            bad.append("failed generation left a staging directory behind")
    elif case.fid == "2301":
        if (out, stg, old) != (o0, head[1], 0) or verdict != 0:
            bad.append("a staging path that is not a directory was not refused untouched")
    if bad:
        return ("violates", "C23 violated on the real function: " + "; ".join(bad))
    return ("differs", "the real function no longer performs the file-system steps of the proved model (the observation itself "
                       "still satisfies C23 (a)-(c) on this input)")
