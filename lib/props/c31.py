"""C31 - the digest sorting gadget outputs the sorted permutation of its inputs."""
GROUP = "gadgets"
EXTRACTS = ["Gadgets"]
HARNESS = [("gadgets", ["sort"])]
FIDS = [3101, 3102, 3105]
LEVEL = "proof"
RULE = ("harness/src/bin/gadgets.rs: the REAL sort_digests4 circuit for n in {1,2,3,4,5,8,13,16,64} (thorough: 18 sizes up to 64), "
        "inputs from small value domains (duplicates), boundary limbs (2^32-1, 2^32, p-1, p-2^32) and random; exhaustive over a "
        "3-digest domain for n <= 4 (5 thorough); hint overrides on ingress splits (x+p alias), comparator bits and equality hints "
        "for n <= 5 (9 thorough); every gate constraint evaluated. Compared with the Coq model (hon / ovr) whose output is proved "
        "equal to the sorted permutation. distinct = distinct (fid, input, overrides); non-trivial = n >= 2")
ASSUMPTIONS = ["as C30: plonky2 primitives transcribed, proof system trusted",
               "sortedness theorem bounded by n <= 64 = MAX_PROOF_COUNT (pinned), permutation unbounded"]


def nontrivial(case, model_out):
    return len(case.segs.split(";")) >= 2

# fids whose cases apply hint overrides addressed by (generator kind, occurrence) - see runner.default_judge
OVERRIDE_FIDS = {"3102"}
