"""C08 - private-batch wrapper (shared harness run C06-C09)."""
GROUP = "wrappers"
EXTRACTS = ["Wrappers"]
EXTRA_BINS = ["hashd"]
LEVEL = "proof"
ASSUMPTIONS = ["plonky2 primitive constraint relations transcribed from qp-plonky2 1.5.5 (Core.v/Prims.v), validated by these runs",
               "child public inputs are free inputs of the wrapper model; that they come from verified child proofs is C11's subject",
               "Poseidon2 is an uninterpreted H in the theorems; native hash_no_pad in the runs",
               "PLONK/FRI soundness+completeness relative to 'all gate and copy constraints hold' is trusted"]
PRIV_RULE = ("harness/src/bin/wrappers.rs: the REAL build_private_batch_constraints (cfg-gated forwarder) instantiated over free child "
             "public-input targets for N in {1,2,3,4,5,8} (thorough: up to 32): mostly-compatible batches over a small universe of "
             "accounts / nullifiers / blocks (so equal accounts, duplicate nullifiers real/real, real/dummy, dummy/dummy occur), "
             "amounts from {0,1,2^31-1,2^31,2^32-1,random}, with conflict patterns (asset / fee / block mismatch, duplicate nullifier, "
             "grouped sums near and over 2^32, amounts outside u32, all-dummy, all-real), random slot permutations for N<=4, an "
             "exhaustive small-domain sweep for N=2 (stride 7 quick / full 20736 thorough), and generator-output overrides (forged "
             "equality hints, forged comparator splits, forged sum bits) for N<=3. All gate constraints evaluated; accept/reject and all "
             "21N+8 outputs compared with the Coq model (hon/ovr); fid 605 = hint-generator fingerprint vs model trace. "
             "distinct = distinct (fid, input, overrides); non-trivial = N >= 2 or an override present")
HARNESS = [("wrappers", ["priv"])]
FIDS = [601]
RULE = PRIV_RULE


def nontrivial(case, model_out):
    segs = case.segs.split(";")
    return int(segs[0].split()[0], 16) >= 2 or case.fid == "602"

# fids whose cases apply hint overrides addressed by (generator kind, occurrence) - see runner.default_judge
OVERRIDE_FIDS = {"602"}
