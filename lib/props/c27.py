"""C27 - native Merkle proofs verify exactly the valid 4-ary paths, like the circuit."""
GROUP = "merkle"
EXTRACTS = ["Merkle"]
HARNESS = [("merkle", [])]
EXTRA_BINS = ["hashd"]
FIDS = [2701, 2702, 2703, 2704, 2705, 2706]
LEVEL = "proof"
RULE = ("harness/src/bin/merkle.rs on the REAL common/src/zk_merkle.rs: ZkMerkleProof::{verify, verify_with_positions} on proofs of "
        "every depth 0..18 over canonical hashes (limbs 0,1,0x100,2^56,p-2,p-1,random; a 5-value small domain with ties) - all 4^d "
        "position vectors for d <= 3, random ones above - each with every single corruption (one flipped bit in EVERY sibling/leaf/"
        "root byte for d <= 2, random bytes above; every level's position changed to each of 0..5,7,255; swapped siblings; depth by "
        "truncation / extension of both or one vector, also re-rooted across MAX_DEPTH; unrelated root, root of the shorter path; "
        "non-canonical leaf/sibling/root: alias v+p and limbs p, p+k, 2^64-1), plus a soup of independent fields; "
        "ZkMerkleProof::from_unsorted on paths 0..18 built level by level against the running hash (equal siblings, sibling == "
        "running hash, one-byte neighbours, small domain in all 6 orders, explicit byte-order vs numeric-order sets such as limb "
        "0x0100 vs 0x0001), with true / unrelated / non-canonical roots and non-canonical leaves and siblings; the output proof is "
        "re-verified and also verified against the root folded with the order-independent hash_node; insert_at_position with "
        "positions 0..6,128,255; hash_node / hash_node_presorted. 2705/2706: the byte proof is converted with the prover's own "
        "ZkMerkleProofData::new and native verify() is compared with the leaf-circuit MODEL's path constraints (depth bound, "
        "16-level walk, root binding; Leaf.v) on that data. Poseidon2 is answered to the model by plonky2's "
        "Poseidon2Hash::hash_no_pad (hashd) while the implementation hashes with qp_poseidon_core, so their equality on every "
        "preimage is checked too. distinct = distinct (function id, input); non-trivial = the input passes the depth and "
        "length gates of its function (the model reaches canonicity checks / hashing)")
ASSUMPTIONS = ["a Hash256 is modelled by its four little-endian u64 limbs; the Ord of [u8; 32] is modelled on the explicit byte "
               "expansion (bytes_of_digest), proved total/antisymmetric on 4 x u64",
               "Poseidon2 is an arbitrary function H returning 4 canonical felts in every theorem (hash_wf)",
               "[T; 4]::sort is modelled by its specification (the sorted arrangement of a total antisymmetric order)",
               "leaf_index is informational and not modelled; error messages are not compared (Ok value / Err / panic classes)",
               "the real leaf circuit's agreement with Leaf.v is the subject of C01-C04 (harness leaf.rs fids 101/102); C27 "
               "links that model to the native verifier by proof and by fids 2705/2706"]


def judge(case, model_out):
    f = case.fid
    if "-1" in case.out.split():
        return ("violates", "a native Merkle function PANICKED on this input (C27_verify_total / C27_from_unsorted_rejects)")
    if f == "2701":
        if case.out.startswith("1") and not model_out.startswith("1"):
            return ("violates", "verify accepts a proof that fails one of the five conditions of C27_verify_iff")
        return ("violates", "verify rejects a proof that meets the five conditions of C27_verify_iff (or verify and "
                            "verify_with_positions differ)")
    if f == "2702":
        return ("violates", "from_unsorted differs from C27_from_unsorted_ok / C27_from_unsorted_rejects (success class, positions = "
                            "byte-lexicographic rank, stored siblings, or the result does not verify against the computed root)")
    if f == "2703":
        return ("violates", "insert_at_position differs from C27_insert_at_position")
    if f == "2704":
        return ("violates", "hash_node / hash_node_presorted differ from the model (canonicity gate, byte order, or Poseidon2 mismatch)")
    return ("violates", "native verify disagrees with the leaf-circuit model's path constraints on the prover's data "
                        "(C27_circuit_iff_native)")


def nontrivial(case, model_out):
    segs = case.segs.split(";")
    n = lambda i: len(segs[i].split()) if i < len(segs) else 0
    if case.fid in ("2701", "2705", "2706"):
        return n(3) <= 16 * 12 and n(3) == 12 * n(2)
    if case.fid == "2702":
        return n(2) <= 16 * 12
    return True
