"""C09 - private-batch wrapper (shared harness run C06-C09)."""
GROUP = "wrappers"
EXTRACTS = ["Wrappers"]
EXTRA_BINS = ["hashd"]
LEVEL = "proof"
ASSUMPTIONS = ["plonky2 primitive constraint relations transcribed from qp-plonky2 1.5.5 (Core.v/Prims.v), validated by these runs",
               "child public inputs are free inputs of the wrapper model; that they come from verified child proofs is C11's subject",
               "Poseidon2 is an uninterpreted H in the theorems; native hash_no_pad in the runs",
               "PLONK/FRI soundness+completeness relative to 'all gate and copy constraints hold' is trusted"]
PRIV_RULE = ("harness/src/bin/wrappers.rs: the REAL build_private_batch_constraints (cfg-gated forwarder) instantiated over free child "
             "public-input targets for N in {1,2,3,4,5,8} (thorough: up to 32): mostly-compatible batches over a small universe of "
             "accounts / nullifiers / blocks (so equal accounts, duplicate nullifiers real/real, real/dummy, dummy/dummy occur), "
             "amounts from {0,1,2^31-1,2^31,2^32-1,random}, with conflict patterns (asset / fee / block mismatch, duplicate nullifier, "
             "grouped sums near and over 2^32, amounts outside u32, all-dummy, all-real), random slot permutations for N<=4, an "
             "exhaustive small-domain sweep for N=2 (stride 7 quick / full 20736 thorough), and generator-output overrides (forged "
             "equality hints, forged comparator splits, forged sum bits) for N<=3. All gate constraints evaluated; accept/reject and all "
             "21N+8 outputs compared with the Coq model (hon/ovr); fid 605 = hint-generator fingerprint vs model trace. "
             "distinct = distinct (fid, input, overrides); non-trivial = N >= 2 or an override present")
HARNESS = [("wrappers", ["priv"])]
FIDS = [601]
RULE = PRIV_RULE


def nontrivial(case, model_out):
    segs = case.segs.split(";")
    return int(segs[0].split()[0], 16) >= 2 or case.fid == "602"


# ---------------------------------------------------------------------------------------------------------
# Implementation-side predicate for the clause "every dummy ... output slot is the all-zero slot": evaluated on
# what the REAL wrapper circuit output. One class of inputs violates it on the unchanged code (recorded in
# known_findings.json, key dummy-slot-carries-zero-account-total): a dummy slot that is the first occurrence of the
# all-zero account carries the total real slots pay to the all-zero account. Any other violation is reported.
from lib import vlib
from lib.runner import Violation


def extra_checks(tier, seed, consts):
    text = vlib.run_harness("wrappers", ["priv"], seed=seed, tier=tier)
    cases, _ = vlib.parse_cases(text)
    violations, known_seen, evaluated, samples = [], 0, 0, []
    for c in cases:
        if c.fid != "601" or not c.out.startswith("1 "):
            continue
        segs = c.segs.split(";")
        n = int(segs[0].split()[0], 16)
        leaves = [[int(t, 16) for t in s.split()] for s in segs[1:1 + n]]
        out = [int(t, 16) for t in c.out.split()[1:]]
        if len(out) != 21 * n + 8:
            continue
        evaluated += 1
        real = [l for l in leaves if l[16:20] != [0, 0, 0, 0]]
        zero_total = sum(l[1] for l in real if l[8:12] == [0, 0, 0, 0]) + sum(l[2] for l in real if l[12:16] == [0, 0, 0, 0])
        for i, l in enumerate(leaves):
            if l[16:20] != [0, 0, 0, 0]:
                continue
            for k in (2 * i, 2 * i + 1):
                slot = out[8 + 5 * k: 13 + 5 * k]
                if slot == [0, 0, 0, 0, 0]:
                    continue
                if slot[1:] == [0, 0, 0, 0] and slot[0] == zero_total and zero_total > 0:
                    known_seen += 1
                    if known_seen == 1:
                        samples.append({"known_finding_instance": c.to_json(), "dummy_slot": k, "slot": slot})
                        violations.append(Violation("dummy slot %d of the output is %s, not the all-zero slot (it carries the total real slots pay to the all-zero account)" % (k, slot),
                                                    case=c, found_input=True, detail="dummy-slot-carries-zero-account-total"))
                else:
                    violations.append(Violation("dummy slot %d of the output is %s, not the all-zero slot" % (k, slot), case=c, found_input=True))
    return {"evaluations": evaluated, "violations": violations[:4], "samples": samples,
            "evidence": {"c09_dummy_slot_predicate_evaluated_on_impl_outputs": evaluated, "known_finding_instances_seen": known_seen}}


def finding_key(v):
    return v.detail if isinstance(v.detail, str) and v.detail == "dummy-slot-carries-zero-account-total" else None

# fids whose cases apply hint overrides addressed by (generator kind, occurrence) - see runner.default_judge
OVERRIDE_FIDS = {"602"}
