"""C28 - the circuit-config policy is enforced exactly and before any build."""
GROUP = "config"
EXTRACTS = ["Config"]
HARNESS = [("config", ["c28"])]
FIDS = [2801, 2802, 2803, 2804]
LEVEL = "proof"
RULE = ("harness/src/bin/config.rs: validate_circuit_config over (a) one-at-a-time sweeps of every field over "
        "{0,1,t-1,t,t+1,..,2^32,usize::MAX} from 7 base configs, (b) full products quotient x rate and wires x routed, "
        "(c) all pairs of fields over {t-1,t,t+1}, (d) 2^e-1/2^e/2^e+1 against rates e-1/e/e+1/8, (e) random mixes; the six "
        "constructors on failing configs (bounded ones first, extreme ones only if those were rejected cleanly) with the rejection "
        "metered (heap bytes requested during the call <= 16 KiB - a clean rejection needs < 4 KiB, CircuitBuilder::new far more - "
        "and < 5 ms, best of 5) and on a handful of passing configs (real builds); AggConfigArgs "
        "through clap::try_parse_from over the same grids (validate verdict and every field of build()). "
        "distinct = distinct (function id, input); non-trivial = the config/flag set is accepted, or fails exactly one "
        "check family (it sits next to the acceptance boundary), or is a constructor probe")
ASSUMPTIONS = ["usize is 64 bit; release build (wrapping arithmetic) - C28_policy_no_panic shows a build with overflow checks "
               "gives the same results",
               "constructors: the other arguments are valid (count 1, matching inner circuit data, valid dummy template), so "
               "the config gate is the only modelled source of Err; the circuit build itself is outside the model",
               "CircuitConfig fields not read by the policy (num_constants, use_base_arithmetic_gate, proof_of_work_bits, "
               "reduction_strategy) stay at their standard_recursion_config values"]


def _fails(c):
    wires, routed, sec, chal, _zk, q, rate, cap, queries = c
    f = 0
    f += chal == 0
    f += sec == 0
    f += queries == 0
    f += wires < 135
    f += routed < 37
    f += routed > wires
    f += q < 7
    f += rate > 8
    f += cap > 8
    f += q >= 1 and rate < (q - 1).bit_length()
    return f


def nontrivial(case, model_out):
    if case.fid == "2802":
        return True
    if model_out.startswith("1"):
        return True
    segs = case.segs.split(";")
    if case.fid == "2801":
        c = [int(x, 16) for x in segs[0].split()]
        return len(c) == 9 and _fails(c) == 1
    if case.fid == "2803":
        # rejected flag set whose built config passes the policy, or fails just one check
        out = [int(x, 16) for x in model_out.split()]
        return len(out) == 10 and _fails(out[1:]) <= 1
    return True


def judge(case, model_out):
    names = {"2801": "validate_circuit_config", "2802": "a circuit/prover constructor", "2803": "AggConfigArgs validate/build",
             "2804": "a canonical config"}
    what = names.get(case.fid, case.fid)
    if case.out == "-1":
        return ("violates", "%s panicked" % what)
    if case.fid == "2802" and case.out == "-3":
        return ("violates", "a constructor rejected a failing config only after doing builder work "
                            "(more than 16 KiB of heap or more than 5 ms before the Err)")
    if case.fid == "2803" and case.out.startswith("1 "):
        built = [int(x, 16) for x in case.out.split()[1:]]
        if len(built) == 9 and _fails(built) > 0:
            return ("violates", "the CLI accepted a flag set whose built config fails the structural policy")
    if case.fid == "2802" and case.out == "1" and model_out == "0":
        return ("violates", "a constructor accepted (built) a config that fails the policy")
    return ("violates", "%s differs from the proved model on this input" % what)
