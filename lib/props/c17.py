"""C17 - artifact loaders accept only canonical circuits and bound their reads."""
import os
import re
import shutil
import subprocess
import tempfile
from concurrent.futures import ThreadPoolExecutor

from .. import vlib

GROUP = "loaders"
EXTRACTS = ["Loaders"]
# the harness leaves a few artifact directories here for the strace step (removed by extra_checks)
KEEP = os.path.join(tempfile.gettempdir(), "verif-c17-trace-%d" % os.getpid())
HARNESS = [("loaders", ["c17", KEEP])]
HARNESS_TIMEOUT = 2400
FIDS = [1701, 1702, 1703, 1704, 1706, 1710, 1711, 1712, 1713, 1714]
LEVEL = "proof"   # of the model; PARTIAL with respect to the property text: see LEVEL_NOTE (first entry of ASSUMPTIONS)
LEVEL_NOTE = ("decision logic of every loader proved over Sys/Loaders.v (accept iff canonical within the cap; size test before any "
              "read/hash; provers touch no prover artifact; extra files inert); file-system behaviour of the real loaders observed "
              "(strace, event-by-event against the model's log), keccak / plonky2 codecs / canonical rebuild are parameters")
RULE = ("harness/src/bin/loaders.rs rebuilds the canonical leaf, private-batch (n=1; thorough also n=2) and public-batch ((1,1),(2,1)) circuits from /repo "
        "and a full bins directory (generate_all_circuit_binaries(1, Some(1))), checks generated == rebuilt byte for byte, then feeds every "
        "loader: the canonical artifacts; truncations (1,2,8,half,all-but-one,all), extensions (00, ff, 8 zeros, itself), single-bit flips "
        "(first/last byte + evenly spaced positions with a seeded offset: ~120 per artifact for the keccak-pinned verifier, ~40 for the "
        "leaf byte pin, a seeded sample of 1-3 for the loaders that rebuild a recursive circuit (~40 CPU-s) on every call; thorough: "
        "every position / ~1000 / 8-12), artifacts of another "
        "shape (m=2; n=2 thorough), of another config (zk leaf; private batch under the public config thorough), of another circuit (fake leaf, swapped "
        "common/verifier-only), zeros, random, poisoned length fields; files: missing, sparse oversized (cap+1, 2^40, 2^41), at the cap; "
        "directories: extra files and bogus prover.bin / private_batch_prover.bin / public_batch_prover.bin, config.json variants, "
        "garbage/oversized templates; an oversized slice backed by PROT_NONE memory (any read kills the child). The strace step runs each "
        "prover/verifier loader on directories with planted prover artifacts and oversized files and compares the ordered stat/open "
        "sequence inside the directory with the model's log. distinct = distinct (loader, input); non-trivial = accepted, or rejected by "
        "the size cap or by the canonical pin (not by a missing file / bad count / bad template)")
ASSUMPTIONS = ["PARTIAL: " + LEVEL_NOTE,
               "keccak256 is a parameter; 'keccak-equal to the canonical rebuild' is proved, 'byte-identical' under the explicit premise "
               "that keccak does not collide on the two strings (C17_accept_only_canonical_leaf_verifier)",
               "the canonical serialisations (fresh rebuild), plonky2's from_bytes/to_bytes and decoded config test, the dummy-template "
               "validators and the config.json parser are parameters of the model; in the run they are the real functions, asked directly",
               "the public-batch artifacts are pinned semantically: accepted iff they decode, carry the canonical config and RE-serialise to "
               "the canonical bytes (trailing bytes after a complete encoding are therefore accepted, as the property text allows)",
               "the aggregator-side byte-slice entry points (load_canonical_*_verifier_data, *Prover::new_from_bytes) have no size cap of "
               "their own: they compare, never hash or deserialise, the untrusted slice; the cap applies to files (both crates) and to the "
               "verifier crate's slices",
               "result classes: Ok / size-cap error / canonical-pin error / other error (by stable substrings of the message)",
               "file model: claimed length (metadata) and contents are separate, so sparse and racing files are covered by the theorems; "
               "the run uses sparse files"]

NAMES = ["common.bin", "verifier.bin", "dummy_proof.bin", "private_batch_common.bin", "private_batch_verifier.bin",
         "dummy_private_batch_proof.bin", "public_batch_common.bin", "public_batch_verifier.bin", "config.json",
         "prover.bin", "private_batch_prover.bin", "public_batch_prover.bin"]
LOADER = {"1701": "WormholeVerifier::new_from_bytes", "1702": "WormholeVerifier::new_from_files",
          "1703": "load_canonical_leaf_verifier_data", "1704": "load_canonical_private_batch_verifier_data",
          "1706": "WormholeVerifier::new_from_bytes (unreadable oversized slice)",
          "1710": "PrivateBatchProver::new_from_binaries_dir", "1711": "PublicBatchProver::new_from_binaries_dir",
          "1712": "PublicBatchAggregator::new", "1713": "generate_private_batch_circuit_binaries",
          "1714": "generate_public_batch_circuit_binaries",
          "1720": "PrivateBatchProver::new_from_binaries_dir", "1721": "PublicBatchProver::new_from_binaries_dir",
          "1722": "PublicBatchAggregator::new", "1723": "WormholeVerifier::new_from_files", "1724": "wormhole_prover::build_fresh"}


def judge(case, model_out):
    what = LOADER.get(case.fid, case.fid)
    o, m = case.out.split(), model_out.split()
    if o and o[0] == "-1":
        return ("violates", "%s PANICKED on this input" % what)
    if case.fid == "1706":
        if len(o) > 2 and o[2] == "1":
            return ("violates", "%s touched (read/hashed) an oversized slice before rejecting it (C17_oversize_slice_rejected_first)" % what)
        if o[:2] != m[:2]:
            return ("violates", "%s does not reject an oversized slice with the size error first" % what)
    if o and o[0] == "1" and m and m[0] != "1":
        return ("violates", "%s ACCEPTS an artifact that is not the canonical one within the cap (C17_accept_only_canonical / "
                            "C17_accept_iff_*; model says %s)" % (what, model_out))
    if m and m[0] == "1" and o and o[0] != "1":
        return ("violates", "%s rejects the canonical artifacts of a fresh rebuild (C17_accept_iff_*; a stale pin?)" % what)
    if o[:2] == ["0", "3"] and m[:2] == ["0", "2"] or o[:2] == ["0", "2"] and m[:2] == ["0", "3"]:
        return ("violates", "%s applies the size cap and the canonical pin in a different order than the proved model "
                            "(C17_oversize_*_rejected_first)" % what)
    if len(o) > 2 or len(m) > 2:
        return ("violates", "%s touches the file system differently from the proved model (ordered stat/open log differs: "
                            "C17_no_prover_reads_a_prover_artifact / C17_oversize_file_never_read)" % what)
    return ("differs", "%s reports a different error class than the proved model (still a rejection)" % what)


def nontrivial(case, model_out):
    m = model_out.split()
    return bool(m) and (m[0] == "1" or m[:2] in (["0", "2"], ["0", "3"]))


# ----------------------------------------------------------------------------------------------- strace step
SYSCALLS = "openat,open,statx,stat,lstat,newfstatat,access,readlink"
LINE = re.compile(r'^\s*(?:\d+\s+)?(\w+)\((?:AT_FDCWD|-?\d+)?,?\s*"((?:[^"\\]|\\.)*)"(.*)$')


def _events(log, d):
    """ordered (kind, basename) of the file-name syscalls under directory d between the @@BEGIN and @@END markers"""
    ev, on = [], False
    for line in open(log, errors="replace"):
        if "resumed>" in line and '"' not in line.split("resumed>")[0]:
            continue
        mm = LINE.match(line)
        if not mm:
            continue
        sc, path, rest = mm.group(1), mm.group(2), mm.group(3)
        if path.endswith("@@BEGIN"):
            on = True
            continue
        if path.endswith("@@END"):
            on = False
            continue
        if not on or not (path == d or path.startswith(d + "/")):
            continue
        base = path[len(d) + 1:]
        if sc in ("openat", "open"):
            if "O_DIRECTORY" in rest:
                kind = "dir"
            elif "O_WRONLY" in rest or "O_RDWR" in rest or "O_CREAT" in rest:
                kind = "write"
            else:
                kind = "read"
        else:
            kind = "stat"
        ev.append((kind, base))
    return ev


def _ids(d):
    names = sorted(os.listdir(d))
    ids, extra = {}, 0
    for n in names:
        if n in NAMES:
            ids[n] = NAMES.index(n)
        else:
            ids[n] = 12 + extra
            extra += 1
    return ids


def _pins_from_source():
    src = open(os.path.join(vlib.REPO, "wormhole/verifier/src/lib.rs")).read()
    out = {}
    for name in ("CANONICAL_LEAF_VERIFIER_KECCAK256", "CANONICAL_LEAF_COMMON_KECCAK256"):
        m = re.search(r"const %s: \[u8; 32\] = \[(.*?)\];" % name, src, re.S)
        if not m:
            raise vlib.CheckError("pin %s not found in wormhole/verifier/src/lib.rs" % name)
        out[name] = [int(t, 16) for t in re.findall(r"0x([0-9a-fA-F]{2})", m.group(1))]
    return out


def extra_checks(tier, seed, consts):
    from ..runner import Violation
    viol, samples, distinct, evid = [], [], [], {}
    evaluations = 0
    binp = vlib.harness_bin("loaders")
    runs = [(0, "full"), (1, "full"), (2, "full"), (3, "full"), (4, "full"),
            (1, "oversized-pb-common"), (2, "oversized-pb-common"), (0, "oversized-verifier"), (3, "oversized-verifier-1mib")]
    if not os.path.isdir(KEEP):
        raise vlib.CheckError("trace directories missing: %s" % KEEP)

    def one(job):
        which, name = job
        d = os.path.join(KEEP, name)
        log = os.path.join(KEEP, "strace-%d-%s.log" % (which, name))
        env = dict(os.environ)
        env.update({"VERIF_SEED": str(seed), "VERIF_TIER": tier})
        p = subprocess.run(["strace", "-f", "-qq", "-e", "trace=" + SYSCALLS, "-o", log, binp, "trace", str(which), d],
                           stdout=subprocess.PIPE, stderr=subprocess.PIPE, text=True, timeout=1200, env=env)
        if p.returncode != 0:
            raise vlib.CheckError("strace run failed (%s %s): %s" % (which, name, p.stderr[-2000:]))
        cases, _ = vlib.parse_cases(p.stdout)
        if len(cases) != 1:
            raise vlib.CheckError("trace run printed %d cases" % len(cases))
        return job, cases[0], _events(log, d), _ids(d)

    try:
        with ThreadPoolExecutor(max_workers=4) as ex:
            results = list(ex.map(one, runs))
        lines, built = [], []
        for (which, name), c, ev, ids in results:
            enc = []
            touched_prover = [b for (k, b) in ev if "prover" in b]
            for kind, base in ev:
                i = ids.get(base, 99)
                enc.append({"stat": 100, "read": 200, "write": 400, "dir": 500}[kind] + i)
            c.out = (c.out + " " + " ".join("%x" % e for e in enc)).strip()
            c.tag = "%s:%s" % (LOADER[c.fid].split("::")[0], name)
            built.append((c, ev, touched_prover))
            lines.append(c.model_line())
        outs = vlib.run_model(GROUP, lines)
        traces = {}
        for (c, ev, touched_prover), m in zip(built, outs):
            evaluations += 1
            distinct.append((c.fid, c.tag))
            traces[c.tag + "/" + c.fid] = ["%s %s" % e for e in ev]
            if touched_prover:
                viol.append(Violation("%s touched a prover artifact: %s [strace, %s]" % (LOADER[c.fid], touched_prover, c.tag),
                                      case=c, model_out=m, found_input=True))
            elif m != c.out:
                kind, why = judge(c, m)
                viol.append(Violation("%s [fid %s, tag %s]" % (why, c.fid, c.tag), case=c, model_out=m, found_input=(kind == "violates")))
            if c.fid == "1723" and c.tag.endswith(":full"):
                # the two keccak pins of the verifier crate against the fresh rebuild
                segs = c.segs.split(";")
                rebuilt = {"CANONICAL_LEAF_VERIFIER_KECCAK256": [int(t, 16) for t in segs[6].split()],
                           "CANONICAL_LEAF_COMMON_KECCAK256": [int(t, 16) for t in segs[7].split()]}
                pins = _pins_from_source()
                evaluations += 2
                for k in pins:
                    okp = pins[k] == rebuilt[k]
                    evid["pin_%s_matches_rebuild" % k] = okp
                    if not okp:
                        viol.append(Violation("wormhole/verifier/src/lib.rs: %s is not the keccak256 of the freshly rebuilt canonical leaf "
                                              "artifact (source %s, rebuild %s)" % (k, bytes(pins[k]).hex(), bytes(rebuilt[k]).hex()),
                                              found_input=False))
        samples.append({"strace_event_logs": traces})
        evid["strace_runs"] = ["%s on %s" % (LOADER[str(1720 + w)], n) for w, n in runs]
    finally:
        shutil.rmtree(KEEP, ignore_errors=True)
    return {"evaluations": evaluations, "violations": viol, "samples": samples, "distinct": distinct, "evidence": evid}
