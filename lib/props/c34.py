"""C34 - the formal (Lean) spec's theorems hold and the code matches its definitions.

Two parts:
 * Coq: Properties/C34.v restates, FOR ALL inputs, that the private-batch circuit model's output equals the
   Gallina port (coq/Spec/LeanPort.v) of the Lean spec's executable definitions (grouped exit slots, first-real
   reference, nullifier ordering).
 * Tool run (reported as such): `lake build` of a copy of /repo/formal with the installed Lean 4.33, no `sorry`,
   `#print axioms` of every theorem (allowed: propext, Classical.choice, Quot.sound and the two documented axioms of
   Trusted.lean), and evaluation of the Lean definitions themselves (lean/Driver.lean) on the batches the wrapper harness
   explored, compared with what the REAL circuit output - this ties the Lean definitions to the code directly, and the
   Gallina port to the Lean source.
"""
import hashlib
import os
import re
import shutil
import subprocess
import tempfile

from lib import vlib
from lib.runner import Violation

GROUP = "wrappers"
EXTRACTS = ["Wrappers"]
EXTRA_BINS = ["hashd", "wrappers"]
HARNESS = [("wrappers", ["priv"])]
FIDS = [601]
LEVEL = "proof"
RULE = ("(a) Lean: every theorem of /repo/formal is re-checked by `lake build` (Lean 4.33), sorry-free, axioms audited; (b) the "
        "Lean executable definitions groupExits/maskedChildPairs, the first-real reference (find? isRealB) and nullifiersSorted "
        "are evaluated by lean/Driver.lean on every batch the private-wrapper harness run accepted (see C06 rule) and compared "
        "with the REAL circuit's output regions; (c) the same cases go through the Coq model whose equality with the Gallina port "
        "of those definitions is proved for all inputs. non-trivial = N >= 2")
ASSUMPTIONS = ["the Lean kernel run is a tool run, not a Coq proof", "lean-toolchain of the repo (4.30) is ignored; the installed 4.33 is used",
               "the two axioms of WormholeSpec/Trusted.lean (soundness of the proof system) are the spec's own trusted base"]

ALLOWED_AXIOMS = {"propext", "Classical.choice", "Quot.sound", "WormholeSpec.leaf_proof_sound", "WormholeSpec.private_batch_proof_sound"}


def nontrivial(case, model_out):
    return int(case.segs.split(";")[0].split()[0], 16) >= 2


def _formal_hash():
    h = hashlib.sha256()
    root = os.path.join(vlib.REPO, "formal")
    for d, _, files in sorted(os.walk(root)):
        if ".lake" in d:
            continue
        for f in sorted(files):
            p = os.path.join(d, f)
            h.update(p.encode())
            h.update(open(p, "rb").read())
    h.update(open(os.path.join(vlib.VERIF, "lean", "Driver.lean"), "rb").read())
    return h.hexdigest()[:16]


def _lean_dir():
    """a built copy of /repo/formal (+ Driver.lean), cached by content hash under .cache/lean"""
    hx = _formal_hash()
    base = os.path.join(vlib.CACHE, "lean")
    d = os.path.join(base, hx)
    if os.path.exists(os.path.join(d, ".built")):
        return d, True, ""
    if os.path.exists(base):
        shutil.rmtree(base, ignore_errors=True)
    os.makedirs(base, exist_ok=True)
    shutil.copytree(os.path.join(vlib.REPO, "formal"), d, ignore=shutil.ignore_patterns(".lake"))
    shutil.copy(os.path.join(vlib.VERIF, "lean", "Driver.lean"), os.path.join(d, "Driver.lean"))
    p = subprocess.run(["lake", "build"], cwd=d, stdout=subprocess.PIPE, stderr=subprocess.STDOUT, text=True, timeout=1500)
    if p.returncode != 0:
        return d, False, p.stdout[-3000:]
    open(os.path.join(d, ".built"), "w").write("ok")
    return d, True, p.stdout[-500:]


def extra_checks(tier, seed, consts):
    violations, samples, evidence = [], [], {}
    d, ok, log = _lean_dir()
    if not ok:
        violations.append(Violation("the Lean specification no longer type-checks (lake build failed)", found_input=False, detail=log))
        return {"evaluations": 0, "violations": violations, "evidence": {"lake_build": "FAILED"}}
    evidence["lake_build"] = "ok (%s)" % os.path.basename(d)
    # sorry / axioms audit
    srcs = []
    for root, _, files in os.walk(os.path.join(d, "WormholeSpec")):
        for f in files:
            if f.endswith(".lean"):
                srcs.append(os.path.join(root, f))
    sorry = [s for s in srcs if re.search(r"\bsorry\b", re.sub(r"--.*", "", open(s).read()))]
    if sorry:
        violations.append(Violation("`sorry` found in the Lean spec: %s" % sorry, found_input=False))
    ax = os.path.join(d, "VerifAxioms.lean")
    with open(ax, "w") as f:
        f.write("import Lean\nimport WormholeSpec\nopen Lean Elab Command\nrun_cmd do\n  let env \u2190 getEnv\n"
                "  for (n, ci) in env.constants.toList do\n    if n.getRoot == `WormholeSpec then\n      match ci with\n"
                "      | .thmInfo _ =>\n        let axs \u2190 Lean.collectAxioms n\n"
                "        logInfo m!\"THEOREM {n} AXIOMS {axs.toList}\"\n      | _ => pure ()\n")
    p = subprocess.run(["lake", "env", "lean", "VerifAxioms.lean"], cwd=d, stdout=subprocess.PIPE, stderr=subprocess.STDOUT, text=True, timeout=900)
    rows = re.findall(r"THEOREM (\S+) AXIOMS \[(.*?)\]", p.stdout)
    thms = [r[0] for r in rows]
    used = set(a.strip() for r in rows for a in r[1].split(",") if a.strip())
    bad_ax = sorted(a for a in used if a not in ALLOWED_AXIOMS)
    named = [t for t in re.findall(r"^theorem\s+([A-Za-z0-9_.']+)", "\n".join(open(x).read() for x in srcs), re.M)]
    missing = [t for t in named if not any(n.endswith("." + t) or n == t for n in thms)]
    if p.returncode != 0 or "sorryAx" in p.stdout or bad_ax or not rows or missing:
        violations.append(Violation("Lean axioms audit failed: rc=%s unexpected axioms=%s theorems not found in the environment=%s" % (
            p.returncode, bad_ax, missing[:5]), found_input=False, detail=p.stdout[-2000:]))
    evidence["lean_source_theorems"] = len(named)
    evidence["lean_theorems_checked"] = len(thms)
    evidence["lean_axioms_used"] = sorted(used)

    # Lean definitions vs the REAL circuit's output on the explored batches
    text = vlib.run_harness("wrappers", ["priv"], seed=seed, tier=tier)
    cases, _ = vlib.parse_cases(text)
    lines, keep = [], []
    for c in cases:
        if c.fid != "601" or not c.out.startswith("1 "):
            continue
        segs = c.segs.split(";")
        n = int(segs[0].split()[0], 16)
        leaves = [[int(t, 16) for t in s.split()] for s in segs[1:1 + n]]
        out = [int(t, 16) for t in c.out.split()[1:]]
        if len(out) != 21 * n + 8:
            continue
        # the spec (Nat arithmetic) and the bridge theorem speak about leaf-accepted statements: amounts below 2^32
        if any(l[1] >= 2 ** 32 or l[2] >= 2 ** 32 for l in leaves):
            continue
        nulls = out[8 + 10 * n: 8 + 14 * n]
        flat = [str(x) for l in leaves for x in l] + [str(x) for x in nulls]
        lines.append("%d %s" % (n, " ".join(flat)))
        keep.append((c, n, leaves, out))
        if len(lines) >= (4000 if tier == "thorough" else 600):
            break
    p = subprocess.run(["lake", "env", "lean", "--run", "Driver.lean"], cwd=d, input="\n".join(lines) + "\n", stdout=subprocess.PIPE,
                       stderr=subprocess.PIPE, text=True, timeout=1500)
    res = [l for l in p.stdout.split("\n") if l.startswith("slots")]
    if p.returncode != 0 or len(res) != len(lines):
        violations.append(Violation("the Lean driver failed (%s lines for %s cases)" % (len(res), len(lines)), found_input=False, detail=p.stderr[-2000:]))
        return {"evaluations": len(lines), "violations": violations, "evidence": evidence}
    mism = 0
    distinct = set()
    for (c, n, leaves, out), r in zip(keep, res):
        m = re.match(r"slots (.*?) \| ref (.*?) \| sorted (\d)", r)
        slots = [int(t) for t in m.group(1).split()]
        ref = m.group(2)
        ok = slots == out[8: 8 + 10 * n] and m.group(3) == "1"
        if ref == "none":
            ok = ok and out[3:8] == [0, 0, 0, 0, 0] and out[2] == 0
        else:
            rv = [int(t) for t in ref.split()]
            ok = ok and out[3:7] == rv[0:4] and out[7] == rv[4] and out[1] == rv[5] and out[2] == rv[6]
        if n >= 2:
            distinct.add(c.key())
        if not ok:
            mism += 1
            if mism <= 2:
                violations.append(Violation("the circuit's output differs from the Lean spec's executable definitions on this batch: lean says %s" % r[:400],
                                            case=c, found_input=True))
    if res:
        samples.append({"lean_case": lines[0][:300], "lean_result": res[0][:300]})
    evidence["lean_cases_evaluated"] = len(lines)
    evidence["lean_mismatches"] = mism
    return {"evaluations": len(lines), "violations": violations, "samples": samples, "distinct": list(distinct), "evidence": evidence}
