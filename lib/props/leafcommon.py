"""Shared by C01..C04: which clause does a leaf-circuit disagreement contradict?

All four properties are decided on the same leaf run (fid 101: direct assignments, honest and deviating; 102: hint
overrides; 105: fingerprint).  The statement of a 101 case is in its segments, so C01's clause (ranges + fee rule) can be
evaluated on it directly; the binding clauses (C02-C04) need Poseidon and are decided by the model.  Returning None
hands the case to the runner's default judge (fingerprint / override handling).
"""
U32 = 1 << 32


def _ints(s):
    out = []
    for t in s.split():
        neg = t.startswith("-")
        v = int(t[1:] if neg else t, 16)
        out.append(-v if neg else v)
    return out


def statement(case):
    segs = case.segs.split(";")
    asset, out1, out2, fee, inp, depth, ind, blockno = _ints(segs[0])[:8]
    tc = _ints(segs[2])
    return dict(asset=asset, out1=out1, out2=out2, fee=fee, inp=inp, depth=depth, blockno=blockno, tc=tc)


def c01_clause_holds(st):
    scalars = [st["asset"], st["out1"], st["out2"], st["fee"], st["inp"], st["blockno"]] + list(st["tc"])
    if any(not (0 <= x < U32) for x in scalars):
        return False, "a 32-bit scalar is out of range"
    if st["fee"] > 10000:
        return False, "fee above 10000 bps"
    if (st["out1"] + st["out2"]) * 10000 > st["inp"] * (10000 - st["fee"]):
        return False, "outputs exceed the input net of the fee"
    return True, ""


def _acc(out_hex):
    return out_hex.split()[:1] == ["1"]


def judge_for(pid):
    def judge(case, model_out):
        if case.fid != "101":
            return None
        ia, ma = _acc(case.out), _acc(model_out)
        try:
            ok, why = c01_clause_holds(statement(case))
        except Exception:
            return None
        if ia and not ma:
            if not ok:
                if pid == "C01":
                    return ("violates", "the real leaf circuit ACCEPTS a statement outside C01's clause (%s)" % why)
                return ("differs", "the real leaf circuit accepts a statement that only violates the range / fee clause "
                                   "(%s): C01's clause, not this property's" % why)
            if pid == "C01":
                return ("differs", "the real leaf circuit accepts a statement the model rejects, but its scalars are in range "
                                   "and the fee rule holds: a binding clause (C02-C04) is contradicted, not C01's")
            return ("violates", "the real leaf circuit ACCEPTS a statement that satisfies the range / fee clause and that the "
                                "model rejects: a binding (nullifier / address / Merkle / header / dummy decision) is not enforced")
        if ma and not ia:
            return ("differs", "the real leaf circuit REJECTS a statement the model accepts (completeness - C05's clause); "
                               "no statement outside this property's clause is accepted on this input")
        return ("violates", "the real leaf circuit accepts this statement with other public inputs than the model")
    return judge
