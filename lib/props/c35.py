"""C35 - transfer-proof JSON parsing is bounded and consistent with validation."""
GROUP = "config"
EXTRACTS = ["Config"]
HARNESS = [("config", ["c35"])]
FIDS = [3501, 3502]
LEVEL = "proof"
RULE = ("harness/src/bin/config.rs: JSON texts generated together with their decoded description - state root, node count, node "
        "length, total node length and index count at cap-1/cap/cap+1 (plain, \\u-escaped 6x, mixed multi-byte strings), raw "
        "length at 8 MiB-1/8 MiB/+1/+2 (whitespace or ignored-member padding; valid, over-cap and non-JSON content), escaped "
        "payloads on both sides of the raw cap, extra / duplicate (also via escaped keys) / missing / mistyped members, u64 "
        "boundaries, syntax errors, truncations, top-level arrays; plus validate() on directly built structs. "
        "Compared: Ok/raw-cap-error/parse-error class, the decoded lengths, and validate() of every accepted document. "
        "distinct = distinct (function id, description); non-trivial = the text is lexically well-formed (the visitors are "
        "reached) or exceeds the raw cap")
ASSUMPTIONS = ["serde_json lexing is not modelled: the harness states for each generated text whether it is lexically well-formed "
               "and what it decodes to (keys, value shapes, decoded byte lengths); the model covers the raw-length gate, the "
               "derived map/seq visitor (unknown, duplicate, missing members), the bounded field visitors and validate",
               "usize is 64 bit"]


def nontrivial(case, model_out):
    if case.fid == "3502":
        return True
    hd = case.segs.split(";")[0].split()
    return (len(hd) > 1 and hd[1] != "0") or model_out == "0 1"


def judge(case, model_out):
    if case.out == "-1":
        return ("violates", "the parser / validate panicked")
    o = case.out.split()
    if case.fid == "3501" and len(o) > 1 and o[0] == "1" and o[1] == "0":
        return ("violates", "an accepted document fails the standalone validate()")
    if case.fid == "3501" and o[0] == "1" and model_out.startswith("0"):
        return ("violates", "the parser accepted a document the caps exclude")
    return ("violates", "implementation result differs from the proved model on this input")
