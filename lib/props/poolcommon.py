"""Shared by C19..C22: attribution of a pool-history disagreement to an operation / a clause.

The pool harness and the Coq model print one frame per op: [len(ret), ret.., len(rest), rest..] with
rest = [verifier-call delta, window age, verifies in window, len, buckets, <buckets>, <index>, <stats>].
All four properties are decided on the same histories against the same model, so when the correspondence breaks the
question "does THIS property fail on this history" is answered per property here; if not, the property is still
reported (its theorem is about a model the code no longer follows) but with no-failing-input-found.
"""


def ints(s):
    out = []
    for t in s.split():
        neg = t.startswith("-")
        v = int(t[1:] if neg else t, 16)
        out.append(-v if neg else v)
    return out


def frames(out_hex):
    """-> list of (ret, rest); a trailing None marks a panic / ill-formed tail"""
    v = ints(out_hex)
    fr, i = [], 0
    while i < len(v):
        n = v[i]
        if n < 0 or i + 1 + n >= len(v) + 0 and False:
            fr.append(None)
            return fr
        if n < 0:
            fr.append(None)
            return fr
        ret = v[i + 1:i + 1 + n]
        j = i + 1 + n
        if j >= len(v) or v[j] < 0:
            fr.append(None)
            return fr
        m = v[j]
        rest = v[j + 1:j + 1 + m]
        if len(ret) != n or len(rest) != m:
            fr.append(None)
            return fr
        fr.append((ret, rest))
        i = j + 1 + m
    return fr


def ops_of(case):
    return [ints(seg) for seg in case.segs.split(";")[1:] if seg.strip()]


def config_of(case):
    c = ints(case.segs.split(";")[0])
    return dict(max_proofs=c[0], max_buckets=c[1], batch=c[2], budget=c[3], window=c[4], leaves=c[5], pi_len=c[6])


def first_divergence(case, model_out):
    a, b = frames(case.out), frames(model_out)
    for i in range(max(len(a), len(b))):
        x = a[i] if i < len(a) else None
        y = b[i] if i < len(b) else None
        if x != y:
            return i, x, y
    return None, None, None


OPNAMES = {1: "push", 2: "evict_settled", 3: "evict_older_than", 4: "snapshot_batch", 5: "remove_bucket", 6: "advance clock",
           7: "bucket_stats"}


def op_at(case, i):
    ops = ops_of(case)
    return ops[i][0] if i is not None and i < len(ops) and ops[i] else None


def parse_state(rest):
    """rest -> dict, or None when it does not parse"""
    try:
        p = [0]

        def take(n=1):
            r = rest[p[0]:p[0] + n]
            if len(r) != n:
                raise ValueError
            p[0] += n
            return r
        delta, = take()
        win_age, verifs, length, nb = take(4)
        buckets = []
        for _ in range(nb):
            key = tuple(take(6))
            snap = None
            if take()[0] == 1:
                snap = take()[0]
            np_, = take()
            proofs = []
            for _ in range(np_):
                tag, nn = take(2)
                nulls = [tuple(take(4)) for _ in range(nn)]
                vol, age = take(2)
                proofs.append(dict(tag=tag, nulls=nulls, vol=vol, age=age))
            buckets.append(dict(key=key, snap=snap, proofs=proofs))
        ni, = take()
        index = [(tuple(take(4)), tuple(take(6))) for _ in range(ni)]
        ns_, = take()
        stats = []
        for _ in range(ns_):
            key = tuple(take(6))
            num, batch, oldest, volume = take(4)
            snap = None
            if take()[0] == 1:
                snap = take()[0]
            stats.append(dict(key=key, num=num, batch=batch, oldest=oldest, volume=volume, snap=snap))
        if p[0] != len(rest):
            return None
        return dict(delta=delta, win_age=win_age, verifs=verifs, len=length, nb=nb, buckets=buckets, index=index, stats=stats)
    except Exception:
        return None


U64 = (1 << 64) - 1


def invariant_failure(cfg, st):
    """C20's clauses evaluated on one observed implementation state; None when they all hold"""
    # a proof's own nullifier list may repeat a value (the property speaks about two proofs); the index is a map
    per_proof = [(set(q["nulls"]), b["key"]) for b in st["buckets"] for q in b["proofs"]]
    pooled = [(n, k) for ns_, k in per_proof for n in ns_]
    nulls = [n for n, _ in pooled]
    if len(set(nulls)) != len(nulls):
        return "two pooled proofs share a nullifier"
    if len(set(n for n, _ in st["index"])) != len(st["index"]):
        return "the nullifier index maps one nullifier twice"
    if sorted(pooled) != sorted(st["index"]):
        return "the nullifier index is not exactly the pooled proofs' nullifiers mapped to their buckets"
    if any(not b["proofs"] for b in st["buckets"]):
        return "an empty bucket is kept"
    total = sum(len(b["proofs"]) for b in st["buckets"])
    if st["len"] != total or st["nb"] != len(st["buckets"]):
        return "len()/num_buckets() disagree with the pooled contents"
    if total > cfg["max_proofs"] or len(st["buckets"]) > cfg["max_buckets"]:
        return "proof or bucket count exceeds its limit"
    if len(st["stats"]) != len(st["buckets"]):
        return "bucket_stats has a different number of buckets"
    for b, s in zip(st["buckets"], st["stats"]):
        if b["key"] != s["key"] or s["num"] != len(b["proofs"]) or s["batch"] != cfg["batch"]:
            return "bucket_stats count/key/batch size mismatch"
        if s["volume"] != min(U64, sum(q["vol"] for q in b["proofs"])):
            return "bucket_stats volume is not the saturating sum of the pooled volumes"
        if s["oldest"] != max(q["age"] for q in b["proofs"]):
            return "bucket_stats oldest age mismatch"
        if s["snap"] != b["snap"]:
            return "bucket_stats last snapshot age mismatch"
    return None


def describe(case, i):
    o = op_at(case, i)
    return "op #%s (%s)" % (i, OPNAMES.get(o, "?"))


def judge_c19(case, model_out):
    i, x, y = first_divergence(case, model_out)
    if x is None and i is not None:
        return ("violates", "the pool panicked / produced no observation at %s" % describe(case, i))
    if op_at(case, i) == 1:
        return ("violates", "admission differs from the documented rules at %s: implementation returned %s, model %s "
                            "(or the pool state after the push differs)" % (describe(case, i), x[0], y[0] if y else None))
    return ("differs", "the pool no longer follows the proved model (first disagreement at %s, not an admission); "
                       "admission decisions on this history agree up to that point" % describe(case, i))


def judge_c20(case, model_out):
    cfg = config_of(case)
    for k, f in enumerate(frames(case.out)):
        if f is None:
            return ("violates", "the pool panicked / produced no observation at %s" % describe(case, k))
        st = parse_state(f[1])
        if st is None:
            return ("differs", "observation frame %d does not parse" % k)
        why = invariant_failure(cfg, st)
        if why:
            return ("violates", "state invariant broken after %s: %s" % (describe(case, k), why))
    i, _, _ = first_divergence(case, model_out)
    return ("differs", "the pool no longer follows the proved model (first disagreement at %s); every observed "
                       "implementation state still satisfies the invariants and statistics clauses" % describe(case, i))


def judge_c21(case, model_out):
    i, x, y = first_divergence(case, model_out)
    if x is None and i is not None:
        return ("violates", "the pool panicked / produced no observation at %s" % describe(case, i))
    if op_at(case, i) in (2, 3, 4, 5):
        return ("violates", "%s removes / returns / reports something else than the proofs it targets: implementation "
                            "returned %s, model %s (or the pool contents afterwards differ)" % (
                                describe(case, i), x[0][:12], (y[0][:12] if y else None)))
    return ("differs", "the pool no longer follows the proved model (first disagreement at %s, not a removal or "
                       "snapshot)" % describe(case, i))


def _budget_view(case, out_hex):
    v = []
    for k, f in enumerate(frames(out_hex)):
        if f is None:
            v.append(None)
            break
        ret, rest = f
        push = (ret[:2] if ret and ret[0] == 0 else ret[:1]) if op_at(case, k) == 1 else []
        v.append((tuple(push), tuple(rest[:3])))
    return v


def judge_c22(case, model_out):
    a, b = _budget_view(case, case.out), _budget_view(case, model_out)
    for k in range(max(len(a), len(b))):
        x = a[k] if k < len(a) else None
        y = b[k] if k < len(b) else None
        if x != y:
            return ("violates", "verification accounting differs at %s: implementation (push result, [verifier calls, "
                                "window age, verifications in window]) = %s, model %s" % (describe(case, k), x, y))
    i, _, _ = first_divergence(case, model_out)
    return ("differs", "the pool no longer follows the proved model (first disagreement at %s); verifier calls, window "
                       "age, window counter and push verdicts agree with the model on the whole history" % describe(case, i))
