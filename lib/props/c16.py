"""C16 - padding templates are accepted only with the complete dummy sentinel."""
GROUP = "preflight"
EXTRACTS = ["Preflight"]
HARNESS = [("provers", ["c16"])]
FIDS = [1601, 1602]
LEVEL = "proof"
HARNESS_TIMEOUT = 3000
ENTRY = {1: "validator fn (cfg forwarder)", 2: "PrivateBatchProver::new", 3: "PrivateBatchProver::new_from_bytes",
         4: "PrivateBatchProver::new_from_files", 5: "PrivateBatchProver::new_from_binaries_dir",
         6: "generate_private_batch_circuit_binaries(.., true)", 7: "PublicBatchProver::new", 8: "PublicBatchProver::new_from_bytes",
         9: "PublicBatchProver::new_from_files", 10: "PublicBatchProver::new_from_binaries_dir", 11: "PublicBatchAggregator::new/with_limits"}
RULE = ("harness/src/bin/provers.rs hands templates to every entry point and compares accept / reject-class (parse, block hash, outputs, "
        "asset, exit account, verification - from stable message substrings) with the Coq model. Leaf templates (fid 1601), fake 21-PI leaf "
        "circuit: VALID proofs of statements deviating in each single public-input position 0..20 (values 1, p-1, 2^32 where provable) "
        "and in random pairs, proofs tampered at every position, non-u32 scalars, wrong lengths - all at verify_dummy_leaf_template "
        "(forwarder) and a spread of them at PrivateBatchProver::new. Canonical leaf circuit (real leaf proofs: the canonical dummy, valid "
        "dummies with an exit account / asset 7 / another fee, a valid real statement, tampered proofs): all at "
        "generate_private_batch_circuit_binaries(dir, 1, true) (also checked: nothing is published on rejection) and, quick tier, one each at "
        "PrivateBatchProver::new_from_bytes / new_from_files / new_from_binaries_dir (every template at new_from_bytes in thorough; these "
        "rebuild the canonical circuit, seconds per call). Private-batch templates (fid 1602): genuine all-dummy private-batch proofs over "
        "the fake leaf (n = 1, 2; 3 thorough), an all-dummy proof with another asset in its header, a valid REAL batch proof, a leaf proof, "
        "every single position tampered (value 1; 2^32 on a sample), pairs, a real proof with zeroed block hash, wrong lengths - at "
        "verify_dummy_private_batch_template (forwarder) and at PublicBatchProver::new. THOROUGH ONLY (they need the canonical artifact set, "
        "~30 s + seconds per call): PublicBatchProver::new_from_bytes / new_from_files / new_from_binaries_dir and "
        "PublicBatchAggregator::new (= with_limits) with the canonical all-dummy template, a valid real canonical private-batch proof and "
        "tampered ones. distinct = distinct (entry point, template); non-trivial = the template has the right length (reaches the field "
        "checks) or is accepted")
ASSUMPTIONS = ["a template is abstracted to (public inputs as canonical u64, verifies under the pinned verifier?)",
               "parsing is the C24 model (PublicCircuitInputs / PrivateBatchPublicInputs ::try_from_u64_slice)",
               "'every entry point calls the validator before use' is conformance (differential run per entry point), not a theorem",
               "a proof that does not deserialize against the pinned common data counts as class 'verification'"]


def _ints(s):
    return [int(t, 16) for t in s.split()]


def judge(case, model_out):
    entry = ENTRY.get(_ints(case.segs.split(";")[0])[0], "?")
    what = "leaf" if case.fid == "1601" else "private-batch"
    if case.out == "-1":
        return ("violates", "%s PANICKED on this %s template" % (entry, what))
    if case.out.startswith("1") and not model_out.startswith("1"):
        return ("violates", "%s ACCEPTS a %s padding template that fails a sentinel / verification condition (model class %s; "
                            "C16_*_template_accept_iff, C16_single_deviation_rejected)" % (entry, what, model_out.split()[-1]))
    if model_out.startswith("1"):
        return ("violates", "%s REJECTS a %s template that verifies and carries the complete sentinel" % (entry, what))
    return ("violates", "%s rejects this %s template with class %s, the validator's order gives %s (0 = message not attributable to a "
                        "validator condition)" % (entry, what, case.out.split()[-1], model_out.split()[-1]))


def nontrivial(case, model_out):
    if model_out.startswith("1"):
        return True
    n = len(case.segs.split(";")[1].split()) - 1
    return n == 21 if case.fid == "1601" else (n >= 29 and (n - 8) % 21 == 0)
