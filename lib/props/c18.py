"""C18 - public-batch proofs are bound to the configured aggregator address."""
GROUP = "loaders"
EXTRACTS = ["Loaders"]
HARNESS = [("loaders", ["c18"])]
HARNESS_TIMEOUT = 2400
FIDS = [1801, 1802]
LEVEL = "proof"   # of the model; PARTIAL with respect to the property text: see LEVEL_NOTE (first entry of ASSUMPTIONS)
LEVEL_NOTE = ("the decision logic of ProvingContext::verify / prove_batch's self-check is proved over Sys/AddressBinding.v and run "
              "against the real aggregator; the proof system (what `verifies` means cryptographically) is a parameter")
RULE = ("harness/src/bin/loaders.rs (mode c18) generates a real bins directory (leaf -> private batch N=1 -> public batch M=1), proves a real "
        "non-dummy leaf, aggregates it, then calls ProvingContext::prove_batch under 2 (quick) / 5 (thorough) addresses (fixed + seeded "
        "random + all-zero + all-(p-1)) and ProvingContext::verify / PublicBatchAggregator::verify under those and 3 further contexts (a "
        "different fixed address, the random one with the last limb +1, with bit 0 of the first limb flipped) on: the valid proofs; the "
        "same with non-canonical limb representation; each address limb +1; the address rewritten to each context's (cryptographically "
        "invalid but address-matching); tampered non-address public inputs; lengths -1/+1/0/1/3/4/5/11/12, address dropped; wrong length "
        "AND wrong address; a broken opening; a private-batch proof with the address in front. `verifies` is asked of an independently "
        "rebuilt canonical public-batch verifier. distinct = distinct (entry point, context, public inputs); non-trivial = the proof has "
        "the expected length (the decision reaches the address comparison), or prove_batch returned a proof")
ASSUMPTIONS = ["PARTIAL: " + LEVEL_NOTE,
               "the proof system is a parameter: `verifies pf` is the verdict of plonky2's verify under the canonical public-batch verifier data",
               "prove_batch is modelled as: any outcome of (preflight, prover construction, commit, prove), then the self-check; only the "
               "self-check is the subject of C18",
               "error classes by stable message substrings: length / address / verification / other",
               "addresses are BytesDigest values (4 limbs below the field order); public inputs are compared as canonical field values"]


def judge(case, model_out):
    o, m = case.out.split(), model_out.split()
    what = "ProvingContext::verify" if case.fid == "1801" else "ProvingContext::prove_batch"
    if o and o[0] == "-1":
        return ("violates", "%s PANICKED (C18_verify_total)" % what)
    if case.fid == "1802":
        if o[:1] == ["1"]:
            return ("violates", "prove_batch RETURNED a proof that its own verification rejects (model: %s) - "
                                "C18_prove_batch_returns_verified" % model_out)
        return ("violates", "prove_batch withheld a proof that verifies and exposes the configured address")
    if o[:1] == ["1"] and m[:1] != ["1"]:
        kind = {"2": "of the wrong length", "3": "whose exposed address differs from the configured one", "4": "that does not verify"}.get(
            m[1] if len(m) > 1 else "", "that must be rejected")
        return ("violates", "verify ACCEPTS a proof %s (C18_verify_accepts_only_own_address)" % kind)
    if m[:1] == ["1"]:
        return ("violates", "verify rejects a valid proof exposing the configured address (C18_verify_iff)")
    if m[:2] == ["0", "3"] and o[:2] == ["0", "4"]:
        return ("violates", "verify consults the cryptographic verdict before the address check (C18_other_address_rejected_even_if_valid: "
                            "the address error must come first)")
    return ("differs", "verify rejects with a different error class than the proved model")


def nontrivial(case, model_out):
    m = model_out.split()
    return m[:1] == ["1"] or (len(m) > 1 and m[1] in ("3", "4"))
