"""C33 - secret material is scrubbed before its memory is released.

What decides the property for the real binary is the ALLOCATOR SCAN (harness/src/bin/zeroize.rs, release build):
a `#[global_allocator]` that tracks every block allocated during an API call sequence, flags the blocks that hold
the secret (32 secret bytes = little-endian image of the 8-bytes-per-felt encoding; the 64-byte image of the
4-bytes-per-felt encoding; every single 8-byte limb at aligned offsets; the invalid buffer given to Secret::new)
and classifies them when they are freed / reallocated: 1 scrubbed, 2 upstream pad10_to_rate buffer (whole-block
equality with the reconstructed image, nothing else is exempt), 3 freed with the secret, 4 reallocated with the
secret, 5 partial residue.  The observed (size, kind) list must equal `observe (run_seq codes)` of the Coq model.

What the Coq part (coq/Sys/Zeroize.v, coq/Properties/C33.v) adds, and what it does not: it proves, for ALL call
sequences of any length over the 37 modelled calls, that the *modelled* allocation discipline (capacity reserved up
front >= everything pushed, scrub-before-free wrappers, Secret::new zeroizing on both paths) never frees or
reallocates a block that holds the secret, that the only unscrubbed release is the distinguished upstream pad buffer
(exactly once per secret-hashing call, 128 / 64 bytes), and it pins the capacity arithmetic (3+4+2 <= 9, 32+32+8 <= 72,
4+4+2 = 10, 3+4 = 7, ...) to the constants generated from /repo, so a constant change that makes a buffer grow after
the secret was written breaks a proof.  It is a proof about a hand transcription of ~60 lines of Rust: it cannot see
whether the compiler keeps the zeroizing stores, stack copies, allocator behaviour, or plonky2's own copies.  Without
the allocator scan it would be a restatement of the code comments; with it, it is the oracle the scan is compared to
and the reason why sequences longer than the tested ones need not be run.
"""
GROUP = "privacy"
EXTRACTS = ["Privacy"]
HARNESS = [("zeroize", [])]
FIDS = [3301, 3302, 3303]
LEVEL = "other"
RULE = ("harness/src/bin/zeroize.rs (release build, single thread, scanning global allocator): fid 3301 = API call "
        "sequences over a 37-call alphabet (Secret::new valid/invalid on a heap-held caller buffer, From<BytesDigest>/"
        "From<Digest>/TryFrom, expose_*, Nullifier/UnspendableAccount new, from_preimage/from_secret, From<&CircuitInputs>, "
        "to_bytes/from_bytes, to_field_elements/from_field_elements, their Err paths on a secret-bearing slice, every drop, and the public SensitiveFelts::new on a caller-built Vec whose capacity exceeds its length + reading it + dropping it), "
        "for 5 recognisable secrets (ASCII test pattern, counting bytes, limbs p-1, 0x11.., edge limbs) and 3 (quick) / 7 "
        "(thorough) random canonical secrets, random transfer_count: ALL sequences of length <= 2 for every secret, ALL "
        "of length 3 for the ASCII and the random secrets in quick (every secret in thorough) and 3000 sampled otherwise, "
        "plus random sequences of length 4..12 (with unknown codes) and the sequence of the repository's own test; "
        "fid 3302 = Secret::new on valid / non-canonical / boundary / random buffers (result class + buffer afterwards); "
        "fid 3303 = the model's Vec growth rule against real Vec<u8/u16/u64/u128/[u8;2048]>. "
        "distinct = distinct (fid, input); non-trivial = the model predicts at least one secret-bearing block event "
        "(3301), every 3302 case, a 3303 case with at least one non-empty extend")
ASSUMPTIONS = [
    "the Coq theorems are about the modelled allocation discipline only: compiler dead-store elimination, stack copies "
    "(the Secret itself, expose_* temporaries, Copy BytesDigest/Digest values, Poseidon2 state), allocator reuse and the "
    "copies plonky2 keeps (PartialWitness, prover data) are not expressible in the model",
    "for the real binary the evidence is the allocator scan on the sampled secrets and sequences (release profile of "
    "/verif/harness: opt-level 3, the zeroize crate's volatile writes); it observes heap blocks only, at alloc/free/"
    "realloc time and after each call, and only byte images of the secret (not decimal/hex renderings)",
    "secrets with a limb < 2^32 (incl. all-zero) are excluded from the scan: their limb image occurs in unrelated "
    "blocks; single limbs are searched at 8-aligned offsets only",
    "the upstream exemption is the whole-block image salt||secret||[transfer_count]||1||0.. of qp-plonky2's "
    "pad10_to_rate; fresh blocks are zero-filled by the scanning allocator so that stale bytes of that exempt buffer are "
    "not attributed to later blocks (i.e. allocator reuse of the exempt buffer's memory is not examined)",
    "fill_targets / proving (secret copied into PartialWitness) and Debug output are out of scope here (C32 for Debug)",
    "x86-64 little endian, 64-bit usize; Vec::with_capacity(n) allocates exactly n elements (checked by fid 3303)",
]

KINDS = {1: "freed after scrub", 2: "upstream pad buffer (exempt)", 3: "FREED while still containing the secret",
         4: "REALLOCATED while still containing the secret", 5: "freed/reallocated with a residue of the secret",
         7: "scanner table overflow", 9: "ill-formed model trace",
         21: "Secret::new left the caller's buffer non-zero", 22: "an API returned the wrong result class"}

OPS = ["Secret::new(valid)", "Secret::new(invalid)", "Secret::from(BytesDigest)", "Secret::from(Digest)", "Secret::try_from",
       "expose_*", "drop(Secret)", "Nullifier::new", "Nullifier::from_preimage", "Nullifier::from(&inputs)",
       "Nullifier::to_bytes", "Nullifier::from_bytes", "drop(nullifier bytes)", "Nullifier::to_field_elements",
       "Nullifier::from_field_elements", "drop(nullifier felts)", "drop(Nullifier)", "Nullifier::from_bytes(short)",
       "Nullifier::from_bytes(bad hash)", "Nullifier::from_field_elements(short)", "Nullifier::from_field_elements(bad count)",
       "UnspendableAccount::new", "UnspendableAccount::from_secret", "UnspendableAccount::from(&inputs)",
       "UnspendableAccount::to_bytes", "UnspendableAccount::from_bytes", "drop(account bytes)",
       "UnspendableAccount::to_field_elements", "UnspendableAccount::from_field_elements", "drop(account felts)",
       "drop(UnspendableAccount)", "UnspendableAccount::from_bytes(short)", "UnspendableAccount::from_bytes(bad id)",
       "UnspendableAccount::from_field_elements(short)",
       "SensitiveFelts::new(caller Vec, capacity 16 > len 10)", "Nullifier::from_field_elements(that wrapper)",
       "drop(that wrapper)"]


def _ints(s):
    out = []
    for t in s.split():
        neg = t.startswith("-")
        v = int(t[1:] if neg else t, 16)
        out.append(-v if neg else v)
    return out


def _pairs(s):
    v = _ints(s)
    return list(zip(v[0::2], v[1::2]))


def _seq(case):
    codes = _ints(case.segs.split(";")[0])
    return " ; ".join(OPS[c] if 0 <= c < len(OPS) else "nop(%d)" % c for c in codes) or "(empty)"


def judge(case, model_out):
    if case.fid == "3301":
        if case.out.strip() == "-1":
            return ("violates", "an API panicked during the call sequence %s" % _seq(case))
        for size, kind in _pairs(case.out):
            if kind in (3, 4, 5):
                return ("violates", "heap block of %d bytes still containing the secret %s during API sequence %s "
                                    "(model predicts: %s)" % (size, {3: "freed unscrubbed", 4: "reallocated unscrubbed",
                                                                     5: "released with a residue of the secret"}[kind],
                                                              _seq(case), _pairs(model_out)))
            if kind == 21:
                return ("violates", "Secret::new did not zero the caller's buffer (sequence %s)" % _seq(case))
            if kind == 22:
                return ("violates", "an API returned the wrong result class (Ok/Err) during sequence %s" % _seq(case))
        return ("violates", "the secret-bearing heap blocks observed by the allocator scan differ from the modelled ones "
                            "during API sequence %s: observed %s, model %s (kinds: %s)" % (
                                _seq(case), _pairs(case.out), _pairs(model_out), KINDS))
    if case.fid == "3302":
        o = _ints(case.out)
        if o and o[0] == -1:
            return ("violates", "Secret::new panicked")
        if len(o) == 33 and any(o[1:]):
            return ("violates", "Secret::new left the caller's buffer non-zero (%s path)" % ("Ok" if o[0] == 1 else "Err"))
        return ("violates", "Secret::new accepts/rejects differently from 'all four little-endian limbs < p', or wraps another value")
    return ("differs", "real Vec capacity growth differs from the model's grow_amortized rule (the model's realloc "
                       "predictions would be unreliable on this toolchain)")


def nontrivial(case, model_out):
    if case.fid == "3301":
        return model_out.strip() != ""
    if case.fid == "3302":
        return True
    segs = case.segs.split(";")
    return len(segs) > 1 and any(x != 0 for x in _ints(segs[1]))
