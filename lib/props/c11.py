"""C11 - recursive verification accepts only the canonical child circuit."""
GROUP = "loaders"
EXTRACTS = ["Loaders"]
HARNESS = [("recursion", [])]
HARNESS_TIMEOUT = 2400
FIDS = [1101, 1102, 1103, 1104, 1105]
LEVEL = "proof"   # of the model; PARTIAL with respect to the property text: see LEVEL_NOTE (first entry of ASSUMPTIONS)
LEVEL_NOTE = ("Coq proves the WIRING of the recursive layer (Circ/Recursion.v): every slot is verified against the one key fixed when the "
              "circuit is built, the constructors' public-input-count checks, and - under the explicit premises of knowledge soundness and "
              "'one circuit per proof' - unsatisfiability for foreign child proofs. The cryptographic step is a premise; that the "
              "verify_proof gadget rejects valid proofs of other circuits is validated by execution of the real circuits, not proved")
RULE = ("harness/src/bin/recursion.rs builds REAL PrivateBatchCircuit (N=1 over: test-helpers' fake leaf, a variant with one extra copy "
        "constraint [same CommonCircuitData, different key], a variant pair differing in one gate constant [same CommonCircuitData as each "
        "other], the canonical Wormhole leaf circuit; N=2 over the fake leaf) and PublicBatchCircuit (M=1 over the private-batch circuit of "
        "the fake leaf) and evaluates them (witness generation + every gate constraint on every row) on valid proofs of: the own child; "
        "circuits with one constraint removed / added, one constant changed, another degree, another public-input count, the canonical "
        "leaf vs the fake leaf (same config, same 21 inputs); one layer up: private-batch circuits over other leaves (same shape, other "
        "baked key) and a flat 29-input circuit; plus own-circuit proofs tampered after proving and wrapper-violating own proofs. The "
        "prover is adversarial: wires of the verifier-key region that the circuit leaves undetermined are set to the foreign circuit's "
        "key (fid 1105 counts them: 0). Constructors are called with child circuits of 0,1,20,21,22,29,50 public inputs and counts "
        "0,1,2,65 (thorough: +3,64,1000) under catch_unwind. distinct = distinct (fid, input); non-trivial = constructor cases with an "
        "in-range count (the public-input check decides), and every circuit evaluation")
ASSUMPTIONS = ["PARTIAL: " + LEVEL_NOTE,
               "PREMISE (not proved): knowledge soundness of plonky2 relative to the circuit identified by the verifier key - "
               "Verify vk pis pf = true -> produced_by vk pf",
               "PREMISE (not proved): a proof is a proof of one circuit (distinct circuits have distinct keys / circuit digests)",
               "modelling: the in-circuit verify_proof gadget is satisfiable exactly when native verification under the same key accepts; "
               "validated by the runs (own proofs accepted, foreign and invalid ones rejected), not proved",
               "the executable instance identifies a circuit by (circuit digest, constants-sigmas cap) and uses an ideal proof system "
               "(accepts exactly the valid proofs produced for the key), which meets both premises (C11_ex_premises_satisfiable)",
               "wrapper_ok (do the children's public inputs satisfy the wrapper constraints) is computed by the real wrapper builders over "
               "free public-input targets; the wrapper itself is the subject of C06-C10, C12, C13",
               "circuit configs passed to the constructors are valid (config policy: C28)"]


def judge(case, model_out):
    o, m = case.out.split(), model_out.split()
    if o[:1] == ["-1"]:
        return ("violates", "a constructor PANICKED instead of returning Err (C11_ctor_rejects_wrong_pi_len)")
    if case.fid in ("1101", "1102"):
        ctor = "PrivateBatchCircuit::new" if case.fid == "1101" else "PublicBatchCircuit::new"
        if o[:1] == ["1"]:
            return ("violates", "%s ACCEPTS a child circuit whose public-input count differs from the expected layout or an "
                                "out-of-range count (C11_ctor_*_iff)" % ctor)
        return ("violates", "%s refuses a correctly shaped child circuit (C11_ctor_*_iff)" % ctor)
    if case.fid == "1105":
        return ("violates", "the recursive layer leaves %s wires of the verifier-key region to the prover: the child verifier key is "
                            "not a constant of the circuit (C11_vk_is_constant)" % case.out)
    layer = "private-batch" if case.fid == "1103" else "public-batch"
    if o[:1] == ["1"]:
        return ("violates", "the %s circuit is SATISFIABLE with a child proof that is foreign / invalid / wrapper-violating "
                            "(C11_foreign_proof_unsatisfiable, C11_vk_is_constant) [%s]" % (layer, case.tag))
    return ("violates", "the %s circuit rejects valid proofs of its own child circuit [%s]" % (layer, case.tag))


def nontrivial(case, model_out):
    if case.fid in ("1101", "1102"):
        a = [int(t, 16) for t in case.segs.split(";")[0].split()]
        return all(1 <= c <= 64 for c in a[1:])
    return True
