"""C12 - public-batch wrapper."""
GROUP = "wrappers"
EXTRACTS = ["Wrappers"]
EXTRA_BINS = ["hashd"]
LEVEL = "proof"
ASSUMPTIONS = ["plonky2 primitive constraint relations transcribed from qp-plonky2 1.5.5 (Core.v/Prims.v), validated by these runs",
               "child public inputs are free inputs of the wrapper model; that they come from verified child proofs is C11's subject",
               "Poseidon2 is an uninterpreted H in the theorems; native hash_no_pad in the runs",
               "PLONK/FRI soundness+completeness relative to 'all gate and copy constraints hold' is trusted"]
PRIV_RULE = ("harness/src/bin/wrappers.rs: the REAL build_private_batch_constraints (cfg-gated forwarder) instantiated over free child "
             "public-input targets for N in {1,2,3,4,5,8} (thorough: up to 32): mostly-compatible batches over a small universe of "
             "accounts / nullifiers / blocks (so equal accounts, duplicate nullifiers real/real, real/dummy, dummy/dummy occur), "
             "amounts from {0,1,2^31-1,2^31,2^32-1,random}, with conflict patterns (asset / fee / block mismatch, duplicate nullifier, "
             "grouped sums near and over 2^32, amounts outside u32, all-dummy, all-real), random slot permutations for N<=4, an "
             "exhaustive small-domain sweep for N=2 (stride 7 quick / full 20736 thorough), and generator-output overrides (forged "
             "equality hints, forged comparator splits, forged sum bits) for N<=3. All gate constraints evaluated; accept/reject and all "
             "21N+8 outputs compared with the Coq model (hon/ovr); fid 605 = hint-generator fingerprint vs model trace. "
             "distinct = distinct (fid, input, overrides); non-trivial = N >= 2 or an override present")
HARNESS = [("wrappers", ["pub"]), ("recursive", ["pub"])]
FIDS = [1201, 1205]
RULE = ("harness/src/bin/wrappers.rs: the REAL build_public_batch_constraints (cfg-gated forwarder) over free inner public-input "
        "targets for (M,N) in {(1,1),(2,1),(3,1),(2,2),(3,2),(4,3)} (thorough: up to (16,4)): inner vectors with real/dummy mix, "
        "asset / fee / block mismatches on real and on dummy inners, differing block numbers and garbage count felts (must not "
        "matter), all-dummy; forged equality hints for M*N<=4. Compared: accept/reject and all 12+14MN outputs with the Coq model. "
        "distinct = distinct (fid, input, overrides); non-trivial = M >= 2 or an override present"
        ' Additionally harness/src/bin/recursive.rs (tags "full-recursive/..."): the FULL PublicBatchCircuit::new (wrapper + add_recursive_verifiers) for M in {1,2} (thorough: 3) over REAL private-batch proofs (N in {1,2}, real configuration, fake-leaf children), really proved and verified: consistent, dummy inners (all-dummy private batches proved by filling the circuit directly), dummy inner with another asset, all-dummy, block / related-digest / asset / fee mismatches between real inners (proving must fail), differing block numbers, one inner in every slot; out = public inputs of the real proof, or [0] when proving fails.')


def nontrivial(case, model_out):
    segs = case.segs.split(";")
    return int(segs[0].split()[0], 16) >= 2 or case.fid == "1202"

# fids whose cases apply hint overrides addressed by (generator kind, occurrence) - see runner.default_judge
OVERRIDE_FIDS = {"1202"}
