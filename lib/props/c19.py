"""C19 - pool admission decides exactly by the documented rules, in order."""
GROUP = "pool"
EXTRACTS = ["Pool"]
HARNESS = [("pool", [])]
FIDS = [1901]
LEVEL = "proof"
RULE = ("harness/src/bin/pool.rs: random operation histories (<= 40 ops; quick 3000, thorough 50000) on the real ProofPool over "
        "a fake private-batch circuit (1 or 2 leaves), limits max_proofs/max_buckets/batch in {1,2,3} (budget in {1,2,3}, sometimes "
        "4..8), windows 1 ns .. 1 h, virtual clock; pushes are valid / tampered / wrong-length / non-canonical / dummy-key proofs "
        "from a universe of 6 keys x 6 nullifiers (duplicates and bucket collisions frequent); after EVERY op the whole state "
        "(hook accessor), return value class, verifier-call delta and bucket_stats are compared with the Coq model; "
        "distinct = distinct histories; non-trivial = the history has an admitted push and a rejection that happened at or after "
        "cryptographic verification (reasons 5,6,7)")
ASSUMPTIONS = ["public inputs are u64 values (the Rust type); a proof is visible to the pool only through its public inputs and the verifier's verdict",
               "Instant is replaced by a virtual nanosecond clock (harness defines clock_gettime); usize is 64 bit",
               "configurations are those ProofPool::new accepts (wf_cfg) where a theorem says so"]


def tagbits(case):
    try:
        return int(case.tag.rsplit(":", 1)[1], 16)
    except Exception:
        return 0


def opcodes(case):
    return [seg.split()[0] for seg in case.segs.split(";")[1:] if seg.strip()]


def nontrivial(case, model_out):
    b = tagbits(case)
    # tag bits: 0 admitted, 1 rejected before the budget check, 2 budget, 3 verification, 4 bucket cap, 5 duplicate
    return bool(b & 1) and bool(b & ((1 << 3) | (1 << 4) | (1 << 5)))


from . import poolcommon as _pc


def judge(case, model_out):
    return _pc.judge_c19(case, model_out)
