"""C21 - pooled proofs leave only by settlement, expiry or explicit removal; snapshots pass the preflight."""
from .c19 import GROUP, EXTRACTS, HARNESS, LEVEL, ASSUMPTIONS, tagbits, opcodes

FIDS = [1901, 2102]
RULE = ("same histories as C19; every snapshot_batch result is additionally fed to the REAL preflight_private_batch_proofs "
        "(hook forwarder) and its verdict compared with the model's preflight; fid 2102 runs the real preflight against the model "
        "on arbitrary small proof vectors (accepting and all eight rejection kinds); distinct = distinct cases; non-trivial = a "
        "history with an admission and a snapshot or removal, or any 2102 case")


def nontrivial(case, model_out):
    if case.fid == "2102":
        return True
    ops = opcodes(case)
    return bool(tagbits(case) & 1) and any(o in ("2", "3", "4", "5") for o in ops)


from . import poolcommon as _pc


def judge(case, model_out):
    if case.fid != "1901":
        return ("violates", "the real preflight_private_batch_proofs decides differently from the model's preflight on this proof vector")
    return _pc.judge_c21(case, model_out)
