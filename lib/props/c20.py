"""C20 - pool state invariants hold after any history."""
from .c19 import GROUP, EXTRACTS, HARNESS, LEVEL, ASSUMPTIONS, tagbits, opcodes  # same harness run, same model

FIDS = [1901]
RULE = ("same histories as C19 (harness/src/bin/pool.rs); the whole internal state (buckets, per-proof nullifiers/volume/age, "
        "nullifier index, window, counter) and bucket_stats are compared after every op, so an implementation state violating "
        "the proved invariant cannot equal the model's; distinct = distinct histories; non-trivial = the history admits a proof "
        "and later runs a removal path (evict_settled / evict_older_than / remove_bucket)")


def nontrivial(case, model_out):
    ops = opcodes(case)
    return bool(tagbits(case) & 1) and any(o in ("2", "3", "5") for o in ops)


from . import poolcommon as _pc


def judge(case, model_out):
    return _pc.judge_c20(case, model_out)


def inspect(case, model_out):
    """C20's clauses evaluated directly on every observed implementation state (independent of the model)"""
    cfg = _pc.config_of(case)
    for k, f in enumerate(_pc.frames(case.out)):
        if f is None:
            return None
        st = _pc.parse_state(f[1])
        if st is None:
            return "observation frame %d of the implementation does not parse" % k
        why = _pc.invariant_failure(cfg, st)
        if why:
            return "state invariant broken after %s: %s" % (_pc.describe(case, k), why)
    return None
