#!/usr/bin/env python3
"""Self-mutation campaign (development tool, not a registered check).

Runs in a relocated copy of /verif (/tmp/verif-alt, made with rsync + path rewrite) against a scratch worktree of
/repo (/tmp/repo-alt), so that /repo itself is never touched.  For each mutation: apply a textual replacement,
run the named quick checks, classify the result (found-input / no-failing-input / MISS), restore.

usage: selfmut.py <campaign.json> [id-prefix ...]      results appended to /tmp/selfmut-results.jsonl
campaign entry: {"id":..., "file":..., "old":..., "new":..., "checks":[...], "note":...}
"""
import json
import os
import subprocess
import sys
import time

ALT_VERIF = "/tmp/verif-alt"
ALT_REPO = "/tmp/repo-alt"


def run(cmd, **kw):
    return subprocess.run(cmd, stdout=subprocess.PIPE, stderr=subprocess.STDOUT, text=True, **kw)


def main():
    camp = json.load(open(sys.argv[1]))
    want = sys.argv[2:]
    env = dict(os.environ, VERIF_REPO=ALT_REPO, CARGO_NET_OFFLINE="true")
    for m in camp:
        if want and not any(m["id"].startswith(w) for w in want):
            continue
        run(["git", "-C", ALT_REPO, "checkout", "--", "."])
        path = os.path.join(ALT_REPO, m["file"])
        src = open(path).read()
        if src.count(m["old"]) != 1:
            print("%s: pattern occurs %d times, skipped" % (m["id"], src.count(m["old"])), flush=True)
            continue
        open(path, "w").write(src.replace(m["old"], m["new"]))
        res = {}
        for c in m["checks"]:
            t0 = time.time()
            p = run([os.path.join(ALT_VERIF, "check"), c, "quick"], env=env, cwd=ALT_VERIF)
            lines = [l for l in p.stdout.split("\n") if l.startswith(("VIOLATION", "OK ", "KNOWN-FINDING"))]
            viol = [l for l in lines if l.startswith("VIOLATION")]
            if not viol:
                verdict = "MISS" if p.returncode == 0 else "ERROR rc=%d %s" % (p.returncode, p.stdout[-300:])
            elif any(not l.endswith("no-failing-input-found") for l in viol):
                verdict = "found-input"
            else:
                verdict = "no-failing-input"
            what = ""
            whats = []
            for l in viol:
                try:
                    rp = l.split("replay=")[1].split()[0]
                    w = json.load(open(rp)).get("what", "")
                    whats.append(("[no-input] " if l.endswith("no-failing-input-found") else "[INPUT] ") + w[-110:])
                except Exception:
                    pass
            what = " || ".join(whats)
            res[c] = {"verdict": verdict, "s": round(time.time() - t0), "what": what}
            print("%s %s: %s (%ds) %s" % (m["id"], c, verdict, time.time() - t0, what), flush=True)
        with open("/tmp/selfmut-results.jsonl", "a") as f:
            f.write(json.dumps({"id": m["id"], "note": m.get("note", ""), "file": m["file"], "old": m["old"],
                                "new": m["new"], "results": res}) + "\n")
        run(["git", "-C", ALT_REPO, "checkout", "--", "."])


if __name__ == "__main__":
    main()
