#!/usr/bin/env python3
"""Render /tmp/selfmut-results.jsonl (latest result per mutation id) into selfmut/RESULTS.md."""
import json
import os
import sys

src = sys.argv[1] if len(sys.argv) > 1 else "/tmp/selfmut-results.jsonl"
EQUIVALENT = {
    "L12-diff-63-bits": "equivalent: a negative rhs - lhs is >= 2^63 in Goldilocks and a legitimate one is < 2^46",
    "Q06-fee-ref-from-last-real": "equivalent: the fee relation forces every real inner to carry the reference fee",
    "J01-escaped-state-root-unbounded": "equivalent through the only parse path: serde_json::from_str never calls visit_string (escaped strings arrive through visit_str from the scratch buffer)",
    "J04-escaped-node-unbounded": "equivalent through the only parse path (same reason as J01)",
}
rows, first = {}, {}
for l in open(src):
    d = json.loads(l)
    first.setdefault(d["id"], d)
    rows[d["id"]] = d
out = ["# Self-mutation campaign results", "",
       "One-line source mutations written by the author of the checks (NOT independent - the independent ones are under",
       "seeded/), applied to a scratch worktree of /repo and run against a relocated copy of /verif (lib/selfmut.py).",
       "`first` is the verdict when the mutation was first tried, `now` after any strengthening of the generators.",
       "found-input = VIOLATION with a failing input; no-failing-input = VIOLATION ... no-failing-input-found (structural",
       "alarm only); MISS = the check passed.", "",
       "| id | file | check | first | now | note |", "|---|---|---|---|---|---|"]
for k in sorted(rows):
    d, f = rows[k], first[k]
    for c, r in d["results"].items():
        fv = f["results"].get(c, {}).get("verdict", "-")
        out.append("| %s | %s | %s | %s | %s | %s |" % (k, os.path.basename(d["file"]), c, fv, r["verdict"], EQUIVALENT.get(k, d.get("note", ""))))
open(os.path.join(os.path.dirname(os.path.dirname(os.path.abspath(__file__))), "selfmut", "RESULTS.md"), "w").write("\n".join(out) + "\n")
print(len(rows), "mutations")
