"""Orchestration for /verif checks: build (Coq, extracted model, Rust harness), audit, run, diff, evidence.

Everything a registered check needs is rebuilt from files on disk: the Rust harness is compiled against
/repo's *current working tree* (path dependencies), the generated constants are re-derived from it, the
Coq development is re-made (a no-op when nothing moved) and its assumptions are re-audited.
"""
import hashlib
import json
import os
import re
import subprocess
import sys
import time
from concurrent.futures import ThreadPoolExecutor

VERIF = os.path.dirname(os.path.dirname(os.path.abspath(__file__)))
REPO = os.environ.get("VERIF_REPO", "/repo")
CACHE = os.path.join(VERIF, ".cache")
TARGET = os.path.join(CACHE, "target")
COQ = os.path.join(VERIF, "coq")
MODEL = os.path.join(VERIF, "model")
HARNESS = os.path.join(VERIF, "harness")
EVIDENCE = os.path.join(VERIF, "evidence")
REPLAYS = os.path.join(VERIF, "replays")
GUARD = "quantus_network_qp_zk_circuits_verif"
NCPU = os.cpu_count() or 4

ALLOWED_AXIOMS = set()  # none: every property theorem must be "Closed under the global context"

FORBIDDEN = re.compile(
    r"\b(Admitted|admit|Axiom|Axioms|Parameter|Parameters|Conjecture|Conjectures|Unset\s+Guard|bypass_check|"
    r"type-in-type|impredicative-set|Admit\s+Obligations|give_up)\b")


class CheckError(Exception):
    """Infrastructure failure (not a verdict about the property)."""


def log(*a):
    print(*a, file=sys.stderr, flush=True)


def sh(cmd, cwd=None, timeout=3600, env=None, check=True, input=None):
    e = dict(os.environ)
    e.setdefault("CARGO_NET_OFFLINE", "true")
    if env:
        e.update(env)
    t0 = time.time()
    p = subprocess.run(cmd, cwd=cwd, shell=isinstance(cmd, str), stdout=subprocess.PIPE, stderr=subprocess.PIPE,
                       timeout=timeout, env=e, input=input, text=True)
    if check and p.returncode != 0:
        raise CheckError("command failed (%s) in %.1fs: %s\n--- stdout\n%s\n--- stderr\n%s" % (
            p.returncode, time.time() - t0, cmd, p.stdout[-6000:], p.stderr[-6000:]))
    return p


# ----------------------------------------------------------------------------------------------- harness

def build_harness(bins=None, profile="release"):
    """cargo build of /verif/harness against /repo's working tree (hooks enabled through .cargo/config.toml)."""
    os.makedirs(CACHE, exist_ok=True)
    cmd = ["cargo", "build", "--offline"]
    if profile == "release":
        cmd.append("--release")
    for b in bins or []:
        cmd += ["--bin", b]
    env = {"CARGO_TARGET_DIR": TARGET}
    t0 = time.time()
    p = sh(cmd, cwd=HARNESS, env=env, check=False, timeout=3000)
    if p.returncode != 0:
        raise CheckError("harness build failed (does /repo still compile with --cfg %s?)\n%s" % (GUARD, p.stderr[-8000:]))
    return time.time() - t0


def harness_bin(name, profile="release"):
    return os.path.join(TARGET, profile, name)


def run_harness(name, args=(), seed=1, tier="quick", timeout=3000, profile="release", extra_env=None):
    env = {"VERIF_SEED": str(seed), "VERIF_TIER": tier, "RUST_BACKTRACE": "0"}
    if extra_env:
        env.update(extra_env)
    p = sh([harness_bin(name, profile)] + list(args), env=env, timeout=timeout, check=False)
    if p.returncode != 0:
        raise CheckError("harness %s %s exited %s\n%s" % (name, list(args), p.returncode, p.stderr[-4000:]))
    return p.stdout


class Case:
    __slots__ = ("fid", "tag", "segs", "out")

    def __init__(self, fid, tag, segs, out):
        self.fid, self.tag, self.segs, self.out = fid, tag, segs, out

    def model_line(self):
        return "%s|%s" % (self.fid, self.segs)

    def key(self):
        return (self.fid, self.segs)

    def to_json(self):
        return {"fid": int(self.fid), "tag": self.tag, "input_hex_segments": self.segs.split(";"), "impl_out_hex": self.out}


def parse_cases(text):
    cases, notes = [], {}
    for line in text.split("\n"):
        if not line:
            continue
        if line[0] == "#":
            k, _, v = line[1:].partition("\t")
            notes.setdefault(k, []).append(v)
            continue
        parts = line.split("\t")
        if len(parts) != 4:
            raise CheckError("malformed harness line: %r" % line[:200])
        cases.append(Case(parts[0], parts[1], parts[2], parts[3].strip()))
    return cases, notes


# ----------------------------------------------------------------------------------------------- constants

# private constants, parsed from the source text: (coq name, file, regex with one group, base)
PRIVATE_CONSTS = [
    ("INPUTS_GOLDILOCKS_ORDER", "wormhole/inputs/src/lib.rs", r"const GOLDILOCKS_ORDER: u64 = (0x[0-9A-Fa-f_]+);"),
    ("MERKLE_GOLDILOCKS_MODULUS", "common/src/zk_merkle.rs", r"const GOLDILOCKS_MODULUS: u64 = (0x[0-9A-Fa-f_]+);"),
    ("SER_BIT_32_LIMB_MASK", "common/src/serialization.rs", r"const BIT_32_LIMB_MASK: u64 = (0x[0-9A-Fa-f_]+);"),
    ("DIGEST_LOGS_FELTS", "wormhole/circuit/src/block_header/header.rs", r"const DIGEST_LOGS_FELTS: usize = (\d+);"),
]


def _parse_int(tok):
    tok = tok.replace("_", "")
    return int(tok, 16) if tok.lower().startswith("0x") else int(tok)


def gen_constants(extra_private=()):
    """Re-derive Generated/Constants.v from /repo (public constants through the compiled harness, private
    ones from the source text). Rewritten only when the content changes, so an unchanged tree is a make no-op."""
    vals = []
    out = sh([harness_bin("consts")]).stdout
    for line in out.strip().split("\n"):
        k, v = line.split("\t")
        if v.startswith("["):
            vals.append((k, [int(t) for t in v.strip("[]").split(";") if t]))
        else:
            vals.append((k, int(v)))
    for name, rel, rx in list(PRIVATE_CONSTS) + list(extra_private):
        src = open(os.path.join(REPO, rel)).read()
        m = re.search(rx, src)
        if not m:
            raise CheckError("constant extractor: %s not found in %s (pattern %s)" % (name, rel, rx))
        vals.append((name, _parse_int(m.group(1))))
    body = ["(* GENERATED on every run by lib/vlib.py:gen_constants from /repo - do not edit. *)",
            "From Coq Require Import ZArith List.", "Import ListNotations.", "Open Scope Z_scope.", ""]
    for k, v in vals:
        if isinstance(v, list):
            body.append("Definition %s : list Z := [%s]." % (k, "; ".join(str(t) for t in v)))
        else:
            body.append("Definition %s : Z := %d." % (k, v))
    text = "\n".join(body) + "\n"
    path = os.path.join(COQ, "Generated", "Constants.v")
    old = open(path).read() if os.path.exists(path) else None
    if old != text:
        os.makedirs(os.path.dirname(path), exist_ok=True)
        open(path, "w").write(text)
    return dict(vals)


# ----------------------------------------------------------------------------------------------- coq

def coq_makefile():
    mk = os.path.join(COQ, "Makefile")
    proj = os.path.join(COQ, "_CoqProject")
    if not os.path.exists(mk) or os.path.getmtime(mk) < os.path.getmtime(proj):
        sh(["coq_makefile", "-f", "_CoqProject", "-o", "Makefile"], cwd=COQ)


def ensure_extraction_dirs():
    """model/gen/ is build output (not committed): the directories the Extract/*.v files write into must exist."""
    import glob
    for f in glob.glob(os.path.join(COQ, "Extract", "*.v")):
        for rel in re.findall(r'Extraction\s+"([^"]+)"', open(f).read()):
            os.makedirs(os.path.dirname(os.path.normpath(os.path.join(COQ, rel))), exist_ok=True)


def coq_make(targets, timeout=1500):
    """Full .vo build of the given targets (never -vos/-vok). Returns (ok, output).
    A proof that no longer terminates in time (e.g. after a generated constant changed) counts as failed."""
    coq_makefile()
    ensure_extraction_dirs()
    try:
        p = sh(["make", "-j%d" % NCPU] + list(targets), cwd=COQ, check=False, timeout=timeout)
    except subprocess.TimeoutExpired:
        sh("pkill -f 'coqc.*-Q . V' || true", check=False)
        return False, "make %s: timed out after %ss" % (" ".join(targets), timeout)
    return p.returncode == 0, (p.stdout + p.stderr)


def property_theorems(pid):
    src = open(os.path.join(COQ, "Properties", pid + ".v")).read()
    src_nc = strip_coq_comments(src)
    return re.findall(r"^\s*(?:Theorem|Lemma|Corollary)\s+([A-Za-z0-9_']+)", src_nc, re.M)


def strip_coq_comments(s):
    out, depth, i = [], 0, 0
    while i < len(s):
        if s.startswith("(*", i):
            depth += 1
            i += 2
        elif s.startswith("*)", i) and depth > 0:
            depth -= 1
            i += 2
        else:
            if depth == 0:
                out.append(s[i])
            i += 1
    return "".join(out)


def grep_forbidden():
    bad = []
    for root, _, files in os.walk(COQ):
        for f in files:
            if not f.endswith(".v"):
                continue
            path = os.path.join(root, f)
            txt = strip_coq_comments(open(path).read())
            for n, line in enumerate(txt.split("\n"), 1):
                if FORBIDDEN.search(line):
                    bad.append("%s:%d: %s" % (os.path.relpath(path, COQ), n, line.strip()[:120]))
            # Variable / Hypothesis outside a section
            depth = 0
            for n, line in enumerate(txt.split("\n"), 1):
                if re.match(r"\s*Section\s+\w+", line):
                    depth += 1
                elif re.match(r"\s*End\s+\w+\s*\.", line) and depth > 0:
                    depth -= 1
                elif depth == 0 and re.match(r"\s*(Variable|Variables|Hypothesis|Hypotheses|Context)\b", line):
                    bad.append("%s:%d: %s outside a section" % (os.path.relpath(path, COQ), n, line.strip()[:80]))
    return bad


def audit_assumptions(pid, theorems, prop_files=None):
    """Print Assumptions of every property theorem, freshly, by compiling a tiny audit file."""
    d = os.path.join(CACHE, "audit")
    os.makedirs(d, exist_ok=True)
    path = os.path.join(d, "Audit_%s.v" % pid)
    lines = ["From V.Properties Require Import %s." % pf for pf in (prop_files or [pid])]
    for t in theorems:
        lines.append('Goal True. idtac "@@THEOREM %s". Abort.' % t)
        lines.append("Print Assumptions %s." % t)
    open(path, "w").write("\n".join(lines) + "\n")
    p = sh(["coqc", "-noglob", "-Q", COQ, "V", "-w", "-all", path], cwd=d, check=False, timeout=600)
    if p.returncode != 0:
        return None, p.stdout + p.stderr
    res, cur = {}, None
    for line in p.stdout.split("\n"):
        if line.startswith("@@THEOREM "):
            cur = line.split()[1]
            res[cur] = []
        elif cur is not None and line.strip():
            res[cur].append(line.rstrip())
    return res, p.stdout


def assumptions_ok(lines):
    txt = " ".join(lines)
    if "Closed under the global context" in txt:
        return True
    # otherwise every listed axiom must be allow-listed
    names = re.findall(r"^([A-Za-z0-9_.']+)\s*:", "\n".join(lines), re.M)
    return bool(names) and all(n in ALLOWED_AXIOMS for n in names)


# ----------------------------------------------------------------------------------------------- model

def build_model(group):
    """Compile the extracted model of `group` (coq/Extract/<Group>.v writes model/gen/<group>/model.ml)."""
    gdir = os.path.join(MODEL, "gen", group)
    ml = os.path.join(gdir, "model.ml")
    if not os.path.exists(ml):
        raise CheckError("extracted model missing: %s" % ml)
    exe = os.path.join(gdir, "modelrun")
    stamp = os.path.join(gdir, "stamp")
    uses_h = "dispatch_h" in open(os.path.join(gdir, "model.mli")).read()
    drv = "driver_h.ml" if uses_h else "driver.ml"
    h = hashlib.sha256()
    for f in (ml, os.path.join(gdir, "model.mli"), os.path.join(MODEL, drv)):
        h.update(open(f, "rb").read())
    dig = h.hexdigest()
    if os.path.exists(exe) and os.path.exists(stamp) and open(stamp).read() == dig:
        return exe
    sh(["cp", os.path.join(MODEL, drv), os.path.join(gdir, "driver.ml")])
    pk = ["-package", "unix", "-linkpkg"] if uses_h else []
    sh(["ocamlfind", "ocamlopt"] + pk + ["-inline", "100", "-w", "-a", "model.mli", "model.ml", "driver.ml", "-o", "modelrun"],
       cwd=gdir, timeout=1200)
    open(stamp, "w").write(dig)
    return exe


def run_model(group, lines, shards=None):
    """Evaluate the extracted model on the given `fid|segs` lines; returns the list of output lines."""
    exe = build_model(group)
    if not lines:
        return []
    shards = shards or min(NCPU, max(1, len(lines) // 200))
    size = (len(lines) + shards - 1) // shards
    parts = [lines[i:i + size] for i in range(0, len(lines), size)]

    def one(part):
        env = dict(os.environ)
        env["VERIF_HASHD"] = harness_bin("hashd")
        p = subprocess.run(["bash", "-c", "ulimit -s unlimited 2>/dev/null; exec %s" % exe], input="\n".join(part) + "\n",
                           stdout=subprocess.PIPE, stderr=subprocess.PIPE, text=True, timeout=3000, env=env)
        if p.returncode != 0:
            raise CheckError("modelrun failed: %s" % p.stderr[-2000:])
        out = p.stdout.split("\n")
        if out and out[-1] == "":
            out.pop()
        if len(out) != len(part):
            raise CheckError("modelrun returned %d lines for %d cases" % (len(out), len(part)))
        return out

    with ThreadPoolExecutor(max_workers=len(parts)) as ex:
        res = list(ex.map(one, parts))
    return [x for part in res for x in part]


# ----------------------------------------------------------------------------------------------- evidence / verdict

def write_evidence(pid, data):
    os.makedirs(EVIDENCE, exist_ok=True)
    path = os.path.join(EVIDENCE, pid + ".json")
    with open(path, "w") as f:
        json.dump(data, f, indent=1, sort_keys=True)
    return path


def write_replay(pid, payload):
    os.makedirs(REPLAYS, exist_ok=True)
    blob = json.dumps(payload, indent=1, sort_keys=True)
    name = "%s-%s.json" % (pid, hashlib.sha256(blob.encode()).hexdigest()[:12])
    path = os.path.join(REPLAYS, name)
    open(path, "w").write(blob)
    return path


def load_known_findings():
    path = os.path.join(VERIF, "known_findings.json")
    if not os.path.exists(path):
        return []
    return json.load(open(path)).get("findings", [])
