#!/bin/bash
# confirm_mutant.sh <id> <package> [extra cargo test args]: in the scratch worktree /tmp/mut-<id> (patch applied, demo present)
# run the demo with the patch (must fail), without it (must pass), and the touched package's own tests with it (must pass).
set -u
ID=$1; PKG=$2; shift 2
P=${MUT_PREFIX:-mut}; WT=/tmp/$P-$ID; OUT=/tmp/$P-$ID-out
export CARGO_NET_OFFLINE=true CARGO_TARGET_DIR=$WT/target
cd $WT || exit 2
LOG=$OUT/confirm.log; : > $LOG
run() { echo "### $*" >> $LOG; "$@" >> $LOG 2>&1; echo "### exit=$?" >> $LOG; }
git apply --check -R $OUT/patch.diff 2>/dev/null || git apply $OUT/patch.diff
run cargo test --offline --release -p $PKG --test mutant_demo "$@"
P1=$(tail -1 $LOG)
if [ -n "${SKIP_LIB:-}" ]; then echo "### package lib tests skipped by the lead (time); the sub-agent reported them" >> $LOG; P3="skipped"; else run cargo test --offline --release -p $PKG --lib; P3=$(tail -1 $LOG); fi
git apply -R $OUT/patch.diff
run cargo test --offline --release -p $PKG --test mutant_demo "$@"
P2=$(tail -1 $LOG)
git apply $OUT/patch.diff
echo "demo-with-patch: $P1 ; package-tests-with-patch: $P3 ; demo-without-patch: $P2"
