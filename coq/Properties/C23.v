(* C23 - artifact publication is atomic under failures and crashes.

   Model: V.Sys.Publish (commit_staging_dir_impl / generate_all_circuit_binaries of
   wormhole/circuit-builder/src/lib.rs over an abstract file system {output, staging, aside} x
   {Absent, Prev, New, File, PartPrev, PartNew}).  Fault vectors are arbitrary lists: one [rfault] per
   rename (normal / Err / die before / die after), one [mfault] per remove_dir_all (normal / Err /
   Err after a partial removal / die before / die half-way / die after), consumed in program order.
   [o] ranges over the three initial states of the property text: no output ([Absent]), an output
   directory holding the previous set ([Prev]), an output file ([File]). *)
From V.Base Require Import Common.
From V.Sys Require Import Publish PublishProofs.

(* The bound is derived, not assumed: no run makes more than 3 rename calls, and an arbitrary fault
   vector behaves exactly like its first 3 rename faults and first remove fault. *)
Theorem C23_fault_bound :
  forall (o : content) (rf : list rfault) (mf : list mfault),
    o = Absent \/ o = Prev \/ o = File ->
    run_publish o rf mf = run_publish o (firstn 3 rf) (firstn 1 mf) /\
    (renames_used (run_publish o rf mf) <= 3)%nat.
Proof. intros o rf mf Ho. split; [exact (run_publish_firstn o rf mf Ho)|exact (publish_renames_bound o rf mf Ho)]. Qed.

(* Publishing a complete staged set, every initial state, EVERY fault vector; [s] is the file system
   when the process returned or died.
   (a) the output path holds what it held before, or the complete new set, or nothing - never a mix;
   (b) if the previous contents are no longer at the output path, the new set is there, or both the
       previous set (aside path) and the new set (staging path) survive on disk;
   (c) Ok is reported only with the new set live, Err only with the new set not live. *)
Theorem C23_publish_safe :
  forall (o : content) (rf : list rfault) (mf : list mfault),
    o = Absent \/ o = Prev \/ o = File ->
    let r := run_publish o rf mf in
    let s := o_fs r in
    (f_out s = o \/ f_out s = New \/ f_out s = Absent) /\
    (f_out s <> o -> f_out s = New \/ (f_old s = o /\ f_stg s = New)) /\
    (o_verdict r = VOk -> f_out s = New) /\
    (o_verdict r = VErr -> f_out s <> New).
Proof. exact publish_safe. Qed.

(* "never a mix": an incomplete set (the only non-atomic operation is remove_dir_all) is never at the
   output path *)
Theorem C23_no_partial_output :
  forall (o : content) (rf : list rfault) (mf : list mfault),
    o = Absent \/ o = Prev \/ o = File ->
    f_out (o_fs (run_publish o rf mf)) <> PartPrev /\ f_out (o_fs (run_publish o rf mf)) <> PartNew.
Proof. exact publish_no_partial_output. Qed.

(* the staged set is discarded only when the output path holds its previous contents again (rollback,
   refused output file, failed move-aside); a first publication never loses the only copy *)
Theorem C23_new_set_not_lost :
  forall (o : content) (rf : list rfault) (mf : list mfault),
    o = Absent \/ o = Prev \/ o = File ->
    let s := o_fs (run_publish o rf mf) in
    f_out s = New \/ f_stg s = New \/ (o <> Absent /\ f_out s = o).
Proof. exact publish_new_set_not_lost. Qed.

(* "success is reported iff the new set is live", for every run in which the process lives to report *)
Theorem C23_success_iff_live :
  forall (o : content) (rf : list rfault) (mf : list mfault),
    o = Absent \/ o = Prev \/ o = File ->
    o_verdict (run_publish o rf mf) <> VCrashed ->
    (o_verdict (run_publish o rf mf) = VOk <-> f_out (o_fs (run_publish o rf mf)) = New).
Proof. exact publish_success_iff_live. Qed.

(* ... and only for those: dying right after the swap-in leaves the new set live, nothing reported *)
Theorem C23_success_iff_live_crash_refuted :
  exists o rf, (o = Absent \/ o = Prev \/ o = File) /\
    o_verdict (run_publish o rf []) = VCrashed /\ f_out (o_fs (run_publish o rf [])) = New.
Proof. exact crash_after_swap_in_live_unreported. Qed.

(* A failed generation (configuration rejected, staging directory not created, generation closure
   failed): Err-or-death but never Ok, output untouched, nothing moved; the staging directory is gone
   whenever its removal works. *)
Theorem C23_failed_generation :
  forall (o : content) (g : gen_outcome) (rf : list rfault) (mf : list mfault),
    g = GInvalidConfig \/ g = GStagingFail \/ g = GFail ->
    let r := run_generate o g rf mf in
    f_out (o_fs r) = o /\ f_old (o_fs r) = Absent /\ o_verdict r <> VOk /\ o_trace r = [] /\
    (f_stg (o_fs r) = Absent \/ f_stg (o_fs r) = PartNew) /\
    (match mf with [] => True | m :: _ => m = MOk end -> o_verdict r = VErr /\ f_stg (o_fs r) = Absent).
Proof. exact generate_failed. Qed.

(* without that proviso "no staging directory behind" is false: the partial stage stays when
   remove_dir_all itself fails (its result is discarded by the code) *)
Theorem C23_failed_generation_staging_refuted :
  exists o mf, (o = Absent \/ o = Prev \/ o = File) /\
    o_verdict (run_generate o GFail [] mf) = VErr /\ f_stg (o_fs (run_generate o GFail [] mf)) <> Absent.
Proof. exact generate_failed_staging_left. Qed.

(* the generation dying leaves the output untouched as well *)
Theorem C23_crashed_generation :
  forall (o : content) (rf : list rfault) (mf : list mfault),
    let r := run_generate o GCrash rf mf in
    f_out (o_fs r) = o /\ f_old (o_fs r) = Absent /\ o_verdict r = VCrashed /\ o_trace r = [].
Proof. exact generate_crashed. Qed.

(* the whole entry point (stage, then commit) satisfies (a)-(c) for every generation outcome *)
Theorem C23_generate_safe :
  forall (o : content) (g : gen_outcome) (rf : list rfault) (mf : list mfault),
    o = Absent \/ o = Prev \/ o = File ->
    let r := run_generate o g rf mf in
    let s := o_fs r in
    (f_out s = o \/ f_out s = New \/ f_out s = Absent) /\
    (f_out s <> o -> f_out s = New \/ (f_old s = o /\ f_stg s = New)) /\
    (o_verdict r = VOk -> f_out s = New) /\
    (o_verdict r = VErr -> f_out s <> New).
Proof. exact generate_safe. Qed.

(* a staging path that is not a directory is refused with nothing touched *)
Theorem C23_rejects_non_directory_staging :
  forall (o s0 : content) (rf : list rfault) (mf : list mfault),
    s0 = Absent \/ s0 = File ->
    run_commit o s0 rf mf = mkObs VErr (mkFs o s0 Absent) [].
Proof. exact commit_rejects_non_directory_staging. Qed.

(* ---- non-vacuity: concrete runs *)

(* a successful publish over a previous set: moved aside, swapped in, old copy removed *)
Example C23_ex_success :
  run_publish Prev [] [] = mkObs VOk (mkFs New Absent Absent) [(Out, Old); (Stg, Out)].
Proof. reflexivity. Qed.

(* failed swap-in: the previous set is rolled back, the redundant staged copy discarded; 3 renames (the bound is tight) *)
Example C23_ex_rollback :
  run_publish Prev [ROk; RFail] [] = mkObs VErr (mkFs Prev Absent Absent) [(Out, Old); (Stg, Out); (Old, Out)].
Proof. reflexivity. Qed.

(* failed swap-in and failed rollback: output empty, both copies on disk *)
Example C23_ex_double_fault :
  run_publish Prev [ROk; RFail; RFail] [] = mkObs VErr (mkFs Absent New Prev) [(Out, Old); (Stg, Out); (Old, Out)].
Proof. reflexivity. Qed.

(* the process dies between move-aside and swap-in *)
Example C23_ex_crash_between :
  run_publish Prev [RCrashAfter] [] = mkObs VCrashed (mkFs Absent New Prev) [(Out, Old)].
Proof. reflexivity. Qed.

(* the cleanup of the old copy dies half-way after a successful swap: new set live, incomplete old copy aside *)
Example C23_ex_cleanup_crash :
  run_publish Prev [] [MCrashPartial] = mkObs VCrashed (mkFs New Absent PartPrev) [(Out, Old); (Stg, Out)].
Proof. reflexivity. Qed.

(* an output *file* is rejected, left untouched, and the staged copy discarded *)
Example C23_ex_output_file :
  run_publish File [RFail] [] = mkObs VErr (mkFs File Absent Absent) [].
Proof. reflexivity. Qed.

(* first publication with a failing swap-in keeps the only copy *)
Example C23_ex_fresh_fail :
  run_publish Absent [RFail] [] = mkObs VErr (mkFs Absent New Absent) [(Stg, Out)].
Proof. reflexivity. Qed.

(* failed generation over an existing output *)
Example C23_ex_failed_generation :
  run_generate Prev GFail [] [] = mkObs VErr (mkFs Prev Absent Absent) [].
Proof. reflexivity. Qed.
