(* C34 (Coq part): the code matches the spec's definitions.  The Gallina port of the Lean executable
   definitions is coq/Spec/LeanPort.v; these statements say what that port IS (so a reader can compare
   it with formal/WormholeSpec/Aggregation.lean line by line) and re-prove the spec's conservation theorem
   for the port.  The bridge "circuit output = these definitions, for all inputs" is C06's main theorem
   (Properties/C06.v); the Lean side itself is checked by the tool run in lib/props/c34.py. *)
From Coq Require Import ZArith List Bool.
From V.Base Require Import Common.
From V.Circ Require Import Field Core PrivateBatch PrivateBatchProofs.
From V.Spec Require Import LeanPort.
Import ListNotations.
Open Scope Z_scope.

Theorem C34_port_maskedChildPairs : forall p rest,
  maskedChildPairs (p :: rest) =
    (if is_dummy_pb p then (zero4, 0) else (lf_exit1 p, lf_out1 p)) ::
    (if is_dummy_pb p then (zero4, 0) else (lf_exit2 p, lf_out2 p)) :: maskedChildPairs rest.
Proof. reflexivity. Qed.

Theorem C34_port_matchSum : forall k k' a' rest,
  matchSum k ((k', a') :: rest) = (if list_eqb k' k then a' else 0) + matchSum k rest.
Proof. reflexivity. Qed.

Theorem C34_port_groupAux : forall seen k a rest,
  groupAux seen ((k, a) :: rest) =
    (if dmem k seen then (0, zero4) else (a + matchSum k rest, k)) :: groupAux (k :: seen) rest.
Proof. reflexivity. Qed.

Theorem C34_port_groupExits : forall xs, groupExits xs = groupAux [] xs.
Proof. reflexivity. Qed.

Theorem C34_port_reference : forall leaves,
  ref_header leaves = match find is_real_pb leaves with
                      | Some p => (lf_fee p, lf_bh p, lf_bn p)
                      | None => (0, zero4, 0)
                      end.
Proof. reflexivity. Qed.

(* the bridge: for ALL batches (not only the explored ones) the circuit's grouped exit slots, first-real
   reference and nullifier ordering are the ported spec definitions *)
Theorem C34_circuit_matches_spec : forall H,
  (forall l, length (H l) = 4%nat /\ Forall canon (H l)) ->
  forall leaves us, (1 <= length leaves <= 64)%nat -> Forall leaf_wf leaves -> length us = length leaves ->
  forall post, rel H (private_batch leaves us) post <->
               priv_compat leaves = true /\ post (priv_output H leaves us).
Proof. exact private_batch_spec. Qed.

Theorem C34_spec_conservation : forall leaves,
  slotsTotal (groupExits (maskedChildPairs leaves)) = inputExitTotal leaves.
Proof. exact conservation. Qed.
