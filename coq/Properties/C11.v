(* C11 - Recursive verification accepts only the canonical child circuit.

   "A private-batch circuit built for the canonical leaf circuit is unsatisfiable for any child proof produced by a
    different circuit, including circuits with the same configuration and public-input count.  The same holds for a
    public-batch circuit and the canonical private-batch circuit.  Constructors refuse child circuits whose
    public-input count differs from the expected layout."

   LEVEL: PARTIAL.  What is proved here is the WIRING of the recursive layer, over the model Circ/Recursion.v
   (hand-written after common/recursive.rs: add_recursive_verifiers, PrivateBatchCircuit::new, PublicBatchCircuit::new):
     - C11_vk_is_constant_*     every slot is verified against the ONE key the circuit was built with (in the model
                                the key is a field of the built circuit, not a witness: by construction - the
                                harness checks that the real circuit leaves no key wire to the prover, fid 1105);
     - C11_ctor_*               the constructors' public-input-count checks, exactly;
     - C11_foreign_proof_unsatisfiable_*   under the EXPLICIT PREMISES of knowledge soundness
                                ([Verify vk pis pf = true -> produced_by vk pf]) and of "a proof belongs to one
                                circuit", a child proof produced by another circuit makes the outer circuit
                                unsatisfiable - whatever its configuration, shape and public inputs.
   NOT proved: the premises (cryptography of plonky2/FRI, collision resistance of the circuit digest), and that the
   in-circuit verify_proof gadget is satisfiable exactly when native verification accepts.  These are validated by
   execution: harness/src/bin/recursion.rs runs the real circuits on own proofs and on valid proofs of foreign
   circuits (same CommonCircuitData / different key, different degree, other shape), with an adversarial prover.

   Vocabulary: [VK] verifier-only data of a circuit; [Verify vk pis pf] native verification; a child is (public inputs,
   proof); [private_batch_sat c children pre out] = the circuit [c] is satisfiable with these child proofs, dummy
   pre-images [pre] and public outputs [out]: every child verifies under [pb_vk c] AND the wrapper relation of
   Circ/PrivateBatch.v holds for an arbitrary prover ([rel]) over the children's public inputs. *)
From V.Base Require Import Common.
From V.Generated Require Import Constants.
From V.Circ Require Import Field Core PrivateBatch PublicBatch Recursion RecursionProofs.
From V.Sys Require Parsers.
Ltac Zify.zify_post_hook ::= Z.div_mod_to_equations.

Local Open Scope Z_scope.

Lemma C11_pin_leaf_pi_len : PR_LEAF_PI_LEN = 21 /\ LEAF_PI_LEN = 21. Proof. split; reflexivity. Qed.
Lemma C11_pin_max_proof_count : MAX_PROOF_COUNT = 64. Proof. reflexivity. Qed.
Lemma C11_pin_private_batch_pi_len :
  forall n, 1 <= n <= 64 -> Parsers.pr_pi_len n = 21 * n + 8.
Proof. intros. apply pr_pi_len_exact. unfold MAX_PROOF_COUNT. assumption. Qed.
Lemma C11_pin_header : PR_OUT_HEADER_LEN = 8. Proof. reflexivity. Qed.

(* ---------------------------------------------------------------- the key is a constant of the circuit *)
Theorem C11_vk_is_constant_private :
  forall (VK PROOF : Type) (Verify : VK -> list Z -> PROOF -> bool) (H : list Z -> list Z)
         (vk : VK) (leaf_pis n : Z) (c : private_batch_circuit VK) children pre out,
    private_batch_new VK vk leaf_pis n = Ok c ->
    private_batch_sat VK PROOF Verify H c children pre out ->
    pb_vk c = vk /\ zlen children = n /\
    forall ch, In ch children -> Verify vk (ch_pis ch) (ch_proof ch) = true.
Proof.
  intros VK PROOF Verify H vk npis n c children pre out Hnew Hsat.
  destruct (new_keeps_key VK vk npis n c Hnew) as [Hk Hn]. split; [exact Hk|]. split.
  - destruct Hsat as (Hl & _). rewrite <- Hn. exact Hl.
  - eapply private_vk_is_constant; eassumption.
Qed.

Theorem C11_vk_is_constant_public :
  forall (VK PROOF : Type) (Verify : VK -> list Z -> PROOF -> bool) (H : list Z -> list Z)
         (vk : VK) (pb_pis m n : Z) (c : public_batch_circuit VK) addr children out,
    public_batch_new VK vk pb_pis m n = Ok c ->
    public_batch_sat VK PROOF Verify H c addr children out ->
    pub_vk c = vk /\ zlen children = m /\
    forall ch, In ch children -> Verify vk (ch_pis ch) (ch_proof ch) = true.
Proof.
  intros VK PROOF Verify H vk npis m n c addr children out Hnew Hsat.
  destruct (pub_new_keeps_key VK vk npis m n c Hnew) as (Hk & Hm & Hn). split; [exact Hk|]. split.
  - destruct Hsat as (Hl & _). rewrite <- Hm. exact Hl.
  - eapply public_vk_is_constant; eassumption.
Qed.

(* ---------------------------------------------------------------- constructors *)
Theorem C11_ctor_private_iff :
  forall (VK : Type) (vk : VK) (leaf_pis n : Z) (c : private_batch_circuit VK), 0 <= n ->
    (private_batch_new VK vk leaf_pis n = Ok c <-> 1 <= n <= 64 /\ leaf_pis = 21 /\ c = mkPB vk n).
Proof. intros. apply private_batch_new_iff. assumption. Qed.

Theorem C11_ctor_public_iff :
  forall (VK : Type) (vk : VK) (pb_pis m n : Z) (c : public_batch_circuit VK), 0 <= m -> 0 <= n ->
    (public_batch_new VK vk pb_pis m n = Ok c <->
     1 <= m <= 64 /\ 1 <= n <= 64 /\ pb_pis = 21 * n + 8 /\ c = mkPUB vk m n).
Proof. intros. apply public_batch_new_iff; assumption. Qed.

(* a wrong public-input count is an [Err], never a panic (-1), whatever the other arguments *)
Theorem C11_ctor_rejects_wrong_pi_len :
  forall (VK : Type) (vk : VK),
    (forall leaf_pis n, leaf_pis <> 21 -> exists e, private_batch_new VK vk leaf_pis n = Err e /\ e <> -1) /\
    (forall pb_pis m n, pb_pis <> Parsers.pr_pi_len n -> exists e, public_batch_new VK vk pb_pis m n = Err e /\ e <> -1).
Proof.
  intros VK vk. split.
  - intros. apply private_batch_new_rejects_wrong_pi_len. assumption.
  - intros. apply public_batch_new_rejects_wrong_pi_len. assumption.
Qed.

(* ---------------------------------------------------------------- foreign child proofs (cryptographic premises explicit) *)
Theorem C11_foreign_proof_unsatisfiable_private :
  forall (VK PROOF : Type) (Verify : VK -> list Z -> PROOF -> bool) (H : list Z -> list Z)
         (produced_by : VK -> PROOF -> Prop),
    (* knowledge soundness of the proof system, relative to the circuit identified by the key *)
    (forall vk pis pf, Verify vk pis pf = true -> produced_by vk pf) ->
    (* a proof is a proof of one circuit: different circuits have different keys *)
    (forall vk vk' pf, produced_by vk pf -> produced_by vk' pf -> vk = vk') ->
    forall (vk_leaf : VK) (leaf_pis n : Z) (c : private_batch_circuit VK) children pre out ch (vk' : VK),
      private_batch_new VK vk_leaf leaf_pis n = Ok c ->
      In ch children -> produced_by vk' (ch_proof ch) -> vk' <> vk_leaf ->
      ~ private_batch_sat VK PROOF Verify H c children pre out.
Proof. intros. eapply private_foreign_unsat; eassumption. Qed.

Theorem C11_foreign_proof_unsatisfiable_public :
  forall (VK PROOF : Type) (Verify : VK -> list Z -> PROOF -> bool) (H : list Z -> list Z)
         (produced_by : VK -> PROOF -> Prop),
    (forall vk pis pf, Verify vk pis pf = true -> produced_by vk pf) ->
    (forall vk vk' pf, produced_by vk pf -> produced_by vk' pf -> vk = vk') ->
    forall (vk_pb : VK) (pb_pis m n : Z) (c : public_batch_circuit VK) addr children out ch (vk' : VK),
      public_batch_new VK vk_pb pb_pis m n = Ok c ->
      In ch children -> produced_by vk' (ch_proof ch) -> vk' <> vk_pb ->
      ~ public_batch_sat VK PROOF Verify H c addr children out.
Proof. intros. eapply public_foreign_unsat; eassumption. Qed.

(* ---------------------------------------------------------------- non-vacuity *)
(* the premises are satisfiable: the ideal proof system used by the correspondence run meets them *)
Example C11_ex_premises_satisfiable :
  (forall vk pis pf, iverify vk pis pf = true -> iproduced_by vk pf) /\
  (forall vk vk' pf, iproduced_by vk pf -> iproduced_by vk' pf -> vk = vk').
Proof. split; [exact ideal_sound|exact ideal_one_circuit]. Qed.
(* ... and in it an own valid proof is accepted, a valid proof of another circuit is not *)
Example C11_ex_own_accepted :
  rec_accepts [11; 12] [mkChild [] ([11; 12], true)] true = true.
Proof. reflexivity. Qed.
Example C11_ex_foreign_rejected :
  rec_accepts [11; 12] [mkChild [] ([11; 12], true); mkChild [] ([11; 13], true)] true = false.
Proof. reflexivity. Qed.
Example C11_ex_ctor_ok : private_batch_new ikey [1] 21 8 = Ok (mkPB [1] 8). Proof. reflexivity. Qed.
Example C11_ex_ctor_wrong_len : private_batch_new ikey [1] 22 8 = Err E_PI_LEN. Proof. reflexivity. Qed.
Example C11_ex_pub_ctor_ok : public_batch_new ikey [1] (21 * 8 + 8) 4 8 = Ok (mkPUB [1] 4 8). Proof. reflexivity. Qed.
Example C11_ex_pub_ctor_wrong_len : public_batch_new ikey [1] (21 * 8 + 8) 4 7 = Err E_PI_LEN. Proof. reflexivity. Qed.
