(* C15 - Private-batch padding and shuffling are exact and uniform; public batches keep the given order.

   Model: Sys/Shuffle.v (hand-written after private_batch/prover/lib.rs commit, public_batch/prover/lib.rs commit,
   dummy_proof.rs generate_random_nullifier_preimage, rand 0.8.6 seq/mod.rs shuffle + gen_index and
   distributions/uniform.rs sample_single_inclusive for u32; tied to the implementation by harness/src/bin/shuffle.rs).
   Proofs: Sys/ShuffleProofs.v.

   Randomness is an INPUT of the model: a draw vector (one index in [0,i] for i = n-1, .., 1), the u32 outputs of
   the generator, a stream of 32-byte candidates.  The theorems say that the committed batch is an exact, bijective
   function of those inputs; that ThreadRng delivers uniform independent outputs is outside the model (level: partial).

   Vocabulary (Sys/Shuffle.v, Sys/ShuffleProofs.v):
     pad proofs t n        = proofs ++ repeat t (n - length proofs)
     fisher_yates l draws  = rand's shuffle: for i = len-1 downto 1: swap(i, next draw)
     valid_draws i ds      = ds has one entry per step i, i-1, .., 1, the entry for step j lying in [0, j]
     all_draws i           = the list of all such vectors
     gen_index range s     = rand's gen_range(0..range as u32) on the u32 stream s (widening multiply + rejection zone)
     accept32 / wmul_hi    = the acceptance test and the returned index of one u32 output
     accepted c            = BytesDigest::try_from(c) is Ok        canonical d = 4 limbs, each in [0, p)
     sample_preimage       = the rejection loop of generate_random_nullifier_preimage over a candidate stream
     sample_preimages n    = generate_dummy_nullifier_pre_images_for_slots(n) *)
From Coq Require Import Permutation.
From V.Base Require Import Common.
From V.Generated Require Import Constants.
From V.Sys Require Import Encoding EncodingProofs Shuffle ShuffleProofs.

Local Open Scope Z_scope.

(* ---------------------------------------------------------------- constants of the property text, pinned to /repo *)
Lemma C15_pin_order : INPUTS_GOLDILOCKS_ORDER = p. Proof. reflexivity. Qed.
Lemma C15_pin_p : p = 2 ^ 64 - 2 ^ 32 + 1. Proof. reflexivity. Qed.
Lemma C15_pin_digest_len : DIGEST_BYTES_LEN = 32. Proof. reflexivity. Qed.
(* every batch size a constructor accepts is far below the u32 bound of rand's gen_index fast path *)
Lemma C15_pin_max_proof_count : MAX_PROOF_COUNT = 64 /\ MAX_PROOF_COUNT < two32. Proof. split; reflexivity. Qed.

(* ---------------------------------------------------------------- padding: exactly the k proofs + (n-k) templates *)
Theorem C15_padding_multiset :
  forall (A : Type) (proofs : list A) (template : A) (n : nat) (draws : list nat),
    (forall slots, commit_private proofs template n draws = Ok slots ->
       (1 <= length proofs <= n)%nat /\ length slots = n /\
       Permutation slots (proofs ++ repeat template (n - length proofs))) /\
    ((1 <= length proofs <= n)%nat -> exists slots, commit_private proofs template n draws = Ok slots) /\
    ((length proofs = 0 \/ n < length proofs)%nat -> commit_private proofs template n draws = Err 1).
Proof.
  intros A proofs template n draws. split; [|split].
  - intros slots H. eapply commit_private_spec; exact H.
  - intro H. unfold commit_private. apply count_ok_spec in H. rewrite H. eexists. reflexivity.
  - apply commit_private_rejects.
Qed.

(* ---------------------------------------------------------------- the shuffle permutes, whatever is drawn *)
Theorem C15_shuffle_is_permutation :
  (forall (A : Type) (l : list A) (draws : list nat), Permutation (fisher_yates l draws) l) /\
  (forall (A : Type) (l out : list A) (stream rest : list Z) (ds : list nat),
     Z.of_nat (length l) < two32 -> Forall (fun v => 0 <= v < two32) stream ->
     shuffle_stream l stream = Some (out, ds, rest) ->
     valid_draws (length l - 1) ds /\ out = fisher_yates l ds /\ Permutation out l).
Proof.
  split.
  - intros A l draws. apply fisher_yates_perm.
  - intros A l out stream rest ds B U H. eapply shuffle_stream_spec; eassumption.
Qed.

(* ---------------------------------------------------------------- draw vectors <-> slot orders, one to one; n! of them *)
Theorem C15_shuffle_bijection :
  (forall (A : Type) (l t : list A), NoDup l -> Permutation l t ->
     exists! ds, valid_draws (length l - 1) ds /\ fisher_yates l ds = t) /\
  (forall n : nat, (1 <= n)%nat ->
     length (all_draws (n - 1)) = fact n /\ NoDup (all_draws (n - 1)) /\
     forall ds, In ds (all_draws (n - 1)) <-> valid_draws (n - 1) ds).
Proof.
  split.
  - intros A l t ND P. apply fisher_yates_bijection; assumption.
  - intros n Hn. replace n with (S (n - 1)) at 2 by lia.
    split; [apply all_draws_length|]. split; [apply all_draws_nodup|apply all_draws_spec].
Qed.

(* ---------------------------------------------------------------- rand's index draw: in range, and exactly uniform
   over the u32 outputs it accepts (each index h is produced by exactly 2^lz consecutive u32 values) *)
Theorem C15_gen_index_uniform :
  (forall range stream d rest, 0 < range -> Forall (fun v => 0 <= v < two32) stream ->
     gen_index range stream = Some (d, rest) ->
     0 <= d < range /\
     exists rej v, stream = rej ++ v :: rest /\ Forall (fun w => accept32 range w = false) rej /\
                   accept32 range v = true /\ d = wmul_hi v range) /\
  (forall range h, 0 < range < two32 -> 0 <= h < range ->
     let K := 2 ^ lz32 range in
     let c := (h * two32 + range - 1) / range in
     0 <= c /\ c + K <= two32 /\
     forall v, 0 <= v < two32 -> (accept32 range v = true /\ wmul_hi v range = h <-> c <= v < c + K)).
Proof.
  split.
  - intros range stream d rest R U H. split.
    + eapply gen_index_in_range; eassumption.
    + apply gen_index_spec. exact H.
  - apply accept32_interval.
Qed.

(* ---------------------------------------------------------------- dummy preimages *)
Theorem C15_preimage_canonical :
  (* what the sampler returns: the digest of the first accepted candidate, which is canonical *)
  (forall cands d rest, Forall (Forall byte) cands -> sample_preimage cands = Some (d, rest) ->
     canonical d /\
     exists rej c, cands = rej ++ c :: rest /\ Forall (fun r => ~ accepted r) rej /\ accepted c /\ d = bytes_to_digest c) /\
  (* accepted = length 32 and every 8-byte little-endian limb below p *)
  (forall c, accepted c <-> zlen c = 32 /\ Forall (fun v => v < p) (limbs8 c)) /\
  (* accepted byte strings <-> canonical digests, one to one: uniform accepted candidates = uniform canonical digests *)
  (forall d, canonical d -> exists! c, Forall byte c /\ accepted c /\ bytes_to_digest c = d) /\
  (* one candidate per slot: slot j is the digest of the j-th accepted candidate of the stream *)
  (forall n cands ds, sample_preimages n cands = Some ds <->
     ((n <= length (filter acceptedb cands))%nat /\ ds = map bytes_to_digest (firstn n (filter acceptedb cands)))).
Proof.
  split; [|split; [|split]].
  - intros cands d rest B H. destruct (sample_preimage_spec cands d rest H) as [rej [c [E [F [Ac Ed]]]]].
    split.
    + subst d. apply accepted_canonical; [|exact Ac]. subst cands. apply Forall_app in B. destruct B as [_ B].
      inversion B; assumption.
    + exists rej, c. repeat split; assumption.
  - apply accepted_iff.
  - apply canonical_has_unique_candidate.
  - apply sample_preimages_spec.
Qed.

(* ---------------------------------------------------------------- public batch: given order, then templates *)
Theorem C15_public_order_preserved :
  forall (A : Type) (proofs : list A) (template : A) (n : nat),
    (forall slots, commit_public proofs template n = Ok slots ->
       (1 <= length proofs <= n)%nat /\ length slots = n /\
       firstn (length proofs) slots = proofs /\
       skipn (length proofs) slots = repeat template (n - length proofs)) /\
    ((1 <= length proofs <= n)%nat -> commit_public proofs template n = Ok (proofs ++ repeat template (n - length proofs))) /\
    ((length proofs = 0 \/ n < length proofs)%nat -> commit_public proofs template n = Err 1).
Proof.
  intros A proofs template n. split; [|split].
  - intros slots H. eapply commit_public_spec; exact H.
  - intro H. unfold commit_public. apply count_ok_spec in H. rewrite H. reflexivity.
  - intro H. unfold commit_public. destruct (count_ok proofs n) eqn:C; [|reflexivity].
    apply count_ok_spec in C. lia.
Qed.

(* ---------------------------------------------------------------- the predicates evaluated on REAL commits mean what
   the property says (soundness of the executable checks used by the correspondence run) *)
Theorem C15_observation_checks_sound :
  (forall k n labels pre, private_obs_ok k n labels pre = true ->
     Permutation labels (real_labels k ++ repeat 0 (n - k)) /\ length labels = n /\
     length (chunks4 pre) = n /\ Forall canonical (chunks4 pre) /\ NoDup (chunks4 pre)) /\
  (forall k n labels, public_obs_ok k n labels = true <-> labels = real_labels k ++ repeat 0 (n - k)) /\
  (forall pre1 pre2, fresh_ok pre1 pre2 = true ->
     NoDup (chunks4 pre1 ++ chunks4 pre2) /\ Forall canonical (chunks4 pre1 ++ chunks4 pre2)).
Proof.
  split; [|split].
  - apply private_obs_ok_sound.
  - apply public_obs_ok_spec.
  - apply fresh_ok_sound.
Qed.

(* ---------------------------------------------------------------- non-vacuity *)
(* 2 proofs into 4 slots, draws (for steps 3, 2, 1) = 1, 2, 0 *)
Example C15_ex_commit : commit_private [11; 22] 0 4 [1; 2; 0]%nat = Ok [0; 11; 0; 22].
Proof. reflexivity. Qed.
Example C15_ex_commit_rejects : commit_private (@nil Z) 0 4 [] = Err 1 /\ commit_private [1; 2; 3] 0 2 [] = Err 1.
Proof. split; reflexivity. Qed.
Example C15_ex_valid_draws : valid_draws 3 [1; 2; 0]%nat /\ ~ valid_draws 3 [4; 0; 0]%nat /\ length (all_draws 3) = 24%nat.
Proof. split; [|split]; cbn; try lia; try reflexivity. Qed.
(* the six draw vectors of n = 3 give the six orders *)
Example C15_ex_all_orders_3 :
  map (fisher_yates [0; 1; 2]) (all_draws 2)
  = [[1; 2; 0]; [2; 1; 0]; [2; 0; 1]; [0; 2; 1]; [1; 0; 2]; [0; 1; 2]].
Proof. reflexivity. Qed.
(* range 3: zone = 0xBFFFFFFF; 0xFFFFFFFF is rejected (3 * v mod 2^32 = 0xFFFFFFFD), 0x80000000 gives index 1 *)
Example C15_ex_gen_index : gen_index 3 [4294967295; 2147483648; 7] = Some (1, [7]) /\ zone32 3 = 3221225471.
Proof. split; reflexivity. Qed.
Example C15_ex_public : commit_public [11; 22] 0 4 = Ok [11; 22; 0; 0].
Proof. reflexivity. Qed.
(* a candidate whose first limb is p is rejected, the next one (limbs p-1, 0, 0, 0) accepted *)
Example C15_ex_preimage :
  sample_preimage [ [1;0;0;0;255;255;255;255] ++ repeat 0 24%nat; [0;0;0;0;255;255;255;255] ++ repeat 0 24%nat ]
  = Some ([p - 1; 0; 0; 0], []).
Proof. reflexivity. Qed.
Example C15_ex_obs : private_obs_ok 2 3 [0; 2; 1] [1;2;3;4; 5;6;7;8; 9;10;11;12] = true /\
                     private_obs_ok 2 3 [1; 2; 2] [1;2;3;4; 5;6;7;8; 9;10;11;12] = false /\
                     private_obs_ok 2 3 [0; 2; 1] [1;2;3;4; 1;2;3;4; 9;10;11;12] = false /\
                     public_obs_ok 2 3 [1; 2; 0] = true /\ public_obs_ok 2 3 [0; 1; 2] = false.
Proof. repeat split; reflexivity. Qed.
