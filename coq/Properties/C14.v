(* C14 - Batch provers admit exactly the batches the circuit can prove.

   Model: Sys/Preflight.v (hand-written after PrivateBatchProver::commit, ensure_leaf_batch_compatible,
   preflight_private_batch_proofs, ensure_private_batch_compatible; tied to the implementation by the differential run of
   harness/src/bin/provers.rs against the REAL provers).  Proofs: Sys/PreflightProofs.v.

   "The circuit can prove this batch" is LeanPort.priv_compat / LeanPort.pub_compat (what C07 / C13 show the wrapper
   circuits to be satisfiable for).  A child proof is (public inputs, verifies?).  [padded n ms t] = the supplied
   statements followed by n - |ms| copies of the padding template; commit then shuffles, so the private theorems quantify
   over every permutation of the padded batch.

   FINDING (fixed): before the `fix:` commit recorded in /verif/known_findings.json, ensure_leaf_batch_compatible had no
   grouped-exit-sum pass.  [C14_private_accept_refuted_without_sum_check] keeps the refutation of C14_private_accept_sound
   for that earlier function (same model minus [sum_check]); the theorems below are about the repaired code and carry no
   extra premise. *)
From Coq Require Import Permutation.
From V.Base Require Import Common.
From V.Generated Require Import Constants.
From V.Circ Require Import Field PrivateBatch PublicBatch.
From V.Spec Require Import LeanPort.
From V.Sys Require Import Parsers ParsersProofs Preflight PreflightProofs.
Ltac Zify.zify_post_hook ::= Z.div_mod_to_equations.

Local Open Scope Z_scope.

(* ---------------------------------------------------------------- constants of the property text, pinned to /repo *)
Lemma C14_pin_leaf_pi_len : PR_LEAF_PI_LEN = 21. Proof. reflexivity. Qed.
Lemma C14_pin_leaf_offsets :
  [PR_ASSET_ID_START; PR_OUTPUT_AMOUNT_1_START; PR_OUTPUT_AMOUNT_2_START; PR_VOLUME_FEE_BPS_START; PR_NULLIFIER_START;
   PR_EXIT_1_START; PR_EXIT_2_START; PR_BLOCK_HASH_START; PR_BLOCK_NUMBER_START] = [0; 1; 2; 3; 4; 8; 12; 16; 20].
Proof. reflexivity. Qed.
Lemma C14_pin_inner_offsets :
  [PR_OUT_ASSET_ID_OFFSET; PR_OUT_VOLUME_FEE_BPS_OFFSET; PR_OUT_BLOCK_HASH_OFFSET] = [1; 2; 3].
Proof. reflexivity. Qed.
Lemma C14_pin_two32 : two32 = 2 ^ 32. Proof. reflexivity. Qed.

(* ---------------------------------------------------------------- the specification vocabulary, spelled out *)
Lemma C14_spec_padded n ms t : padded n ms t = ms ++ repeat t (Z.to_nat (n - zlen ms)).
Proof. reflexivity. Qed.
(* priv_compat, read order-independently: [total k l] is what the batch pays account k after the circuit's dummy masking *)
Lemma C14_spec_priv_compat l :
  priv_compat l = true <->
  (exists A, forall m, In m l -> lf_asset m = A) /\
  (exists bh fee, forall m, In m l -> is_real_pb m = true -> lf_bh m = bh /\ lf_fee m = fee) /\
  NoDup (map lf_null (filter is_real_pb l)) /\
  (forall k, total k l < two32).
Proof. exact (priv_compat_iff l). Qed.
Lemma C14_spec_total k m r :
  total k [] = 0 /\
  total k (m :: r) =
    (if is_dummy_pb m then 0
     else (if list_eqb (lf_exit1 m) k then lf_out1 m else 0) + (if list_eqb (lf_exit2 m) k then lf_out2 m else 0))
    + total k r.
Proof. split; reflexivity. Qed.
Lemma C14_spec_pub_compat l :
  pub_compat l = true <->
  exists a f bh, forall m, In m l -> is_real_inner m = true -> in_asset m = a /\ in_fee m = f /\ in_bh m = bh.
Proof. exact (pub_compat_iff l). Qed.
(* a validated leaf template is a dummy with the native asset (C16 has the full statement) *)
Lemma C14_spec_template t : leaf_template_check t = Ok tt -> is_dummy_pb (c_pis t) = true /\ lf_asset (c_pis t) = 0.
Proof. exact (leaf_template_sentinel t). Qed.
Lemma C14_spec_private_batch_template t : private_batch_template_check t = Ok tt -> is_dummy_inner (c_pis t) = true.
Proof. exact (private_batch_template_sentinel t). Qed.

(* ---------------------------------------------------------------- private batch *)

(* commit accepts only if: non-empty, within the batch size, every proof has 21 public inputs and verifies, when padding is
   needed every asset id is 0, and some proof is real *)
Theorem C14_private_accept_only_if : forall n cs,
  private_commit_preflight n cs = Ok tt ->
  0 < zlen cs <= n /\
  (forall c, In c cs -> zlen (c_pis c) = 21 /\ c_ok c = true /\ (zlen cs < n -> lf_asset (c_pis c) = 0)) /\
  (exists c, In c cs /\ is_real_pb (c_pis c) = true).
Proof.
  intros n cs H. apply private_preflight_ok_iff in H. destruct H as (R & HC & (_ & _ & _ & (m & Im & Rm)) & _).
  split; [exact R|]. split; [exact HC|]. apply in_map_iff in Im. destruct Im as (c & <- & I). exists c. auto.
Qed.

(* whenever commit accepts, the circuit can prove the padded batch in EVERY order (no premise on the leaves is needed) *)
Theorem C14_private_accept_sound : forall n cs t leaves,
  private_commit_preflight n cs = Ok tt ->
  leaf_template_check t = Ok tt ->
  Permutation leaves (padded n (map c_pis cs) (c_pis t)) ->
  priv_compat leaves = true.
Proof.
  intros n cs t leaves H T P. apply priv_compat_iff. apply (compat_spec_perm _ _ (Permutation_sym P)).
  apply private_accept_compat_spec; [exact H|apply leaf_template_sentinel; exact T].
Qed.

(* whenever commit rejects for a reason other than the documented policies, the padded batch is unprovable in every order *)
Theorem C14_private_reject_complete : forall n cs t leaves k,
  private_commit_preflight n cs = Err k ->
  k <> E_EMPTY -> k <> E_TOO_MANY -> k <> E_PI_LEN -> k <> E_INVALID -> k <> E_PAD_ASSET -> k <> E_ALL_DUMMY ->
  leaf_template_check t = Ok tt ->
  Permutation leaves (padded n (map c_pis cs) (c_pis t)) ->
  priv_compat leaves = false.
Proof.
  intros n cs t leaves k H N1 N2 N3 N4 N5 N6 T P.
  destruct (priv_compat leaves) eqn:E; [|reflexivity]. exfalso.
  apply priv_compat_iff in E. apply (compat_spec_perm _ _ P) in E.
  apply (private_reject_not_compat n cs (c_pis t) k H N1 N2 N3 N4 N5 N6 (leaf_template_sentinel t T) E).
Qed.

(* ... and so is a batch refused by the padding-asset policy (the policy is not stricter than the circuit) *)
Theorem C14_private_padding_asset_unprovable : forall n cs t leaves,
  private_commit_preflight n cs = Err E_PAD_ASSET ->
  leaf_template_check t = Ok tt ->
  Permutation leaves (padded n (map c_pis cs) (c_pis t)) ->
  priv_compat leaves = false.
Proof.
  intros n cs t leaves H T P.
  destruct (priv_compat leaves) eqn:E; [|reflexivity]. exfalso.
  apply priv_compat_iff in E. apply (compat_spec_perm _ _ P) in E.
  apply (private_padding_asset_not_compat n cs (c_pis t) H (leaf_template_sentinel t T) E).
Qed.

(* exactness in one statement: commit = shape /\ cryptography /\ "some real proof" /\ the circuit can prove the padded batch *)
Theorem C14_private_accept_iff : forall n cs t,
  leaf_template_check t = Ok tt ->
  (private_commit_preflight n cs = Ok tt <->
   0 < zlen cs <= n /\
   (forall c, In c cs -> zlen (c_pis c) = 21 /\ c_ok c = true) /\
   (exists c, In c cs /\ is_real_pb (c_pis c) = true) /\
   priv_compat (padded n (map c_pis cs) (c_pis t)) = true).
Proof. intros n cs t T. apply private_accept_iff. apply leaf_template_sentinel. exact T. Qed.

(* ---------------------------------------------------------------- public batch *)
Theorem C14_public_accept_only_if : forall m pi_len cs,
  public_preflight m pi_len cs = Ok tt ->
  0 < zlen cs <= m /\
  (forall c, In c cs -> zlen (c_pis c) = pi_len /\ c_ok c = true) /\
  (exists c, In c cs /\ is_real_inner (c_pis c) = true).
Proof.
  intros m pi_len cs H. apply public_preflight_ok_iff in H. destruct H as (R & HC & _ & (x & Ix & Rx)).
  split; [exact R|]. split; [exact HC|]. apply in_map_iff in Ix. destruct Ix as (c & <- & I). exists c. auto.
Qed.

Theorem C14_public_accept_sound : forall m pi_len cs t inners,
  public_preflight m pi_len cs = Ok tt ->
  private_batch_template_check t = Ok tt ->
  Permutation inners (padded m (map c_pis cs) (c_pis t)) ->
  pub_compat inners = true.
Proof.
  intros m pi_len cs t inners H T P. rewrite (pub_compat_perm _ _ P).
  apply (public_accept_iff m pi_len cs (c_pis t) (private_batch_template_sentinel t T)). exact H.
Qed.

Theorem C14_public_reject_complete : forall m pi_len cs t inners k,
  public_preflight m pi_len cs = Err k ->
  k <> E_EMPTY -> k <> E_TOO_MANY -> k <> E_PI_LEN -> k <> E_INVALID -> k <> E_ALL_DUMMY ->
  private_batch_template_check t = Ok tt ->
  Permutation inners (padded m (map c_pis cs) (c_pis t)) ->
  pub_compat inners = false.
Proof.
  intros m pi_len cs t inners k H N1 N2 N3 N4 N5 T P. rewrite (pub_compat_perm _ _ P).
  destruct (pub_compat (padded m (map c_pis cs) (c_pis t))) eqn:E; [|reflexivity]. exfalso.
  apply pub_compat_iff in E.
  apply (public_reject_not_compat m pi_len cs (c_pis t) k H N1 N2 N3 N4 N5 (private_batch_template_sentinel t T) E).
Qed.

Theorem C14_public_accept_iff : forall m pi_len cs t,
  private_batch_template_check t = Ok tt ->
  (public_preflight m pi_len cs = Ok tt <->
   0 < zlen cs <= m /\
   (forall c, In c cs -> zlen (c_pis c) = pi_len /\ c_ok c = true) /\
   (exists c, In c cs /\ is_real_inner (c_pis c) = true) /\
   pub_compat (padded m (map c_pis cs) (c_pis t)) = true).
Proof. intros m pi_len cs t T. apply public_accept_iff. apply private_batch_template_sentinel. exact T. Qed.

(* ---------------------------------------------------------------- order of the checks (as the code has it) *)
(* counts first; a compatibility class is only ever reported for a vector whose every proof has the right shape, verifies
   and passes the padding-asset policy (verification before compatibility); the sum class only when all other
   compatibility rules already hold *)
Theorem C14_order_of_checks : forall n cs,
  (zlen cs = 0 -> private_commit_preflight n cs = Err E_EMPTY) /\
  (0 < zlen cs -> n < zlen cs -> private_commit_preflight n cs = Err E_TOO_MANY) /\
  (forall k, private_commit_preflight n cs = Err k ->
     k = E_ASSET \/ k = E_BLOCK \/ k = E_FEE \/ k = E_DUP_NULL \/ k = E_ALL_DUMMY \/ k = E_SUM ->
     0 < zlen cs <= n /\
     forall c, In c cs -> zlen (c_pis c) = 21 /\ c_ok c = true /\ (zlen cs < n -> lf_asset (c_pis c) = 0)) /\
  (forall k, private_commit_preflight n cs = Err k -> k = E_SUM ->
     (exists A, forall m, In m (map c_pis cs) -> lf_asset m = A) /\
     (exists bh fee, forall m, In m (map c_pis cs) -> is_real_pb m = true -> lf_bh m = bh /\ lf_fee m = fee) /\
     NoDup (map lf_null (filter is_real_pb (map c_pis cs))) /\
     (exists m, In m (map c_pis cs) /\ is_real_pb m = true)).
Proof. exact private_order. Qed.

Theorem C14_public_order_of_checks : forall m pi_len cs,
  (zlen cs = 0 -> public_preflight m pi_len cs = Err E_EMPTY) /\
  (0 < zlen cs -> m < zlen cs -> public_preflight m pi_len cs = Err E_TOO_MANY) /\
  (forall k, public_preflight m pi_len cs = Err k -> k = E_BLOCK \/ k = E_ASSET \/ k = E_FEE \/ k = E_ALL_DUMMY ->
     0 < zlen cs <= m /\ forall c, In c cs -> zlen (c_pis c) = pi_len /\ c_ok c = true).
Proof. exact public_order. Qed.

(* ---------------------------------------------------------------- the finding, kept as a theorem *)
(* without the grouped-sum pass (the code before the fix) commit accepts two valid real leaves that pay 2^31 each to one
   account; the padded batch is not provable; the repaired preflight rejects it with the sum class *)
Theorem C14_private_accept_refuted_without_sum_check :
  exists n cs t,
    private_commit_preflight_nosum n cs = Ok tt /\
    leaf_template_check t = Ok tt /\
    (forall c, In c cs -> leaf_wf (c_pis c)) /\
    priv_compat (padded n (map c_pis cs) (c_pis t)) = false /\
    private_commit_preflight n cs = Err E_SUM.
Proof.
  exists 2, f1_batch, (mkChild (repeat 0 21) true).
  split; [vm_compute; reflexivity|]. split; [vm_compute; reflexivity|]. split.
  - intros c [<-|[<-|[]]]; (split; [reflexivity|]); (split; [|split; vm_compute; reflexivity]);
      cbn [c_pis f1_leaf app]; repeat (constructor; [unfold Field.canon, p; lia|]); constructor.
  - split; vm_compute; reflexivity.
Qed.

(* ---------------------------------------------------------------- non-vacuity *)
Definition ex_leaf (nullifier out1 : Z) (acct : list Z) : list Z :=
  [0; out1; 0; 10] ++ [nullifier; 0; 0; 0] ++ acct ++ [0; 0; 0; 0] ++ [9; 0; 0; 0] ++ [3].
Definition ex_template : child := mkChild ([0; 0; 0; 10] ++ [77; 0; 0; 0] ++ repeat 0 12 ++ [5]) true.

(* accepted: one real leaf padded to n = 3; two real leaves paying 2^31 - 1 and 2^31 to one account (sum 2^32 - 1) *)
Example C14_ex_accept :
  leaf_template_check ex_template = Ok tt /\
  private_commit_preflight 3 [mkChild (ex_leaf 1 5 [5; 6; 7; 8]) true] = Ok tt /\
  private_commit_preflight 2 [mkChild (ex_leaf 1 2147483647 [5; 6; 7; 8]) true; mkChild (ex_leaf 2 2147483648 [5; 6; 7; 8]) true] = Ok tt.
Proof. vm_compute. repeat split. Qed.
(* rejected, one per class *)
Example C14_ex_reject :
  private_commit_preflight 2 [] = Err E_EMPTY /\
  private_commit_preflight 1 [mkChild (ex_leaf 1 5 [5; 6; 7; 8]) true; mkChild (ex_leaf 2 5 [5; 6; 7; 8]) true] = Err E_TOO_MANY /\
  private_commit_preflight 1 [mkChild [0] true] = Err E_PI_LEN /\
  private_commit_preflight 1 [mkChild (ex_leaf 1 5 [5; 6; 7; 8]) false] = Err E_INVALID /\
  private_commit_preflight 2 [mkChild (7 :: tl (ex_leaf 1 5 [5; 6; 7; 8])) true] = Err E_PAD_ASSET /\
  private_commit_preflight 2 [mkChild (ex_leaf 1 5 [5; 6; 7; 8]) true; mkChild (7 :: tl (ex_leaf 2 5 [5; 6; 7; 8])) true] = Err E_ASSET /\
  private_commit_preflight 2 [mkChild (ex_leaf 1 5 [5; 6; 7; 8]) true; mkChild (ex_leaf 1 6 [1; 1; 1; 1]) true] = Err E_DUP_NULL /\
  private_commit_preflight 2 [mkChild (c_pis ex_template) true] = Err E_ALL_DUMMY /\
  private_commit_preflight 2 [mkChild (ex_leaf 1 2147483648 [5; 6; 7; 8]) true; mkChild (ex_leaf 2 2147483648 [5; 6; 7; 8]) true] = Err E_SUM /\
  (* a real leaf paying the ZERO account is grouped with the masked dummy slots, and still counted *)
  private_commit_preflight 3 [mkChild (ex_leaf 1 2147483648 [0; 0; 0; 0]) true; mkChild (ex_leaf 2 2147483648 [0; 0; 0; 0]) true] = Err E_SUM.
Proof. vm_compute. repeat split. Qed.
Example C14_ex_public :
  let inner (bh asset fee : Z) := [2; asset; fee; bh; 0; 0; 0; 4] ++ repeat 0 21 in
  private_batch_template_check (mkChild (inner 0 0 0) true) = Ok tt /\
  public_preflight 2 29 [mkChild (inner 9 0 10) true] = Ok tt /\
  public_preflight 2 29 [mkChild (inner 9 0 10) true; mkChild (inner 8 0 10) true] = Err E_BLOCK /\
  public_preflight 2 29 [mkChild (inner 9 0 10) true; mkChild (inner 9 1 10) true] = Err E_ASSET /\
  public_preflight 2 29 [mkChild (inner 9 0 10) true; mkChild (inner 9 0 11) true] = Err E_FEE /\
  public_preflight 2 29 [mkChild (inner 0 0 0) true] = Err E_ALL_DUMMY /\
  public_preflight 2 29 [mkChild (inner 9 0 10) false] = Err E_INVALID.
Proof. vm_compute. repeat split. Qed.
