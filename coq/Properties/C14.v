From V.Sys Require Import Preflight PreflightProofs.
