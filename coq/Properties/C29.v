(* C29 - Per-layer proof counts are bounded at every entry point; layout-length arithmetic never wraps.

   Model: Sys/Parsers.v ([validate_proof_count], [pi_len_wrapping], [try_pi_len], the aggregator layout helpers
   [pr_*] / [pu_*] with explicit [wrap64], [config_accepts], [counts_accept]); proofs: Sys/ParsersProofs.v.
   "Every entry point rejects 0 and > 64 before allocating or building" and the config-file round trip are
   conformance runs of the real code (harness/src/bin/counts.rs) against [counts_accept] / [config_accepts];
   what is proved here is the arithmetic and the exact accepted sets of those model functions. *)
From V.Base Require Import Common.
From V.Generated Require Import Constants.
From V.Sys Require Import Parsers ParsersProofs.

Local Open Scope Z_scope.

(* ---------------------------------------------------------------- constants pinned to /repo *)
Lemma C29_pin_max_proof_count : MAX_PROOF_COUNT = 64. Proof. reflexivity. Qed.
Lemma C29_pin_agg_max_proof_count : AGG_MAX_PROOF_COUNT = 64. Proof. reflexivity. Qed.
Lemma C29_pin_layout_constants :
  [LEAF_PI_LEN; PUBLIC_HEADER_LEN; PUBLIC_EXIT_SLOT_LEN; PR_LEAF_PI_LEN; PR_OUT_HEADER_LEN; PR_OUT_EXIT_SLOT_LEN; PU_HEADER_LEN]
  = [21; 12; 5; 21; 8; 5; 12].
Proof. reflexivity. Qed.
Lemma C29_pin_two64 : two64 = 2 ^ 64. Proof. reflexivity. Qed.

(* ---------------------------------------------------------------- the accepted set of a count *)
Theorem C29_validate_exact : forall c,
  0 <= c < two64 -> (validate_proof_count c = Ok tt <-> 1 <= c <= 64).
Proof. exact validate_exact. Qed.

(* an entry point taking counts cs accepts (as far as the counts are concerned) iff every count is in 1..64 *)
Theorem C29_counts_accept_iff : forall cs,
  Forall (fun c => 0 <= c < two64) cs -> (counts_accept cs = true <-> Forall (fun c => 1 <= c <= 64) cs).
Proof. exact counts_accept_iff. Qed.

(* CircuitBinsConfig::{new, validate, load}: num_leaf_proofs in 1..64, num_private_batch_proofs absent or in 1..64 *)
Theorem C29_config_accepts_iff : forall l o,
  0 <= l -> match o with Some n => 0 <= n | None => True end ->
  (config_accepts l o = true <-> 1 <= l <= 64 /\ match o with Some n => 1 <= n <= 64 | None => True end).
Proof. exact config_accepts_iff. Qed.

(* ---------------------------------------------------------------- no wrap for validated counts *)
(* every layout expression of wormhole/inputs (public_batch_pi::{pi_len, try_pi_len}) and of the aggregator
   (private_batch/circuit/constants.rs aggregated_output::*, public_batch/circuit/constants.rs), evaluated with
   wrapping 64-bit arithmetic, equals its mathematical value *)
Theorem C29_no_wrap : forall m n,
  1 <= m <= 64 -> 1 <= n <= 64 ->
  pi_len_exact m n < two64 /\
  pi_len_wrapping m n = pi_len_exact m n /\
  try_pi_len m n = Some (pi_len_exact m n) /\
  (pr_exit_slots_count n = 2 * n /\ pr_nullifiers_count n = n /\ pr_exit_slots_start = 8 /\
   pr_nullifiers_start n = 8 + 10 * n /\ pr_pi_len n = 8 + 21 * n) /\
  (pu_total_exit_slots m n = 2 * (m * n) /\ pu_total_nullifiers m n = m * n /\ pu_exit_slots_start = 12 /\
   pu_nullifiers_start m n = 12 + 10 * (m * n) /\ pu_pi_len m n = pi_len_exact m n).
Proof. exact no_wrap_all. Qed.

Lemma C29_pi_len_exact_def : forall m n, pi_len_exact m n = 12 + m * (2 * n) * 5 + m * n * 4.
Proof. reflexivity. Qed.

(* ---------------------------------------------------------------- the checked variant *)
(* The statement "None <-> pi_len_exact >= 2^64" is FALSE for m = 0: try_pi_len starts with
   num_leaf_proofs.checked_mul(2), which overflows for n >= 2^63 although 12 + 0 fits.  (Harmless: the
   function errs on the side of None, and every caller validates m >= 1 first.)  The exact statement: *)
Theorem C29_try_pi_len_none_iff_overflow : forall m n,
  0 <= m < two64 -> 0 <= n < two64 ->
  (try_pi_len m n = None <-> 2 * n >= two64 \/ pi_len_exact m n >= two64).
Proof. exact try_pi_len_none_iff. Qed.

Theorem C29_try_pi_len_none_iff_overflow_pos : forall m n,
  1 <= m < two64 -> 0 <= n < two64 ->
  (try_pi_len m n = None <-> pi_len_exact m n >= two64).
Proof. exact try_pi_len_none_iff_pos. Qed.

Theorem C29_try_pi_len_some_is_exact : forall m n v,
  0 <= m -> 0 <= n -> try_pi_len m n = Some v -> v = pi_len_exact m n /\ v < two64.
Proof.
  intros m n v Hm Hn H. rewrite try_pi_len_spec in H by assumption.
  destruct (Z.ltb_spec (n * 2) two64); destruct (Z.ltb_spec (pi_len_exact m n) two64); cbn [andb] in H;
    try discriminate. inversion H; subst. auto.
Qed.

Example C29_try_pi_len_none_iff_overflow_refuted :
  exists m n, 0 <= m < two64 /\ 0 <= n < two64 /\ try_pi_len m n = None /\ pi_len_exact m n < two64.
Proof. exists 0, (2 ^ 63). vm_compute. repeat split; discriminate. Qed.

(* ---------------------------------------------------------------- non-vacuity *)
Example C29_ex_validate :
  validate_proof_count 1 = Ok tt /\ validate_proof_count 64 = Ok tt /\
  is_ok (validate_proof_count 0) = false /\ is_ok (validate_proof_count 65) = false /\
  is_ok (validate_proof_count (two64 - 1)) = false.
Proof. vm_compute. repeat split; reflexivity. Qed.
Example C29_ex_lengths :
  try_pi_len 64 64 = Some 57356 /\ pi_len_wrapping 64 64 = 57356 /\ pu_pi_len 64 64 = 57356 /\ pr_pi_len 64 = 1352 /\
  (* wrap-around of the unchecked helper on unvalidated counts: 2^63 * 2 = 0 mod 2^64, an "empty" layout *)
  pi_len_wrapping 1 (2 ^ 63) = 12 /\ try_pi_len 1 (2 ^ 63) = None /\ pr_pi_len (two64 / 21 + 1) = 13.
Proof. vm_compute. repeat split; reflexivity. Qed.
Example C29_ex_config :
  config_accepts 7 (Some 4) = true /\ config_accepts 8 None = true /\ config_accepts 0 (Some 4) = false /\
  config_accepts 16 (Some 0) = false /\ config_accepts 65 None = false /\ config_accepts 16 (Some 65) = false.
Proof. vm_compute. repeat split; reflexivity. Qed.
