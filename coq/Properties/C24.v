From V.Base Require Import Common.
From V.Sys Require Import Parsers.
Theorem C24_placeholder : forall x : Z, x = x.
Proof. reflexivity. Qed.
