(* C24 - Public-input parsers are total, exact and mutually consistent.

   Model: Sys/Parsers.v (hand-written after wormhole/inputs/src/lib.rs and wormhole/circuit/src/inputs.rs,
   tied to the implementation by the differential run of harness/src/bin/parsers.rs).
   Proofs: Sys/ParsersProofs.v.  Vocabulary used in the statements (all defined in ParsersProofs.v, independent of the
   parsers):
     at_ l i            = nth i l 0                       sub l a n = firstn n (skipn a l)
     u32_at l i         = 0 <= at_ l i < 2^32             digest_at l a = the 4 limbs at a..a+3 are < p
     slots_wf l c k     = k records of 5 felts from c: a u32 sum followed by a digest
     digests_wf l c k   = k digests of 4 felts from c
     slots_at/digests_at= the records read positionally (slots_at_nth, digests_at_nth give the index form)
     wf_leaf / wf_priv n / wf_pub m n   the well-formed layouts;  layout_*  the structure at the documented offsets
     valid_leaf / valid_priv n / valid_pub m n   valid structures;  res_class = Ok value | "an error" *)
From V.Base Require Import Common.
From V.Generated Require Import Constants.
From V.Sys Require Import Parsers ParsersProofs.

Local Open Scope Z_scope.

(* ---------------------------------------------------------------- constants of the property text, pinned to /repo *)
Lemma C24_pin_leaf_len : LEAF_PI_LEN = 21. Proof. reflexivity. Qed.
Lemma C24_pin_max_proof_count : MAX_PROOF_COUNT = 64. Proof. reflexivity. Qed.
Lemma C24_pin_public_header_len : PUBLIC_HEADER_LEN = 12. Proof. reflexivity. Qed.
Lemma C24_pin_public_exit_slot_len : PUBLIC_EXIT_SLOT_LEN = 5. Proof. reflexivity. Qed.
Lemma C24_pin_public_address_len : PUBLIC_AGGREGATOR_ADDRESS_LEN = 4. Proof. reflexivity. Qed.
Lemma C24_pin_inputs_order : INPUTS_GOLDILOCKS_ORDER = p. Proof. reflexivity. Qed.
Lemma C24_pin_field_order : FIELD_ORDER = p. Proof. reflexivity. Qed.
Lemma C24_pin_p : p = 2 ^ 64 - 2 ^ 32 + 1. Proof. reflexivity. Qed.
Lemma C24_pin_two32 : two32 = 2 ^ 32 /\ two64 = 2 ^ 64. Proof. split; reflexivity. Qed.
Lemma C24_pin_leaf_offsets :
  [IDX_ASSET_ID; IDX_OUTPUT_AMOUNT_1; IDX_OUTPUT_AMOUNT_2; IDX_VOLUME_FEE_BPS;
   IDX_NULLIFIER_START; IDX_NULLIFIER_END; IDX_EXIT_1_START; IDX_EXIT_1_END;
   IDX_EXIT_2_START; IDX_EXIT_2_END; IDX_BLOCK_HASH_START; IDX_BLOCK_HASH_END; IDX_BLOCK_NUMBER]
  = [0; 1; 2; 3; 4; 8; 8; 12; 12; 16; 16; 20; 20].
Proof. reflexivity. Qed.

(* ---------------------------------------------------------------- the specification, spelled out *)
(* (these lemmas only re-state the definitions used below, so that the file can be read on its own) *)
Lemma C24_spec_wf_leaf pis :
  wf_leaf pis <->
  length pis = 21%nat /\
  u32_at pis 0 /\ u32_at pis 1 /\ u32_at pis 2 /\ u32_at pis 3 /\
  digest_at pis 4 /\ digest_at pis 8 /\ digest_at pis 12 /\ digest_at pis 16 /\ u32_at pis 20.
Proof. reflexivity. Qed.
Lemma C24_spec_wf_priv n pis :
  wf_priv n pis <->
  (1 <= n <= 64)%nat /\ length pis = (8 + 21 * n)%nat /\
  at_ pis 0 = Z.of_nat (2 * n) /\ u32_at pis 1 /\ u32_at pis 2 /\ digest_at pis 3 /\ u32_at pis 7 /\
  slots_wf pis 8 (2 * n) /\ digests_wf pis (8 + 10 * n) n.
Proof. reflexivity. Qed.
Lemma C24_spec_wf_pub m n pis :
  wf_pub m n pis <->
  length pis = (12 + 14 * (m * n))%nat /\
  digest_at pis 0 /\ u32_at pis 4 /\ u32_at pis 5 /\ digest_at pis 6 /\ u32_at pis 10 /\
  at_ pis 11 = Z.of_nat (2 * (m * n)) /\
  slots_wf pis 12 (2 * (m * n)) /\ digests_wf pis (12 + 10 * (m * n)) (m * n).
Proof. reflexivity. Qed.
Lemma C24_spec_regions l cur count :
  (slots_wf l cur count <->
   forall j, (j < count)%nat -> (0 <= at_ l (cur + 5 * j) < two32) /\
                                 (forall k, (k < 4)%nat -> 0 <= at_ l (cur + 5 * j + 1 + k) < p)) /\
  (digests_wf l cur count <->
   forall j, (j < count)%nat -> forall k, (k < 4)%nat -> 0 <= at_ l (cur + 4 * j + k) < p) /\
  (forall j d, (j < count)%nat ->
     nth j (slots_at l cur count) d = mkSlot (at_ l (cur + 5 * j)) (sub l (cur + 5 * j + 1) 4)) /\
  (forall j d, (j < count)%nat -> nth j (digests_at l cur count) d = sub l (cur + 4 * j) 4) /\
  length (slots_at l cur count) = count /\ length (digests_at l cur count) = count.
Proof.
  split; [reflexivity|]. split; [reflexivity|].
  split; [intros; apply slots_at_nth; assumption|].
  split; [intros; apply digests_at_nth; assumption|].
  split; [apply slots_at_length|apply digests_at_length].
Qed.

(* ---------------------------------------------------------------- totality *)
Theorem C24_total :
  (forall pis, Forall (fun x => 0 <= x < two64) pis -> parse_leaf_u64 pis <> Err PANIC) /\
  (forall raw, Forall (fun x => 0 <= x < two64) raw -> parse_leaf_felts raw <> Err PANIC) /\
  (forall pis, Forall (fun x => 0 <= x < two64) pis -> parse_priv_u64 pis <> Err PANIC) /\
  (forall raw, Forall (fun x => 0 <= x < two64) raw -> parse_priv_felts raw <> Err PANIC) /\
  (forall pis m n, Forall (fun x => 0 <= x < two64) pis -> 0 <= m < two64 -> 0 <= n < two64 ->
                   parse_pub_u64 pis m n <> Err PANIC).
Proof. exact parsers_total. Qed.

(* ---------------------------------------------------------------- exact acceptance sets *)
Theorem C24_leaf_accept_iff : forall pis s,
  parse_leaf_u64 pis = Ok s <-> wf_leaf pis /\ s = layout_leaf pis.
Proof. exact leaf_accept_iff. Qed.

Theorem C24_private_accept_iff : forall pis s,
  parse_priv_u64 pis = Ok s <-> exists n, wf_priv n pis /\ s = layout_priv n pis.
Proof. exact priv_accept_iff. Qed.

Theorem C24_public_accept_iff : forall pis m n s,
  0 <= m < two64 -> 0 <= n < two64 ->
  (parse_pub_u64 pis m n = Ok s <->
   1 <= m <= 64 /\ 1 <= n <= 64 /\
   wf_pub (Z.to_nat m) (Z.to_nat n) pis /\ s = layout_pub (Z.to_nat m) (Z.to_nat n) pis).
Proof. exact pub_accept_iff. Qed.

(* the felt-based parsers accept exactly the same set, read on the canonical values of the felts *)
Theorem C24_leaf_felts_accept_iff : forall raw s,
  Forall (fun x => 0 <= x < two64) raw ->
  (parse_leaf_felts raw = Ok s <-> wf_leaf (map to_canonical raw) /\ s = layout_leaf (map to_canonical raw)).
Proof. intros raw s F. apply leaf_canon_accept_iff. apply map_to_canonical_canon. exact F. Qed.

Theorem C24_private_felts_accept_iff : forall raw s,
  Forall (fun x => 0 <= x < two64) raw ->
  (parse_priv_felts raw = Ok s <->
   exists n, wf_priv n (map to_canonical raw) /\ s = layout_priv n (map to_canonical raw)).
Proof. intros raw s F. apply priv_canon_accept_iff. apply map_to_canonical_canon. exact F. Qed.

(* ---------------------------------------------------------------- round trips *)
Theorem C24_roundtrip_leaf : forall s, valid_leaf s -> parse_leaf_u64 (serialize_leaf s) = Ok s.
Proof. exact leaf_roundtrip. Qed.

Theorem C24_roundtrip_private : forall n s padding,
  valid_priv n s -> length padding = (7 * n)%nat -> parse_priv_u64 (serialize_priv s padding) = Ok s.
Proof. exact priv_roundtrip. Qed.

Theorem C24_roundtrip_public : forall m n s,
  valid_pub m n s -> parse_pub_u64 (serialize_pub s) (Z.of_nat m) (Z.of_nat n) = Ok s.
Proof. exact pub_roundtrip. Qed.

(* ---------------------------------------------------------------- the u64 and the felt parsers agree *)
(* Equality is by result class (the value when accepted, "an error" otherwise): the two parsers run
   their checks in different orders, so on an input with two defects they report different errors.
   The hypothesis is the representation invariant of GoldilocksField (its inner value is a u64). *)
Theorem C24_private_parsers_agree : forall raw,
  Forall (fun x => 0 <= x < two64) raw ->
  res_class (parse_priv_felts raw) = res_class (parse_priv_u64 (map to_canonical raw)).
Proof. exact priv_parsers_agree. Qed.

Theorem C24_leaf_parsers_agree : forall raw,
  Forall (fun x => 0 <= x < two64) raw ->
  res_class (parse_leaf_felts raw) = res_class (parse_leaf_u64 (map to_canonical raw)).
Proof. exact leaf_parsers_agree. Qed.

(* without the canonicalisation the parsers do differ: a raw limb >= p is an error for the u64 parser
   and a valid (reduced) limb for the felt parser - which is why the statement above maps to_canonical *)
Example C24_agree_needs_canonical :
  exists raw, Forall (fun x => 0 <= x < two64) raw /\
              res_class (parse_leaf_felts raw) <> res_class (parse_leaf_u64 raw).
Proof.
  exists (repeat 0 4 ++ [p] ++ repeat 0 16). split.
  - repeat constructor; unfold two64, p; lia.
  - vm_compute. discriminate.
Qed.

(* ---------------------------------------------------------------- non-vacuity *)
Example C24_ex_leaf_vector : list Z :=
  [7; 100; 4294967295; 10000;  1; 2; 3; p - 1;  5; 6; 7; 8;  0; 0; 0; 0;  9; 10; 11; 12;  42].
Example C24_ex_leaf_accepted :
  is_ok (parse_leaf_u64 C24_ex_leaf_vector) = true /\ is_ok (parse_leaf_felts C24_ex_leaf_vector) = true /\
  wf_leaf C24_ex_leaf_vector.
Proof.
  split; [vm_compute; reflexivity|]. split; [vm_compute; reflexivity|].
  apply (proj1 (leaf_accept_iff C24_ex_leaf_vector (layout_leaf C24_ex_leaf_vector))). vm_compute. reflexivity.
Qed.

(* n = 2: 8 header felts, 4 slots, 2 nullifiers, 14 felts of (arbitrary, here huge) padding *)
Example C24_ex_priv_vector : list Z :=
  [4; 0; 25; 1; 2; 3; 4; 77] ++
  [10; 1; 1; 1; 1] ++ [20; 2; 2; 2; 2] ++ [0; 0; 0; 0; 0] ++ [4294967295; p - 1; 0; 0; 0] ++
  [11; 12; 13; 14] ++ [21; 22; 23; 24] ++ repeat (two64 - 1) 14.
Example C24_ex_priv_accepted :
  is_ok (parse_priv_u64 C24_ex_priv_vector) = true /\ wf_priv 2 C24_ex_priv_vector /\
  parse_priv_u64 C24_ex_priv_vector = Ok (layout_priv 2 C24_ex_priv_vector).
Proof.
  assert (parse_priv_u64 C24_ex_priv_vector = Ok (layout_priv 2 C24_ex_priv_vector)) as E by (vm_compute; reflexivity).
  split; [rewrite E; reflexivity|]. split; [|exact E].
  destruct (proj1 (priv_accept_iff _ _) E) as (n & W & _).
  assert (length C24_ex_priv_vector = 50%nat) as L50 by reflexivity.
  assert (n = 2%nat) as -> by (destruct W as (_ & L & _); lia). exact W.
Qed.
(* the felt parser on the same vector: the non-canonical padding is reduced, the result is the same *)
Example C24_ex_priv_felts_accepted :
  parse_priv_felts C24_ex_priv_vector = parse_priv_u64 C24_ex_priv_vector.
Proof. vm_compute. reflexivity. Qed.

(* m = 2, n = 1: 12 header felts, 4 slots, 2 nullifiers *)
Example C24_ex_pub_vector : list Z :=
  [1; 2; 3; 4;  0; 25;  5; 6; 7; 8;  99; 4] ++
  [10; 1; 1; 1; 1] ++ [20; 2; 2; 2; 2] ++ [0; 0; 0; 0; 0] ++ [30; 3; 3; 3; p - 1] ++
  [11; 12; 13; 14] ++ [21; 22; 23; 24].
Example C24_ex_pub_accepted :
  parse_pub_u64 C24_ex_pub_vector 2 1 = Ok (layout_pub 2 1 C24_ex_pub_vector) /\ wf_pub 2 1 C24_ex_pub_vector.
Proof.
  assert (parse_pub_u64 C24_ex_pub_vector 2 1 = Ok (layout_pub 2 1 C24_ex_pub_vector)) as E by (vm_compute; reflexivity).
  split; [exact E|].
  apply (pub_accept_iff C24_ex_pub_vector 2 1) in E; [|unfold two64; lia|unfold two64; lia].
  destruct E as (_ & _ & W & _). exact W.
Qed.

(* valid structures exist (hypotheses of the round-trip theorems are satisfiable), and rejection happens *)
Ltac ex_valid :=
  repeat match goal with
         | |- _ /\ _ => split
         | |- Forall _ _ => constructor
         | |- digestP _ => split
         | |- valid_slot _ => split
         end;
  cbn [s_sum s_account];
  first [reflexivity | lia | (unfold is_u32P, canonP, p, two32; lia)].
Example C24_ex_valid_structures :
  valid_leaf (layout_leaf C24_ex_leaf_vector) /\ valid_priv 2 (layout_priv 2 C24_ex_priv_vector) /\
  valid_pub 2 1 (layout_pub 2 1 C24_ex_pub_vector).
Proof.
  let t := eval vm_compute in (layout_leaf C24_ex_leaf_vector) in change (layout_leaf C24_ex_leaf_vector) with t.
  let t := eval vm_compute in (layout_priv 2 C24_ex_priv_vector) in change (layout_priv 2 C24_ex_priv_vector) with t.
  let t := eval vm_compute in (layout_pub 2 1 C24_ex_pub_vector) in change (layout_pub 2 1 C24_ex_pub_vector) with t.
  unfold valid_leaf, valid_priv, valid_pub.
  cbn [l_asset l_out1 l_out2 l_fee l_null l_exit1 l_exit2 l_bh l_bn
       pb_num_exit_slots pb_asset pb_fee pb_bh pb_bn pb_slots pb_nulls
       pu_addr pu_asset pu_fee pu_bh pu_bn pu_total pu_slots pu_nulls].
  ex_valid.
Qed.
Example C24_ex_rejections :
  res_class (parse_leaf_u64 (repeat 0 20)) = None /\
  res_class (parse_priv_u64 (1 :: repeat 0 28)) = None /\          (* pis[0] <> 2n *)
  res_class (parse_priv_u64 (repeat 0 (8 + 21 * 65))) = None /\   (* 65 leaves *)
  res_class (parse_pub_u64 C24_ex_pub_vector 65 1) = None /\
  res_class (parse_pub_u64 C24_ex_pub_vector 0 1) = None.
Proof. vm_compute. repeat split; reflexivity. Qed.
