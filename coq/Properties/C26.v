(* C26 - compact node hashing is injective on the domain it accepts.
   Model: Sys/Encoding.v; proofs: Sys/EncodingProofs.v.  The Poseidon2 sponge is the arbitrary function
   [H : list Z -> list Z]; every statement holds for all H.  [limbs8 bs] is the list of little-endian
   8-byte limbs of [bs]; [p] is the Goldilocks modulus (a literal). *)
From Coq Require Import Permutation Sorted.
From V.Base Require Import Common.
From V.Generated Require Import Constants.
From V.Sys Require Import Encoding EncodingProofs.

Lemma C26_pin_max_bytes : MAX_SERIALIZED_BYTES = 1048576. Proof. reflexivity. Qed.
Lemma C26_pin_moduli :
  POSEIDON_CORE_P = 18446744069414584321 /\ MERKLE_GOLDILOCKS_MODULUS = 18446744069414584321 /\
  FIELD_ORDER = 18446744069414584321 /\ p = 18446744069414584321.
Proof. repeat split; reflexivity. Qed.
Lemma C26_pin_node_shape : MERKLE_ARITY = 4 /\ MERKLE_CHILDREN_BYTES = 128 /\ DIGEST_BYTES_LEN = 32.
Proof. repeat split; reflexivity. Qed.

(* accepted iff length <= 2^20, length a multiple of 8, every 8-byte limb below p; never a panic.
   The last two clauses say what "limb" means: limbs8 inverts the concatenation of 8-byte LE words. *)
Theorem C26_accept_iff :
  (forall H bs, is_ok (hash_bytes_compact H bs) = true <->
     (zlen bs <= 1048576 /\ zlen bs mod 8 = 0 /\ Forall (fun v => v < p) (limbs8 bs))) /\
  (forall H bs, hash_bytes_compact H bs <> Err (-1)) /\
  (forall ls, Forall (fun v => 0 <= v < two64) ls -> limbs8 (flat_map (to_le 8) ls) = ls) /\
  (forall bs, Forall (fun b => 0 <= b < 256) bs -> zlen bs mod 8 = 0 ->
     flat_map (to_le 8) (limbs8 bs) = bs /\ Forall (fun v => 0 <= v < two64) (limbs8 bs)).
Proof. exact c26_accept. Qed.

(* distinct accepted inputs are handed to the sponge as distinct felt sequences
   ([compact_preimage] is the felt list that is hashed, second clause) *)
Theorem C26_encoding_injective :
  (forall a b fa fb, Forall (fun x => 0 <= x < 256) a -> Forall (fun x => 0 <= x < 256) b ->
     compact_preimage a = Ok fa -> compact_preimage b = Ok fb -> fa = fb -> a = b) /\
  (forall H bs, hash_bytes_compact H bs =
                match compact_preimage bs with Ok f => Ok (hash_to_bytes H f) | Err c => Err c end).
Proof. exact c26_injective. Qed.

(* partial (as designed): that distinct felt sequences hash distinctly is collision resistance of
   the sponge - an explicit premise here *)
Theorem C26_hash_injective_given_collision_free_sponge_partial :
  forall H a b ha hb, Forall (fun x => 0 <= x < 256) a -> Forall (fun x => 0 <= x < 256) b ->
    (forall x y, hash_to_bytes H x = hash_to_bytes H y -> x = y) ->
    hash_bytes_compact H a = Ok ha -> hash_bytes_compact H b = Ok hb -> ha = hb -> a = b.
Proof. exact compact_hash_injective_cr. Qed.

(* four 32-byte children: a value iff every child is canonical, otherwise the error (code 3, not the
   panic code -1) - for both node hashes; is_canonical_hash is "every limb below p" *)
Theorem C26_node_error_not_value :
  (forall H cs, zlen cs = 4 -> Forall (fun c => zlen c = 32) cs ->
     hash_node H cs =
     if forallb is_canonical_hash cs then Ok (hash_to_bytes H (flat_map limbs8 (sort_children cs))) else Err 3) /\
  (forall H cs, zlen cs = 4 -> Forall (fun c => zlen c = 32) cs ->
     hash_node_presorted H cs =
     if forallb is_canonical_hash cs then Ok (hash_to_bytes H (flat_map limbs8 cs)) else Err 3) /\
  (forall c, is_canonical_hash c = true <-> Forall (fun v => v < p) (limbs8 c)).
Proof. exact c26_node_error. Qed.

Theorem C26_node_order_independent :
  forall H c1 c2, Permutation c1 c2 -> hash_node H c1 = hash_node H c2.
Proof. exact node_order_independent. Qed.

(* presorted hashing agrees on sorted children; hash_node is presorted hashing of the sorted
   arrangement, which is sorted and a permutation; the byte-lexicographic order is a total order *)
Theorem C26_presorted_on_sorted :
  (forall H cs, StronglySorted (fun a b => lex_leb a b = true) cs -> hash_node H cs = hash_node_presorted H cs) /\
  (forall H cs, hash_node H cs = hash_node_presorted H (sort_children cs)) /\
  (forall cs, StronglySorted (fun a b => lex_leb a b = true) (sort_children cs) /\ Permutation (sort_children cs) cs) /\
  (forall a b, lex_leb a b = true \/ lex_leb b a = true) /\
  (forall a b, lex_leb a b = true -> lex_leb b a = true -> a = b) /\
  (forall a b c, lex_leb a b = true -> lex_leb b c = true -> lex_leb a c = true).
Proof. exact c26_presorted. Qed.

(* ---- non-vacuity, with a toy sponge (first four felts of the preimage) *)
Definition toyH (l : list Z) : list Z := firstn 4 l.
Example C26_ex_accept :
  is_ok (hash_bytes_compact toyH (to_le 8 (p - 1) ++ to_le 8 5)) = true /\
  hash_bytes_compact toyH (to_le 8 p ++ to_le 8 5) = Err 3 /\
  hash_bytes_compact toyH [1; 2; 3] = Err 2 /\
  hash_bytes_compact toyH [] = Ok [].
Proof. repeat split; reflexivity. Qed.
Example C26_ex_node :
  let a := repeat 1 32 in let b := repeat 2 32 in let c := 0 :: repeat 3 31 in let d := repeat 2 31 ++ [1] in
  hash_node toyH [a; b; c; d] = hash_node toyH [d; c; b; a] /\
  is_ok (hash_node toyH [a; b; c; d]) = true /\
  sort_children [a; b; c; d] = [c; a; d; b] /\
  hash_node toyH [c; a; d; b] = hash_node_presorted toyH [c; a; d; b] /\
  hash_node toyH [a; b; c; d] <> hash_node_presorted toyH [a; b; c; d] /\
  hash_node toyH [a; repeat 255 32; c; d] = Err 3.
Proof. cbv zeta. repeat split; try reflexivity. vm_compute. discriminate. Qed.
