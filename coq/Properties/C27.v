(* C27 - Native Merkle proofs verify exactly the valid 4-ary paths, like the circuit.

   Model: Sys/Merkle.v (hand-written after common/src/zk_merkle.rs and the path part of
   wormhole/circuit/src/zk_merkle_proof.rs; tied to the implementation by the differential run of
   harness/src/bin/merkle.rs, Poseidon2 answered natively).  Proofs: Sys/MerkleProofs.v.
   A 32-byte hash is the list of its four little-endian u64 limbs.  H is the Poseidon2 sponge as an arbitrary
   function; the only premise about it is [hash_wf H]: it returns four canonical field elements.

   Vocabulary (defined in MerkleProofs.v, independent of the functions under proof; C27_spec_* restate it):
     typed_digest d / typed_level l / typed_proof pr   the Rust types ([u8; 32] as 4 limbs < 2^64, [Hash256; 3], Vec<u8>)
     canonical d        4 limbs, each 0 <= v < p           canonical_level l   3 canonical hashes
     fold_insert H cur levels   fold over (siblings, position): cur := H (concat (siblings with cur inserted at position))
     hash_le / hash_lt  byte-lexicographic order of the 32-byte strings (C27_order_is_bytewise)
     rank cur sibs      number of siblings strictly below cur in that order
     normalised H leaf unsorted stored positions   what from_unsorted stores for a path (C27_spec_normalised)
     root_of H leaf unsorted   the root of the path when every child set is hashed in sorted order *)
From Coq Require Import ZArith List Bool Permutation Sorted.
From V.Base Require Import Common.
From V.Generated Require Import Constants.
From V.Circ Require Import Field Core Prims Gadgets Leaf.
From V.Sys Require Import Merkle MerkleProofs.
Import ListNotations.
Local Open Scope Z_scope.
(* mathcomp.zify (loaded through Base/Flt.v) resets the hook; set it again after all imports *)
Ltac Zify.zify_post_hook ::= Z.div_mod_to_equations.

(* ---------------------------------------------------------------- constants of the property text, pinned to /repo *)
Lemma C27_pin_max_depth : MERKLE_MAX_DEPTH = 16. Proof. reflexivity. Qed.
Lemma C27_pin_arity : MERKLE_ARITY = 4 /\ MERKLE_SIBLINGS_PER_LEVEL = 3. Proof. split; reflexivity. Qed.
Lemma C27_pin_modulus : MERKLE_GOLDILOCKS_MODULUS = p /\ p = 2 ^ 64 - 2 ^ 32 + 1. Proof. split; reflexivity. Qed.
Lemma C27_pin_children : MERKLE_CHILDREN_BYTES = 128 /\ POSEIDON2_OUTPUT = 4. Proof. split; reflexivity. Qed.
(* the comparison width of the circuit's depth gadgets: bit length of MAX_DEPTH *)
Lemma C27_pin_n_log : Z.of_nat n_log_depth = Z.log2 MERKLE_MAX_DEPTH + 1. Proof. reflexivity. Qed.

(* ---------------------------------------------------------------- the specification vocabulary, spelled out *)
Lemma C27_spec_types d l :
  (typed_digest d <-> length d = 4%nat /\ Forall (fun v => 0 <= v < two64) d) /\
  (typed_level l <-> length l = 3%nat /\ Forall typed_digest l) /\
  (canonical d <-> length d = 4%nat /\ Forall (fun v => 0 <= v < p) d) /\
  (canonical_level l <-> length l = 3%nat /\ Forall canonical l).
Proof. split; [reflexivity|split; [reflexivity|split; reflexivity]]. Qed.
Lemma C27_spec_typed_proof pr :
  typed_proof pr <->
  Forall typed_level (pf_siblings pr) /\ Forall (fun q => 0 <= q < 256) (pf_positions pr) /\
  typed_digest (pf_leaf pr) /\ typed_digest (pf_root pr).
Proof. split; [intros [A B C D]; tauto|intros (A & B & C & D); constructor; assumption]. Qed.
Lemma C27_spec_hash_wf H : hash_wf H <-> forall l, length (H l) = 4%nat /\ Forall (fun v => 0 <= v < p) (H l).
Proof. reflexivity. Qed.
Lemma C27_spec_fold H cur sibs pos rest :
  fold_insert H cur [] = cur /\
  fold_insert H cur ((sibs, pos) :: rest) =
  fold_insert H (H (concat (firstn (Z.to_nat pos) sibs ++ cur :: skipn (Z.to_nat pos) sibs))) rest.
Proof. split; reflexivity. Qed.
Lemma C27_spec_rank cur sibs :
  rank cur sibs = Z.of_nat (length (filter (fun s => hash_ltb s cur) sibs)) /\
  (forall a b, hash_lt a b <-> hash_ltb a b = true) /\ (forall a b, hash_le a b <-> hash_leb a b = true) /\
  (forall a b, hash_ltb a b = negb (hash_leb b a)).
Proof. split; [reflexivity|split; [intros; reflexivity|split; [intros; reflexivity|intros; reflexivity]]]. Qed.
Lemma C27_spec_normalised H cur lv ur s sr q qr :
  (normalised H cur [] [] [] <-> True) /\
  (normalised H cur (lv :: ur) (s :: sr) (q :: qr) <->
   q = rank cur lv /\ Permutation s lv /\ StronglySorted hash_le s /\
   firstn (Z.to_nat q) s ++ cur :: skipn (Z.to_nat q) s = sort_hashes (cur :: lv) /\
   normalised H (H (concat (sort_hashes (cur :: lv)))) ur sr qr) /\
  root_of H cur [] = cur /\
  root_of H cur (lv :: ur) = root_of H (H (concat (sort_hashes (cur :: lv)))) ur.
Proof. split; [reflexivity|split; [reflexivity|split; reflexivity]]. Qed.
(* [sort_hashes] is the sorted arrangement, the unique one ([T]::sort of the code, whatever its algorithm) *)
Theorem C27_spec_sort : forall l,
  Permutation (sort_hashes l) l /\ StronglySorted hash_le (sort_hashes l) /\
  (forall s, Forall typed_digest l -> Permutation s l -> StronglySorted hash_le s -> sort_hashes l = s).
Proof. intros l. split; [apply sort_perm|]. split; [apply sort_sorted|]. intros s. apply sort_unique. Qed.

(* the order is the byte-lexicographic one of the 32-byte strings: total, antisymmetric on hashes, and
   "strictly below" means that the first differing byte (byte 0 = least significant byte of limb 0) is smaller *)
Theorem C27_order_is_bytewise :
  (forall a b, length a = length b ->
     (hash_lt a b <-> lex_lt (flat_map (to_le 8) a) (flat_map (to_le 8) b))) /\
  (forall x y a b, lex_lt (x :: a) (y :: b) <-> x < y \/ (x = y /\ lex_lt a b)) /\
  (forall a, hash_le a a) /\
  (forall a b, hash_le a b \/ hash_le b a) /\
  (forall a b c, hash_le a b -> hash_le b c -> hash_le a c) /\
  (forall a b, typed_digest a -> typed_digest b -> hash_le a b -> hash_le b a -> a = b).
Proof.
  split; [exact hash_lt_spec|]. split.
  { intros x y a b. split.
    - intros I. inversion I; subst; [left; assumption|right; split; [reflexivity|assumption]].
    - intros [L|[-> L]]; [apply lex_lt_here; exact L|apply lex_lt_next; exact L]. }
  split; [exact hash_le_refl|]. split.
  { intros a b. destruct (hash_leb a b) eqn:E; [left; exact E|right; apply hash_le_total; exact E]. }
  split; [exact hash_le_trans|exact hash_le_antisym].
Qed.
(* it is NOT the numeric order of the limbs: limb 0x0100 has bytes 00 01 .., limb 0x0001 has bytes 01 00 .. *)
Example C27_byte_order_not_numeric : hash_lt [256; 0; 0; 0] [1; 0; 0; 0] /\ 1 < 256.
Proof. split; reflexivity. Qed.

(* ---------------------------------------------------------------- 1. the native verifier *)
(* verify and verify_with_positions accept exactly: depth <= 16, one position per level, leaf and every sibling
   canonical, every position in 0..3, and the fold of the position-inserted node hash reaches the root.
   The code does not test the root for canonicity; it follows (C27_verify_root_canonical). *)
Theorem C27_verify_iff : forall H pr, hash_wf H -> typed_proof pr ->
  (verify H pr = true <->
   zlen (pf_siblings pr) <= 16 /\
   length (pf_positions pr) = length (pf_siblings pr) /\
   canonical (pf_leaf pr) /\
   Forall canonical_level (pf_siblings pr) /\
   Forall (fun q => 0 <= q < 4) (pf_positions pr) /\
   fold_insert H (pf_leaf pr) (combine (pf_siblings pr) (pf_positions pr)) = pf_root pr).
Proof. exact verify_iff. Qed.

Theorem C27_verify_root_canonical : forall H pr, hash_wf H -> typed_proof pr ->
  verify H pr = true -> canonical (pf_root pr).
Proof. exact verify_root_canonical. Qed.

(* the API returns a plain bool (no Result): the model does too, so "never panics, never errors" is its type;
   the two entry points are the same function *)
Theorem C27_verify_total : forall H pr,
  (verify H pr = true \/ verify H pr = false) /\ verify H pr = verify_with_positions H pr.
Proof. intros H pr. split; [destruct (verify H pr); [left|right]; reflexivity|reflexivity]. Qed.

(* ---------------------------------------------------------------- 2. insert_at_position *)
Theorem C27_insert_at_position : forall cur sibs pos, length sibs = 3%nat ->
  (0 <= pos < 4 ->
   insert_at_position cur sibs pos = Ok (firstn (Z.to_nat pos) sibs ++ cur :: skipn (Z.to_nat pos) sibs)) /\
  (~ 0 <= pos < 4 -> insert_at_position cur sibs pos = Err 1) /\
  insert_at_position cur sibs pos <> Err PANIC.
Proof. exact insert_at_position_exact. Qed.
Theorem C27_insert_at_position_shapes : forall cur s0 s1 s2,
  insert_at_position cur [s0; s1; s2] 0 = Ok [cur; s0; s1; s2] /\
  insert_at_position cur [s0; s1; s2] 1 = Ok [s0; cur; s1; s2] /\
  insert_at_position cur [s0; s1; s2] 2 = Ok [s0; s1; cur; s2] /\
  insert_at_position cur [s0; s1; s2] 3 = Ok [s0; s1; s2; cur].
Proof. exact insert_at_position_shapes. Qed.

(* ---------------------------------------------------------------- 3. from_unsorted *)
(* For every canonical path of depth <= 16 (and any root bytes): success; leaf and root are stored as given; per
   level the position is the rank of the running hash among the four children in byte-lexicographic order - when
   the running hash equals a sibling it takes the FIRST of the equal slots (rank counts strictly smaller
   siblings only) -, the stored siblings are the given ones in sorted order, and inserting the running hash
   at the position gives the sorted child set; the result verifies iff the given root is the path's root, and it
   always verifies against that computed root. *)
Theorem C27_from_unsorted_ok : forall H leaf root sibs, hash_wf H ->
  zlen sibs <= 16 -> canonical leaf -> Forall canonical_level sibs -> typed_digest root ->
  exists pr, from_unsorted H sibs leaf root = Ok pr /\
    pf_leaf pr = leaf /\ pf_root pr = root /\
    normalised H leaf sibs (pf_siblings pr) (pf_positions pr) /\
    typed_proof pr /\
    (verify H pr = true <-> root = root_of H leaf sibs) /\
    verify H (mkProof (pf_siblings pr) (pf_positions pr) leaf (root_of H leaf sibs)) = true.
Proof. exact from_unsorted_ok. Qed.

(* the computed root is the fold of the order-independent hash_node over the raw child sets *)
Theorem C27_root_of_is_hash_node_fold : forall H levels cur, hash_wf H -> canonical cur -> Forall (Forall canonical) levels ->
  compute_root H cur levels = Ok (root_of H cur levels).
Proof. intros H levels cur Hwf. apply compute_root_spec. exact Hwf. Qed.

(* depth > 16 or a non-canonical leaf / sibling: an error, never a value, never a panic *)
Theorem C27_from_unsorted_rejects : forall H leaf root sibs, hash_wf H -> typed_digest leaf -> Forall typed_level sibs ->
  (is_ok (from_unsorted H sibs leaf root) = true <->
   zlen sibs <= 16 /\ canonical leaf /\ Forall canonical_level sibs) /\
  from_unsorted H sibs leaf root <> Err PANIC.
Proof. exact from_unsorted_accepts_iff. Qed.

(* ---------------------------------------------------------------- 4. the leaf circuit's tree walk *)
(* the leaf circuit (Leaf.v, the object of C01-C04) consumes the tree path only through [path_circuit] *)
Theorem C27_leaf_circuit_contains_path : forall i,
  zk_merkle_circuit i =
  (_ <- range_check_all (li_leaf_tc i ++ [li_asset i; li_input_amount i; li_out1 i; li_out2 i; li_fee i]) 32 ;;
   _ <- range_check (fsub 10000 (li_fee i)) 14 ;;
   _ <- range_check (fsub (fmul (li_input_amount i) (fsub 10000 (li_fee i))) (fmul (fadd (li_out1 i) (li_out2 i)) 10000)) 48 ;;
   Hash (li_to_account i ++ li_leaf_tc i ++ [li_asset i; li_input_amount i]) (fun leaf_hash =>
   path_circuit (li_depth i) leaf_hash (li_siblings i) (li_positions i) (li_root_hash i) (li_is_not_dummy i))).
Proof. exact zk_merkle_circuit_path. Qed.
Lemma C27_spec_path_circuit depth leaf_hash sibs positions root flag :
  path_circuit depth leaf_hash sibs positions root flag =
  (_ <- enforce_target_less_than_const depth (MERKLE_MAX_DEPTH + 1) n_log_depth ;;
   root' <- merkle_walk 0 depth leaf_hash (combine sibs positions) ;;
   assert_gated root' root flag (Ret tt)).
Proof. reflexivity. Qed.

(* A real (is_not_dummy = 1) statement whose path data is canonical: the depth target holds the number of
   levels, the 16 level targets hold the path followed by ANY padding of the unused levels (canonical hashes,
   positions below 4; fill_targets uses zeros).  Then the walk computes the native fold (the activity flags
   level < depth select exactly the first depth levels), and the path constraints are satisfiable - by the
   honest witness generators (hon) and by any adversarial prover (rel) alike - iff the native verifier accepts
   the same path.  Positions of the USED levels are arbitrary bytes here: 4.. is rejected by both sides. *)
Theorem C27_circuit_iff_native : forall H, hash_wf H -> forall pr pad_s pad_q,
  typed_proof pr ->
  canonical (pf_leaf pr) -> Forall canonical_level (pf_siblings pr) -> canonical (pf_root pr) ->
  length (pf_positions pr) = length (pf_siblings pr) ->
  (length (pf_siblings pr) + length pad_s = 16)%nat -> length pad_q = length pad_s ->
  Forall canonical_level pad_s -> Forall (fun q => 0 <= q < 4) pad_q ->
  let c := path_circuit (zlen (pf_siblings pr)) (pf_leaf pr) (pf_siblings pr ++ pad_s) (pf_positions pr ++ pad_q)
                        (pf_root pr) 1 in
  (hon H c = Some tt <-> verify H pr = true) /\
  (rel H c (fun _ => True) <-> verify H pr = true) /\
  hon H (merkle_walk 0 (zlen (pf_siblings pr)) (pf_leaf pr) (combine (pf_siblings pr ++ pad_s) (pf_positions pr ++ pad_q)))
  = if forallb (fun q => q <? 4) (pf_positions pr)
    then Some (fold_insert H (pf_leaf pr) (combine (pf_siblings pr) (pf_positions pr))) else None.
Proof. exact path_circuit_iff_native. Qed.

(* the same through the prover's own data path (ZkMerkleProofData::new; fill_targets with its depth / length /
   position checks and zero padding), for proofs of ANY depth and ANY position / length vectors *)
Theorem C27_prover_data_iff_native : forall H, hash_wf H -> forall pr,
  typed_proof pr ->
  canonical (pf_leaf pr) -> Forall canonical_level (pf_siblings pr) -> canonical (pf_root pr) ->
  circuit_accepts_path H (pf_leaf pr) (pf_siblings pr) (pf_positions pr) (pf_root pr) = verify H pr.
Proof. exact prover_data_iff_native. Qed.

(* The canonicity premise cannot be dropped: the prover's conversion reduces limbs mod p, so for a byte path
   containing a non-canonical alias (limb v + p) the circuit sees the canonical path and accepts, while the
   native verifier rejects the byte string.  (Hashes of a real tree are sponge outputs, hence canonical.) *)
Theorem C27_circuit_iff_native_noncanonical_refuted : forall H, hash_wf H ->
  exists pr, typed_proof pr /\ verify H pr = false /\
    circuit_accepts_path H (map felt_of_limb (pf_leaf pr)) (map (map (map felt_of_limb)) (pf_siblings pr))
                         (pf_positions pr) (map felt_of_limb (pf_root pr)) = true.
Proof. exact noncanonical_gap. Qed.

(* ---------------------------------------------------------------- non-vacuity *)
Example C27_ex_hash_wf : hash_wf toyH.
Proof. exact toyH_wf. Qed.

(* depth 0: the leaf is the root *)
Example C27_ex_depth0 :
  verify toyH (mkProof [] [] [1; 2; 3; 4] [1; 2; 3; 4]) = true /\
  verify toyH (mkProof [] [] [1; 2; 3; 4] [1; 2; 3; 5]) = false /\
  verify toyH (mkProof [] [] [p; 2; 3; 4] [p; 2; 3; 4]) = false.
Proof. repeat split; vm_compute; reflexivity. Qed.

(* depth 2, with a tie (the leaf equals a sibling: it takes the first of the two equal slots, position 2), a
   byte-order / numeric-order disagreement (256 sorts before 1) and the limb p - 1 *)
Definition C27_ex_leaf : list Z := [5; 0; 0; 0].
Definition C27_ex_sibs : list (list (list Z)) :=
  [[[256; 0; 0; 0]; [1; 0; 0; 0]; [5; 0; 0; 0]]; [[0; 0; 0; 9]; [p - 1; 1; 2; 3]; [0; 0; 0; 0]]].
Definition C27_ex_root : list Z := [490471694581219623; 13180635784788345910; 5; 7].
Example C27_ex_depth2 :
  from_unsorted toyH C27_ex_sibs C27_ex_leaf C27_ex_root =
    Ok (mkProof [[[256; 0; 0; 0]; [1; 0; 0; 0]; [5; 0; 0; 0]]; [[0; 0; 0; 0]; [0; 0; 0; 9]; [p - 1; 1; 2; 3]]]
                [2; 3] C27_ex_leaf C27_ex_root) /\
  root_of toyH C27_ex_leaf C27_ex_sibs = C27_ex_root /\
  verify toyH (mkProof [[[256; 0; 0; 0]; [1; 0; 0; 0]; [5; 0; 0; 0]]; [[0; 0; 0; 0]; [0; 0; 0; 9]; [p - 1; 1; 2; 3]]]
                       [2; 3] C27_ex_leaf C27_ex_root) = true /\
  (* a wrong position hint; the other slot of the tie (same children, so it verifies too); a 17-level path *)
  verify toyH (mkProof [[[256; 0; 0; 0]; [1; 0; 0; 0]; [5; 0; 0; 0]]; [[0; 0; 0; 0]; [0; 0; 0; 9]; [p - 1; 1; 2; 3]]]
                       [1; 3] C27_ex_leaf C27_ex_root) = false /\
  verify toyH (mkProof [[[256; 0; 0; 0]; [1; 0; 0; 0]; [5; 0; 0; 0]]; [[0; 0; 0; 0]; [0; 0; 0; 9]; [p - 1; 1; 2; 3]]]
                       [3; 3] C27_ex_leaf C27_ex_root) = true /\
  is_ok (from_unsorted toyH (repeat [[0; 0; 0; 0]; [0; 0; 0; 0]; [0; 0; 0; 0]] 17) C27_ex_leaf [0; 0; 0; 0]) = false /\
  (* the circuit side on the same path *)
  circuit_accepts_path toyH C27_ex_leaf
    [[[256; 0; 0; 0]; [1; 0; 0; 0]; [5; 0; 0; 0]]; [[0; 0; 0; 0]; [0; 0; 0; 9]; [p - 1; 1; 2; 3]]] [2; 3] C27_ex_root = true.
Proof. repeat split; vm_compute; reflexivity. Qed.
Example C27_ex_rank_tie : rank [1; 0; 0; 0] [[1; 0; 0; 0]; [0; 0; 0; 0]; [2; 0; 0; 0]] = 1.
Proof. reflexivity. Qed.
(* the hypotheses of C27_from_unsorted_ok / C27_circuit_iff_native are met by that path *)
Example C27_ex_hyps :
  canonical C27_ex_leaf /\ Forall canonical_level C27_ex_sibs /\ zlen C27_ex_sibs <= 16.
Proof.
  split; [split; [reflexivity|repeat constructor; unfold p; lia]|].
  split; [|vm_compute; discriminate].
  repeat (constructor; [split; [reflexivity|repeat (constructor; [split; [reflexivity|repeat constructor; unfold p; lia]|])]; constructor|]).
  constructor.
Qed.
