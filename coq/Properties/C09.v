(* C09 - Slot-order independence of the private-batch public output.

   Let two batches hold the same (child statement, dummy preimage) pairs in different slot orders, the
   first one accepted.  Then the second is accepted too and the public outputs agree on
     - the header felts 0..6 (slot count, asset, fee, block hash); also on the block number (felt 7)
       PROVIDED real children with equal block hashes have equal block numbers - the wrapper itself does
       not enforce that (it is the leaf circuit's binding), and without it the block number shown is the
       first real slot's, i.e. order dependent (C09_perm_block_number_refuted),
     - the whole nullifier region, felt for felt (it is sorted),
     - the multiset of non-zero exit slots (within one output they stand at the first slot of their account).
   Every slot that repeats an earlier account is the all-zero slot; so is every slot of a dummy child
   PROVIDED no real child pays a non-zero amount to the all-zero account (otherwise the first slot of
   the all-zero account, possibly a dummy's, shows that total: C09_dummy_slot_zero_refuted).
   Fields of dummy slots other than the block hash and the asset id never influence the output.

   Model: Circ/PrivateBatch.v (circuit_logic.rs:171); specification Spec/LeanPort.v; proofs
   Circ/PrivateBatchProofs.v.  By C06 [priv_output H leaves us] is the output of every satisfying witness. *)
From Coq Require Import Permutation.
From V.Base Require Import Common.
From V.Generated Require Import Constants.
From V.Circ Require Import Field Core Prims Gadgets SortNet Sorting PrivateBatch PrivateBatchProofs.
From V.Spec Require Import LeanPort.

Local Open Scope Z_scope.

(* ---------------------------------------------------------------- constants pinned to /repo *)
Lemma C09_pin_leaf_pi_len : PR_LEAF_PI_LEN = 21. Proof. reflexivity. Qed.
Lemma C09_pin_out_layout : PR_OUT_HEADER_LEN = 8 /\ PR_OUT_EXIT_SLOT_LEN = 5 /\ PR_OUT_BLOCK_NUMBER_OFFSET = 7.
Proof. repeat split; reflexivity. Qed.
Lemma C09_pin_max : MAX_PROOF_COUNT = 64. Proof. reflexivity. Qed.

(* ---------------------------------------------------------------- vocabulary, spelled out *)
Lemma C09_spec_bn_determined leaves :
  bn_determined leaves <->
  (forall q q', In q leaves -> In q' leaves -> is_real_pb q = true -> is_real_pb q' = true ->
                lf_bh q = lf_bh q' -> lf_bn q = lf_bn q').
Proof. reflexivity. Qed.
Lemma C09_spec_nonzero_slot s k : nonzero_slot (s, k) = negb ((s =? 0) && list_eqb k [0; 0; 0; 0]).
Proof. reflexivity. Qed.
Lemma C09_spec_no_payment_to_zero_account leaves :
  no_payment_to_zero_account leaves <->
  (forall q, In q leaves -> is_real_pb q = true ->
     (lf_exit1 q = zero4 -> lf_out1 q = 0) /\ (lf_exit2 q = zero4 -> lf_out2 q = 0)).
Proof. reflexivity. Qed.
Lemma C09_spec_same_up_to_dummy_fields q q' :
  same_up_to_dummy_fields q q' <->
  (q = q' \/ (is_dummy_pb q = true /\ is_dummy_pb q' = true /\ lf_asset q = lf_asset q')).
Proof. reflexivity. Qed.
Lemma C09_spec_out_exit_slots n out : out_exit_slots n out = read_slots (2 * n) (skipn 8 out).
Proof. reflexivity. Qed.
Lemma C09_spec_key_at xs k : key_at xs k = fst (nth k xs ([], 0)). Proof. reflexivity. Qed.

(* ---------------------------------------------------------------- the property *)
Theorem C09_perm_accepted : forall leaves us leaves' us' : list (list Z),
  length us = length leaves -> length us' = length leaves' ->
  Permutation (combine leaves us) (combine leaves' us') ->
  priv_compat leaves = true -> priv_compat leaves' = true.
Proof. exact perm_compat. Qed.

Theorem C09_perm_header : forall H (leaves us leaves' us' : list (list Z)),
  Forall leaf_wf leaves -> length us = length leaves -> length us' = length leaves' ->
  Permutation (combine leaves us) (combine leaves' us') -> priv_compat leaves = true ->
  bn_determined leaves ->
  firstn 8 (priv_output H leaves us) = firstn 8 (priv_output H leaves' us').
Proof. exact perm_header. Qed.
Theorem C09_perm_header_without_number : forall H (leaves us leaves' us' : list (list Z)),
  Forall leaf_wf leaves -> length us = length leaves -> length us' = length leaves' ->
  Permutation (combine leaves us) (combine leaves' us') -> priv_compat leaves = true ->
  firstn 7 (priv_output H leaves us) = firstn 7 (priv_output H leaves' us').
Proof. exact perm_header_without_number. Qed.
Theorem C09_perm_block_number_refuted :
  exists H leaves us leaves' us',
    (forall l, length (H l) = 4%nat /\ Forall canon (H l)) /\
    Forall leaf_wf leaves /\ length us = length leaves /\ length us' = length leaves' /\
    Permutation (combine leaves us) (combine leaves' us') /\ priv_compat leaves = true /\
    firstn 8 (priv_output H leaves us) <> firstn 8 (priv_output H leaves' us').
Proof. exact perm_block_number_refuted. Qed.

Theorem C09_perm_nullifiers : forall H,
  (forall l, length (H l) = 4%nat /\ Forall canon (H l)) ->
  forall leaves us leaves' us' : list (list Z),
  Forall leaf_wf leaves -> length us = length leaves -> length us' = length leaves' ->
  Permutation (combine leaves us) (combine leaves' us') ->
  firstn (4 * length leaves) (skipn (8 + 10 * length leaves) (priv_output H leaves us)) =
  firstn (4 * length leaves') (skipn (8 + 10 * length leaves') (priv_output H leaves' us')).
Proof. exact perm_output_nullifiers. Qed.

Theorem C09_perm_exits : forall H (leaves us leaves' us' : list (list Z)),
  Forall leaf_wf leaves -> length us = length leaves -> length us' = length leaves' ->
  Permutation (combine leaves us) (combine leaves' us') ->
  Permutation (filter nonzero_slot (out_exit_slots (length leaves) (priv_output H leaves us)))
              (filter nonzero_slot (out_exit_slots (length leaves') (priv_output H leaves' us'))).
Proof. exact perm_output_exit_slots. Qed.
(* within one output the groups stand in slot order: at the first slot of their account (C06) *)
Theorem C09_exits_in_slot_order : forall H leaves us, Forall leaf_wf leaves ->
  out_exit_slots (length leaves) (priv_output H leaves us) = groupExits (maskedChildPairs leaves).
Proof. exact output_exit_slots. Qed.

Theorem C09_zero_slots_duplicate : forall H leaves us, Forall leaf_wf leaves ->
  forall k, (k < 2 * length leaves)%nat ->
  (exists j, (j < k)%nat /\ key_at (maskedChildPairs leaves) j = key_at (maskedChildPairs leaves) k) ->
  nth k (out_exit_slots (length leaves) (priv_output H leaves us)) (0, zero4) = (0, zero4).
Proof. exact output_duplicate_slots_zero. Qed.
Theorem C09_zero_slots_dummy : forall H leaves us, Forall leaf_wf leaves ->
  forall i j, (i < length leaves)%nat -> is_dummy_pb (nth i leaves []) = true ->
  no_payment_to_zero_account leaves -> (j = 2 * i \/ j = 2 * i + 1)%nat ->
  nth j (out_exit_slots (length leaves) (priv_output H leaves us)) (0, zero4) = (0, zero4).
Proof. exact output_dummy_slots_zero. Qed.
Theorem C09_dummy_slot_zero_refuted :
  exists leaves, Forall leaf_wf leaves /\ priv_compat leaves = true /\
    is_dummy_pb (nth 0 leaves []) = true /\
    nth 0 (groupExits (maskedChildPairs leaves)) (0, zero4) = (5, zero4).
Proof. exact dummy_slot_zero_refuted. Qed.

Theorem C09_dummy_noninterference : forall H l l' us,
  Forall2 same_up_to_dummy_fields l l' -> priv_output H l us = priv_output H l' us.
Proof. exact dummy_noninterference_output. Qed.

(* without the same-asset premise: true when both batches are accepted and there is a real slot ... *)
Theorem C09_dummy_noninterference_under_compat : forall H l l' us,
  Forall2 (fun q q' => q = q' \/ (is_dummy_pb q = true /\ is_dummy_pb q' = true)) l l' ->
  priv_compat l = true -> priv_compat l' = true -> (exists r, In r l /\ is_real_pb r = true) ->
  priv_output H l us = priv_output H l' us.
Proof. exact dummy_noninterference_under_compat. Qed.
(* ... but in an all-dummy batch the header shows the asset id of the dummy in slot 0 *)
Theorem C09_dummy_asset_shows_refuted :
  exists H l l' us, (forall x, length (H x) = 4%nat /\ Forall canon (H x)) /\
    Forall leaf_wf l /\ Forall leaf_wf l' /\ length us = length l /\
    Forall2 (fun q q' => q = q' \/ (is_dummy_pb q = true /\ is_dummy_pb q' = true)) l l' /\
    priv_compat l = true /\ priv_compat l' = true /\
    priv_output H l us <> priv_output H l' us.
Proof. exact dummy_asset_shows_refuted. Qed.

(* ---------------------------------------------------------------- non-vacuity *)
Example C09_ex_hypotheses :
  (forall l, length (H0 l) = 4%nat /\ Forall canon (H0 l)) /\ Forall leaf_wf ex_leaves /\
  length ex_us = length ex_leaves /\ priv_compat ex_leaves = true /\ bn_determined ex_leaves /\
  no_payment_to_zero_account ex_leaves /\
  hon H0 (private_batch ex_leaves ex_us) = Some (priv_output H0 ex_leaves ex_us).
Proof. exact (conj H0_wf (conj ex_leaves_wf (conj eq_refl (conj ex_compat (conj ex_bn_determined (conj ex_no_zero_payment ex_hon)))))). Qed.
(* reversing the slots: same header, same nullifier region, the two non-zero groups move with their first slot *)
Example C09_ex_reversed :
  Permutation (combine ex_leaves ex_us) (combine (rev ex_leaves) (rev ex_us)) /\
  firstn 8 (priv_output H0 (rev ex_leaves) (rev ex_us)) = firstn 8 (priv_output H0 ex_leaves ex_us) /\
  skipn 38 (priv_output H0 (rev ex_leaves) (rev ex_us)) = skipn 38 (priv_output H0 ex_leaves ex_us) /\
  out_exit_slots 3 (priv_output H0 (rev ex_leaves) (rev ex_us)) =
    [(40, [21; 22; 23; 24]); (40, [51; 52; 53; 54]); (0, zero4); (0, zero4); (0, zero4); (20, [31; 32; 33; 34])].
Proof. exact ex_reversed. Qed.
