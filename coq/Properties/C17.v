(* C17 - Artifact loaders accept only canonical circuits and bound their reads.

   "Leaf, private-batch and public-batch verifier artifacts are accepted only if they match a fresh rebuild of the
    canonical circuit for the configured shape: byte-identical for the leaf and private batch, semantically identical
    for the public batch.  Files or slices over the size cap are rejected before being read or hashed, and no prover
    ever reads a prover artifact."

   LEVEL: PARTIAL - the DECISION LOGIC of every loader is proved over the model Sys/Loaders.v; what the real loaders do
   to the file system is OBSERVED (strace of each loader, compared event by event with the model's log), and the
   external functions are parameters: keccak256 [keccak], the canonical serialisations of a fresh rebuild
   ([leaf_c leaf_v canon_pb canon_pub]; the harness recomputes them from /repo on every run), plonky2's
   deserialise-then-reserialise ([reser_c reser_v]) and decoded-config test ([cfg_ok]), the dummy-template validators,
   the config.json parser.  Proofs: Sys/LoadersProofs.v.

   Vocabulary: a loader returns [(log, result)]; [trace] / [result] project.  Log events: [EvStat id] metadata of file
   [id] requested, [EvRead id] file [id] opened and read, [EvHash k] input [k] keccak-hashed.  A [dir] maps file ids
   (F_COMMON = common.bin ... F_PUB_PROVER = public_batch_prover.bin, >= 12 anything else) to files; a file has the
   length its metadata claims ([f_len], a sparse file can claim anything) and the bytes a read returns ([f_bytes]). *)
From V.Base Require Import Common.
From V.Generated Require Import Constants.
From V.Sys Require Import Loaders LoadersProofs.

Local Open Scope Z_scope.

Lemma C17_pin_caps :
  MAX_ARTIFACT_FILE_BYTES = 64 * 1024 * 1024 /\ MAX_VERIFIER_ARTIFACT_BYTES = 1024 * 1024.
Proof. split; reflexivity. Qed.
Lemma C17_pin_max_proof_count : MAX_PROOF_COUNT = 64. Proof. reflexivity. Qed.

(* ================================================================ 1. leaf verifier (verifier crate, keccak pins) *)
Theorem C17_verifier_accept_iff :
  forall (keccak : bytes -> bytes) (pin_v pin_c : bytes) (decode_ok : bytes -> bytes -> bool) (v c : bytes),
    result (verifier_new_from_bytes keccak pin_v pin_c decode_ok v c) = Ok tt <->
    zlen v <= 1048576 /\ zlen c <= 1048576 /\ keccak v = pin_v /\ keccak c = pin_c /\ decode_ok v c = true.
Proof. intros. apply verifier_bytes_iff. Qed.

(* accepted => within the cap and keccak-equal to the canonical rebuild; byte-identical to it under the explicit
   premise that keccak does not collide on these two pairs of strings *)
Theorem C17_accept_only_canonical_leaf_verifier :
  forall (keccak : bytes -> bytes) (decode_ok : bytes -> bytes -> bool) (can_v can_c v c : bytes),
    result (verifier_new_from_bytes keccak (keccak can_v) (keccak can_c) decode_ok v c) = Ok tt ->
    zlen v <= 1048576 /\ zlen c <= 1048576 /\
    keccak v = keccak can_v /\ keccak c = keccak can_c /\
    ((keccak v = keccak can_v -> v = can_v) -> (keccak c = keccak can_c -> c = can_c) -> v = can_v /\ c = can_c).
Proof.
  intros keccak decode_ok can_v can_c v c H. apply verifier_bytes_iff in H.
  destruct H as (H1 & H2 & H3 & H4 & _). repeat split; auto.
Qed.

(* a slice over the cap: the size error, and the log is EMPTY - nothing was hashed (nor read) *)
Theorem C17_oversize_slice_rejected_first :
  forall (keccak : bytes -> bytes) (pin_v pin_c : bytes) (decode_ok : bytes -> bytes -> bool) (v c : bytes),
    zlen v > 1048576 \/ zlen c > 1048576 ->
    verifier_new_from_bytes keccak pin_v pin_c decode_ok v c = ([], Err E_SIZE).
Proof. intros. apply verifier_bytes_oversize. assumption. Qed.

Theorem C17_verifier_files_accept_iff :
  forall (keccak : bytes -> bytes) (pin_v pin_c : bytes) (decode_ok : bytes -> bytes -> bool) (d : dir) (idv idc : Z),
    result (verifier_new_from_files keccak pin_v pin_c decode_ok d idv idc) = Ok tt <->
    exists fv fc, d idv = Some fv /\ d idc = Some fc /\ f_len fv <= 1048576 /\ f_len fc <= 1048576 /\
      result (verifier_new_from_bytes keccak pin_v pin_c decode_ok (f_bytes fv) (f_bytes fc)) = Ok tt.
Proof. intros. apply verifier_files_iff. Qed.

(* an oversized file: looked at (stat) but never opened, and nothing is hashed - for the first and for the second file *)
Theorem C17_oversize_file_rejected_first :
  forall (keccak : bytes -> bytes) (pin_v pin_c : bytes) (decode_ok : bytes -> bytes -> bool) (d : dir) (idv idc : Z),
    (forall fv, d idv = Some fv -> f_len fv > 1048576 ->
       verifier_new_from_files keccak pin_v pin_c decode_ok d idv idc = ([EvStat idv], Err E_SIZE)) /\
    (forall fv fc, d idv = Some fv -> f_len fv <= 1048576 -> d idc = Some fc -> f_len fc > 1048576 ->
       verifier_new_from_files keccak pin_v pin_c decode_ok d idv idc = ([EvStat idv; EvRead idv; EvStat idc], Err E_SIZE)) /\
    (forall id f, d id = Some f -> f_len f > 1048576 ->
       Forall (fun e => e <> EvRead id) (trace (verifier_new_from_files keccak pin_v pin_c decode_ok d idv idc))).
Proof.
  intros. split; [|split].
  - intros. eapply verifier_files_oversize_first; eassumption.
  - intros. eapply verifier_files_oversize_second; eassumption.
  - intros. eapply verifier_files_never_read_oversize; eassumption.
Qed.

(* ================================================================ 2. leaf and private-batch artifacts (aggregator crate): raw bytes *)
Theorem C17_accept_iff_leaf_bytes :
  forall (leaf_c leaf_v common vo : bytes),
    load_canonical_leaf leaf_c leaf_v common vo = Ok tt <-> common = leaf_c /\ vo = leaf_v.
Proof. intros. exact (load_canonical_leaf_iff leaf_c leaf_v common vo tt). Qed.

Theorem C17_accept_iff_private_batch_bytes :
  forall (canon_pb : Z -> bytes * bytes) (common vo : bytes) (n : Z), 0 <= n ->
    (load_canonical_private_batch canon_pb common vo n = Ok tt <->
     1 <= n <= 64 /\ common = fst (canon_pb n) /\ vo = snd (canon_pb n)).
Proof. intros canon_pb common vo n Hn. exact (load_canonical_private_batch_iff canon_pb common vo n tt Hn). Qed.

(* ================================================================ 3. public-batch artifacts: semantic identity *)
Theorem C17_accept_iff_public_batch :
  forall (canon_pub : Z -> Z -> bytes * bytes) (reser_c reser_v : bytes -> option bytes) (cfg_ok : bytes -> bool)
         (d : dir) (m n : Z), 0 <= m -> 0 <= n ->
    (result (load_public_batch canon_pub reser_c reser_v cfg_ok d m n) = Ok tt <->
     exists fc fv, d F_PUB_COMMON = Some fc /\ d F_PUB_VERIFIER = Some fv /\
       f_len fc <= 67108864 /\ f_len fv <= 67108864 /\ 1 <= m <= 64 /\ 1 <= n <= 64 /\
       cfg_ok (f_bytes fc) = true /\
       reser_c (f_bytes fc) = Some (fst (canon_pub m n)) /\ reser_v (f_bytes fv) = Some (snd (canon_pub m n))).
Proof. intros. apply load_public_batch_iff; assumption. Qed.

(* ... which is byte identity when the codec has unique encodings (re-serialising a decodable string gives it back) *)
Theorem C17_public_batch_semantic_implies_bytes_for_canonical_codec :
  forall (canon_pub : Z -> Z -> bytes * bytes) (reser_c reser_v : bytes -> option bytes) (cfg_ok : bytes -> bool)
         (d : dir) (m n : Z), 0 <= m -> 0 <= n ->
    (forall b b', reser_c b = Some b' -> b' = b) -> (forall b b', reser_v b = Some b' -> b' = b) ->
    result (load_public_batch canon_pub reser_c reser_v cfg_ok d m n) = Ok tt ->
    exists fc fv, d F_PUB_COMMON = Some fc /\ d F_PUB_VERIFIER = Some fv /\
      f_bytes fc = fst (canon_pub m n) /\ f_bytes fv = snd (canon_pub m n).
Proof.
  intros canon_pub reser_c reser_v cfg_ok d m n Hm Hn Uc Uv H.
  apply load_public_batch_iff in H; [|assumption|assumption].
  destruct H as (fc & fv & E1 & E2 & _ & _ & _ & _ & _ & R1 & R2).
  exists fc, fv. repeat split; auto; symmetry; [apply (Uc _ _ R1)|apply (Uv _ _ R2)].
Qed.

(* ================================================================ 4. the directory loaders (provers, aggregator, builders) *)

Theorem C17_accept_iff_private_prover_dir :
  forall leaf_c leaf_v leaf_template_ok parse_config,
    (forall b c, parse_config b = Some c -> cfg_nonneg c) -> forall d,
    result (private_prover_from_dir leaf_c leaf_v leaf_template_ok parse_config d) = Ok tt <->
    exists fcfg cfg fc fv fd,
      d F_CONFIG = Some fcfg /\ f_len fcfg <= 67108864 /\ parse_config (f_bytes fcfg) = Some cfg /\
      1 <= fst cfg <= 64 /\ match snd cfg with Some m => 1 <= m <= 64 | None => True end /\
      d F_COMMON = Some fc /\ d F_VERIFIER = Some fv /\ d F_DUMMY = Some fd /\
      f_len fc <= 67108864 /\ f_len fv <= 67108864 /\ f_len fd <= 67108864 /\
      f_bytes fc = leaf_c /\ f_bytes fv = leaf_v /\ leaf_template_ok (f_bytes fd) = true.
Proof. intros. apply private_prover_iff. assumption. Qed.

Theorem C17_accept_iff_public_prover_dir :
  forall canon_pb pb_template_ok parse_config,
    (forall b c, parse_config b = Some c -> cfg_nonneg c) -> forall d,
    result (public_prover_from_dir canon_pb pb_template_ok parse_config d) = Ok tt <->
    exists fcfg n m fc fv fd,
      d F_CONFIG = Some fcfg /\ f_len fcfg <= 67108864 /\ parse_config (f_bytes fcfg) = Some (n, Some m) /\
      1 <= n <= 64 /\ 1 <= m <= 64 /\
      d F_PB_COMMON = Some fc /\ d F_PB_VERIFIER = Some fv /\ d F_PB_DUMMY = Some fd /\
      f_len fc <= 67108864 /\ f_len fv <= 67108864 /\ f_len fd <= 67108864 /\
      f_bytes fc = fst (canon_pb n) /\ f_bytes fv = snd (canon_pb n) /\ pb_template_ok n (f_bytes fd) = true.
Proof. intros. apply public_prover_iff. assumption. Qed.

Theorem C17_accept_iff_aggregator_dir :
  forall canon_pb canon_pub reser_c reser_v cfg_ok pb_template_ok parse_config,
    (forall b c, parse_config b = Some c -> cfg_nonneg c) -> forall d,
    result (aggregator_new canon_pb canon_pub reser_c reser_v cfg_ok pb_template_ok parse_config d) = Ok tt <->
    exists fcfg n m fc fv fd fpc fpv,
      d F_CONFIG = Some fcfg /\ f_len fcfg <= 67108864 /\ parse_config (f_bytes fcfg) = Some (n, Some m) /\
      1 <= n <= 64 /\ 1 <= m <= 64 /\
      d F_PB_COMMON = Some fc /\ d F_PB_VERIFIER = Some fv /\ d F_PB_DUMMY = Some fd /\
      d F_PUB_COMMON = Some fpc /\ d F_PUB_VERIFIER = Some fpv /\
      f_len fc <= 67108864 /\ f_len fv <= 67108864 /\ f_len fd <= 67108864 /\
      f_len fpc <= 67108864 /\ f_len fpv <= 67108864 /\
      f_bytes fc = fst (canon_pb n) /\ f_bytes fv = snd (canon_pb n) /\
      cfg_ok (f_bytes fpc) = true /\
      reser_c (f_bytes fpc) = Some (fst (canon_pub m n)) /\ reser_v (f_bytes fpv) = Some (snd (canon_pub m n)) /\
      pb_template_ok n (f_bytes fd) = true.
Proof. intros. apply aggregator_new_iff. assumption. Qed.

Theorem C17_accept_iff_builders :
  forall leaf_c leaf_v canon_pb d,
    (forall n, 0 <= n ->
       (result (gen_private_batch leaf_c leaf_v d n) = Ok tt <->
        1 <= n <= 64 /\ exists fc fv, d F_COMMON = Some fc /\ d F_VERIFIER = Some fv /\
          f_len fc <= 67108864 /\ f_len fv <= 67108864 /\ f_bytes fc = leaf_c /\ f_bytes fv = leaf_v)) /\
    (forall m n, 0 <= m -> 0 <= n ->
       (result (gen_public_batch canon_pb d m n) = Ok tt <->
        1 <= m <= 64 /\ 1 <= n <= 64 /\ exists fc fv, d F_PB_COMMON = Some fc /\ d F_PB_VERIFIER = Some fv /\
          f_len fc <= 67108864 /\ f_len fv <= 67108864 /\
          f_bytes fc = fst (canon_pb n) /\ f_bytes fv = snd (canon_pb n))).
Proof.
  intros. split; [intros; apply gen_private_batch_iff; assumption|intros; apply gen_public_batch_iff; assumption].
Qed.

Theorem C17_no_prover_reads_a_prover_artifact :
  forall leaf_c leaf_v canon_pb canon_pub reser_c reser_v cfg_ok leaf_template_ok pb_template_ok parse_config (d : dir),
    Forall (fun e => is_prover_id (ev_id e) = false)
           (trace (private_prover_from_dir leaf_c leaf_v leaf_template_ok parse_config d)) /\
    Forall (fun e => is_prover_id (ev_id e) = false)
           (trace (public_prover_from_dir canon_pb pb_template_ok parse_config d)) /\
    Forall (fun e => is_prover_id (ev_id e) = false)
           (trace (aggregator_new canon_pb canon_pub reser_c reser_v cfg_ok pb_template_ok parse_config d)) /\
    trace leaf_prover_new = [].
Proof. intros. apply no_prover_artifact_read. Qed.

Theorem C17_extra_files_are_inert :
  forall leaf_c leaf_v canon_pb canon_pub reser_c reser_v cfg_ok leaf_template_ok pb_template_ok parse_config (d d' : dir),
    (dir_agree PRIVATE_PROVER_FILES d d' ->
       private_prover_from_dir leaf_c leaf_v leaf_template_ok parse_config d =
       private_prover_from_dir leaf_c leaf_v leaf_template_ok parse_config d') /\
    (dir_agree PUBLIC_PROVER_FILES d d' ->
       public_prover_from_dir canon_pb pb_template_ok parse_config d =
       public_prover_from_dir canon_pb pb_template_ok parse_config d') /\
    (dir_agree AGGREGATOR_FILES d d' ->
       aggregator_new canon_pb canon_pub reser_c reser_v cfg_ok pb_template_ok parse_config d =
       aggregator_new canon_pb canon_pub reser_c reser_v cfg_ok pb_template_ok parse_config d').
Proof.
  intros. split; [apply private_prover_agree|split; [apply public_prover_agree|apply aggregator_new_agree]].
Qed.

Theorem C17_oversize_file_never_read :
  forall leaf_c leaf_v canon_pb canon_pub reser_c reser_v cfg_ok leaf_template_ok pb_template_ok parse_config
         (d : dir) (id : Z) (f : file),
    d id = Some f -> f_len f > 67108864 ->
    Forall (fun e => e <> EvRead id) (trace (private_prover_from_dir leaf_c leaf_v leaf_template_ok parse_config d)) /\
    Forall (fun e => e <> EvRead id) (trace (public_prover_from_dir canon_pb pb_template_ok parse_config d)) /\
    Forall (fun e => e <> EvRead id)
           (trace (aggregator_new canon_pb canon_pub reser_c reser_v cfg_ok pb_template_ok parse_config d)) /\
    (forall n, Forall (fun e => e <> EvRead id) (trace (gen_private_batch leaf_c leaf_v d n))) /\
    (forall m n, Forall (fun e => e <> EvRead id) (trace (gen_public_batch canon_pb d m n))).
Proof. intros. eapply never_read_oversize; eassumption. Qed.

(* the size test comes first: an oversized artifact is stat'ed, not opened, and the loader stops with the size error *)
Theorem C17_oversize_rejected_first :
  forall (cap id : Z) (d : dir) (f : file),
    d id = Some f -> f_len f > cap -> read_artifact_file cap id d = ([EvStat id], Err E_SIZE).
Proof. intros. eapply read_oversize; eassumption. Qed.

(* ---------------------------------------------------------------- non-vacuity *)
Definition ex_keccak (b : bytes) : bytes := [Z.of_nat (length b); nth 0 b 0].
Example C17_ex_verifier_accepts :
  verifier_new_from_bytes ex_keccak (ex_keccak [7; 8]) (ex_keccak [9]) (fun _ _ => true) [7; 8] [9]
  = ([EvHash 0; EvHash 1], Ok tt).
Proof. reflexivity. Qed.
Example C17_ex_verifier_rejects_flip :
  verifier_new_from_bytes ex_keccak (ex_keccak [7; 8]) (ex_keccak [9]) (fun _ _ => true) [6; 8] [9]
  = ([EvHash 0], Err E_PIN).
Proof. reflexivity. Qed.
Example C17_ex_leaf_accept : load_canonical_leaf [1; 2] [3] [1; 2] [3] = Ok tt. Proof. reflexivity. Qed.
Example C17_ex_leaf_extended : load_canonical_leaf [1; 2] [3] [1; 2; 0] [3] = Err E_PIN. Proof. reflexivity. Qed.
Example C17_ex_leaf_truncated : load_canonical_leaf [1; 2] [3] [1] [3] = Err E_PIN. Proof. reflexivity. Qed.
Definition ex_dir : dir := fun i =>
  if i =? F_CONFIG then Some (mkFile 2 [1; 1])
  else if i =? F_COMMON then Some (mkFile 2 [1; 2])
  else if i =? F_VERIFIER then Some (mkFile 1 [3])
  else if i =? F_DUMMY then Some (mkFile 1 [1])
  else if i =? F_PB_PROVER then Some (mkFile 5 [6; 6; 6; 6; 6])
  else None.
Definition ex_parse (b : bytes) : option (Z * option Z) :=
  match b with [n; m] => Some (n, Some m) | _ => None end.
Example C17_ex_private_prover_accepts :
  private_prover_from_dir [1; 2] [3] (fun b => list_eqb b [1]) ex_parse ex_dir
  = ([EvStat 8; EvRead 8; EvStat 0; EvRead 0; EvStat 1; EvRead 1; EvStat 2; EvRead 2], Ok tt).
Proof. reflexivity. Qed.
Example C17_ex_private_prover_oversized :
  private_prover_from_dir [1; 2] [3] (fun b => list_eqb b [1]) ex_parse
    (fun i => if i =? F_VERIFIER then Some (mkFile 67108865 []) else ex_dir i)
  = ([EvStat 8; EvRead 8; EvStat 0; EvRead 0; EvStat 1], Err E_SIZE).
Proof. reflexivity. Qed.
