(* C31 - For any list of digests with canonical limbs, the sorting gadget's output is the ascending
   lexicographic permutation of the input, with limb 0 most significant.  No witness yields an output
   that is not a permutation of the input or not in that order.

   Gadget: sort_digests4, common/src/gadgets.rs:285 (odd-even transposition network, n rounds over n
   digests, 4 limbs split into 8 canonical 32-bit halves at ingress, comparators halves8_lt + select,
   recombination at egress); transcription: Circ/Gadgets.v; semantics: Circ/Core.v
     rel H c post   some witness (adversarial prover) satisfies every constraint of c and its output satisfies post
     hon H c        the output computed by the honest witness generators
     refines H c    rel H c post <-> post (honest output)   -- no witness freedom
   Proofs: Circ/SortNet.v (pure network: permutation for every n; sortedness for n <= 64 by the 0-1
   principle + monotonicity on prefix-count vectors + evaluation of the 2145 worst cases),
   Circ/Sorting.v (linking), Circ/GadgetsProofs.v (split_canonical_u32_halves, halves8_lt).
   Vocabulary:
     digest_ltb a b   strict lexicographic order of the limb lists as integers, limb 0 first (C31_spec_order)
     digest_le a b    digest_ltb b a = false
     sort_spec        insertion sort for digest_ltb: THE ascending permutation (C31_spec_unique)
   The sortedness statements carry the bound n <= 64 = MAX_PROOF_COUNT, the largest batch the Rust code
   builds (private_batch circuit_logic.rs: n = num_leaf_proofs, validated against MAX_PROOF_COUNT);
   the permutation and no-witness-freedom statements hold for every n. *)
From Coq Require Import Permutation Sorted.
From V.Base Require Import Common.
From V.Generated Require Import Constants.
From V.Circ Require Import Field Core Prims Gadgets SortNet Sorting.

Local Open Scope Z_scope.

(* ---------------------------------------------------------------- constants pinned to /repo *)
Lemma C31_pin_max : MAX_PROOF_COUNT = 64. Proof. reflexivity. Qed.
Lemma C31_pin_p : p = 2 ^ 64 - 2 ^ 32 + 1 /\ two32 = 2 ^ 32. Proof. split; reflexivity. Qed.

(* ---------------------------------------------------------------- the specification, spelled out *)
Lemma C31_spec_canon x : canon x <-> 0 <= x < p. Proof. reflexivity. Qed.
Lemma C31_spec_order a0 a1 a2 a3 b0 b1 b2 b3 :
  digest_ltb [a0; a1; a2; a3] [b0; b1; b2; b3] =
  (a0 <? b0) || ((a0 =? b0) && ((a1 <? b1) || ((a1 =? b1) && ((a2 <? b2) || ((a2 =? b2) && (a3 <? b3)))))).
Proof. exact (digest_ltb_4 a0 a1 a2 a3 b0 b1 b2 b3). Qed.
Lemma C31_spec_le a b : digest_le a b <-> digest_ltb b a = false. Proof. reflexivity. Qed.
(* the order is a strict total order: the ascending permutation is unique *)
Lemma C31_spec_total_order :
  (forall a, digest_ltb a a = false) /\
  (forall a b c, digest_ltb a b = true -> digest_ltb b c = true -> digest_ltb a c = true) /\
  (forall a b, digest_ltb a b = false -> digest_ltb b a = false -> a = b).
Proof. exact (conj lexlt_irrefl (conj lexlt_trans lexlt_antisym)). Qed.
Theorem C31_output_is_sorted_permutation values :
  Permutation (sort_spec values) values /\ StronglySorted digest_le (sort_spec values).
Proof. exact (conj (sort_spec_perm values) (sort_spec_sorted values)). Qed.
Theorem C31_spec_unique values out :
  Permutation out values -> StronglySorted digest_le out -> out = sort_spec values.
Proof. exact (sort_spec_unique values out). Qed.

(* ---------------------------------------------------------------- the property *)
(* whatever the witness, the only reachable output is the ascending permutation (and it is reachable) *)
Theorem C31_sort_sound : forall H values post, (length values <= 64)%nat ->
  Forall (fun d => length d = 4%nat /\ Forall canon d) values ->
  (rel H (sort_digests4 values) post <-> post (sort_spec values)).
Proof. exact rel_sort_digests4. Qed.
Theorem C31_sort_sound_max : forall H values post, Z.of_nat (length values) <= MAX_PROOF_COUNT ->
  Forall (fun d => length d = 4%nat /\ Forall canon d) values ->
  (rel H (sort_digests4 values) post <-> post (sort_spec values)).
Proof. exact rel_sort_digests4_max. Qed.
Theorem C31_honest_output : forall H values, (length values <= 64)%nat ->
  Forall (fun d => length d = 4%nat /\ Forall canon d) values ->
  hon H (sort_digests4 values) = Some (sort_spec values).
Proof. exact hon_sort_digests4. Qed.
Theorem C31_no_unsorted_witness : forall H values, (length values <= 64)%nat ->
  Forall (fun d => length d = 4%nat /\ Forall canon d) values ->
  ~ rel H (sort_digests4 values) (fun out => ~ (Permutation out values /\ StronglySorted digest_le out)).
Proof. exact sort_digests4_never_unsorted. Qed.

(* any number of digests: every reachable output is a permutation of the input *)
Theorem C31_permutation_any_length : forall H values post,
  Forall (fun d => length d = 4%nat /\ Forall canon d) values ->
  rel H (sort_digests4 values) post -> exists out, Permutation out values /\ post out.
Proof. exact sort_digests4_permutation. Qed.
Theorem C31_no_non_permutation_witness : forall H values,
  Forall (fun d => length d = 4%nat /\ Forall canon d) values ->
  ~ rel H (sort_digests4 values) (fun out => ~ Permutation out values).
Proof. exact sort_digests4_never_not_permutation. Qed.
(* any number of digests: no witness freedom - the reachable outputs are exactly the honest one *)
Theorem C31_refines : forall H values,
  Forall (fun d => length d = 4%nat /\ Forall canon d) values -> refines H (sort_digests4 values).
Proof. exact refines_sort_digests4. Qed.

(* ---------------------------------------------------------------- non-vacuity *)
Definition C31_H0 : list Z -> list Z := fun _ => [0; 0; 0; 0].
Definition C31_ex : list (list Z) :=
  [ [p - 1; 0; 4294967295; 7];
    [5; 4294967296; p - 1; 4294967295];
    [p - 1; 0; 4294967295; 7];
    [5; 4294967295; p - 1; p - 1] ].
Example C31_ex_hyps : (length C31_ex <= 64)%nat /\ Forall (fun d => length d = 4%nat /\ Forall canon d) C31_ex.
Proof.
  split; [cbn; lia|]. unfold C31_ex.
  repeat (constructor; [split; [reflexivity|repeat (constructor; [unfold canon, p; lia|]); constructor]|]).
  constructor.
Qed.
Example C31_ex_spec :
  sort_spec C31_ex =
  [ [5; 4294967295; p - 1; p - 1];
    [5; 4294967296; p - 1; 4294967295];
    [p - 1; 0; 4294967295; 7];
    [p - 1; 0; 4294967295; 7] ].
Proof. vm_compute. reflexivity. Qed.
(* the transcribed circuit, run with the honest generators, gives exactly that *)
Example C31_ex_hon : hon C31_H0 (sort_digests4 C31_ex) = Some (sort_spec C31_ex).
Proof. vm_compute. reflexivity. Qed.
Example C31_ex_sound post : rel C31_H0 (sort_digests4 C31_ex) post <-> post (sort_spec C31_ex).
Proof. exact (C31_sort_sound C31_H0 C31_ex post (proj1 C31_ex_hyps) (proj2 C31_ex_hyps)). Qed.
