(* C10 (private batch) - No witness freedom in the private-batch wrapper circuit.

   For well-formed child statements the constraint system of build_private_batch_constraints
   (wormhole/aggregator/src/private_batch/circuit/circuit_logic.rs:171) determines its public output:
   whatever the (adversarial) witness - the hint wires of is_equal, range checks, the 32-bit splits and
   comparators of the sorting network - the reachable outputs are exactly the honest one; two satisfying
   witnesses register the same public inputs; if the honest witness generation fails, no witness exists.

   Model: Circ/PrivateBatch.v; semantics Circ/Core.v ([refines H c]: rel H c post <-> post (honest output));
   proofs: Circ/PrivateBatchProofs.v. *)
From V.Base Require Import Common.
From V.Generated Require Import Constants.
From V.Circ Require Import Field Core Prims Gadgets PrivateBatch PrivateBatchProofs.
From V.Spec Require Import LeanPort.

Local Open Scope Z_scope.

(* ---------------------------------------------------------------- constants pinned to /repo *)
Lemma C10_private_pin_leaf_pi_len : PR_LEAF_PI_LEN = 21. Proof. reflexivity. Qed.
Lemma C10_private_pin_max : MAX_PROOF_COUNT = 64. Proof. reflexivity. Qed.

Lemma C10_private_spec_refines H (c : Circ (list Z)) :
  refines H c <-> (forall post, rel H c post <-> match hon H c with Some a => post a | None => False end).
Proof. reflexivity. Qed.

(* ---------------------------------------------------------------- the property *)
Theorem C10_private_batch_deterministic : forall H,
  (forall l, length (H l) = 4%nat /\ Forall canon (H l)) ->
  forall leaves us, (1 <= length leaves <= 64)%nat -> Forall leaf_wf leaves -> length us = length leaves ->
  refines H (private_batch leaves us).
Proof. exact refines_private_batch. Qed.

Theorem C10_private_unique_output : forall H,
  (forall l, length (H l) = 4%nat /\ Forall canon (H l)) ->
  forall leaves us, (1 <= length leaves <= 64)%nat -> Forall leaf_wf leaves -> length us = length leaves ->
  forall a b, rel H (private_batch leaves us) (fun o => o = a) ->
              rel H (private_batch leaves us) (fun o => o = b) -> a = b.
Proof. exact private_batch_unique_output. Qed.

Theorem C10_private_honest_fails_all_fail : forall H,
  (forall l, length (H l) = 4%nat /\ Forall canon (H l)) ->
  forall leaves us, (1 <= length leaves <= 64)%nat -> Forall leaf_wf leaves -> length us = length leaves ->
  hon H (private_batch leaves us) = None -> forall post, ~ rel H (private_batch leaves us) post.
Proof. exact private_batch_honest_fails_all_fail. Qed.

(* ---------------------------------------------------------------- non-vacuity *)
Example C10_private_ex_hypotheses :
  (forall l, length (H0 l) = 4%nat /\ Forall canon (H0 l)) /\ Forall leaf_wf ex_leaves /\
  length ex_us = length ex_leaves /\ priv_compat ex_leaves = true.
Proof. exact (conj H0_wf (conj ex_leaves_wf (conj eq_refl ex_compat))). Qed.
Example C10_private_ex_honest :
  hon H0 (private_batch ex_leaves ex_us) = Some (priv_output H0 ex_leaves ex_us).
Proof. exact ex_hon. Qed.
(* ... and a batch on which the honest witness generation fails (the same child twice) *)
Example C10_private_ex_fails :
  hon H0 (private_batch [ex_real1; ex_real1] [[1; 1; 1; 1]; [2; 2; 2; 2]]) = None.
Proof. vm_compute. reflexivity. Qed.
