(* C04 - A leaf statement escapes the nullifier, header and tree-root bindings only when its block hash
   is all-zero and both output amounts are zero.  With a non-zero block hash, or any non-zero output
   amount, every binding is enforced, and the prover has no witness freedom over the dummy decision.
   Range and fee constraints hold for dummies too.

   [is_dummy_stmt i] = all four block-hash limbs are zero and both output amounts are zero.
   [li_is_not_dummy i] is the virtual bool target ZkMerkleProofTargets.is_not_dummy (a free witness
   wire of the circuit).  [refines H c] = "no witness freedom": whatever an adversarial prover can
   satisfy is exactly what the honest witness generators produce.
   Model, semantics and hypotheses: see C01.v.  Proofs: V.Circ.LeafProofs. *)
From V.Base Require Import Common.
From V.Generated Require Import Constants.
From V.Circ Require Import Field Core Prims Gadgets Leaf LeafProofs.

Lemma C04_pin_max_depth : MERKLE_MAX_DEPTH = 16. Proof. reflexivity. Qed.

Theorem C04_dummy_means :
  forall i : LeafIn, length (li_block_hash i) = 4%nat ->
    (is_dummy_stmt i = true <-> li_block_hash i = [0; 0; 0; 0] /\ li_out1 i = 0 /\ li_out2 i = 0).
Proof. exact is_dummy_stmt_spec. Qed.

(* the flag wire is a function of the public statement *)
Theorem C04_dummy_flag_determined :
  forall (H : list Z -> list Z) (i : LeafIn) (post : list Z -> Prop),
    hash_wf H -> wf_in i -> rel H (leaf_circuit i) post ->
    li_is_not_dummy i = (if is_dummy_stmt i then 0 else 1).
Proof. intros H i post Hwf W. exact (dummy_flag_determined H Hwf i W post). Qed.

(* non-zero block hash or non-zero output: nullifier, header and tree-root bindings all hold *)
Theorem C04_bindings_enforced :
  forall (H : list Z -> list Z) (i : LeafIn) (post : list Z -> Prop),
    hash_wf H -> wf_in i -> rel H (leaf_circuit i) post -> is_dummy_stmt i = false ->
    (li_nullifier i = H (H (NULLIFIER_SALT_FELTS ++ li_null_secret i ++ li_null_tc i)) /\
     li_to_account i = H (H (UNSPENDABLE_SALT_FELTS ++ li_null_secret i)) /\
     li_leaf_tc i = li_null_tc i) /\
    li_block_hash i = H (header_preimage i) /\
    li_tree_root i =
      fold_insert H (H (li_to_account i ++ li_leaf_tc i ++ [li_asset i; li_input_amount i]))
                  (firstn (Z.to_nat (li_depth i)) (combine (li_siblings i) (li_positions i))).
Proof. intros H i post Hwf W. exact (bindings_enforced H Hwf i W post). Qed.

(* no witness freedom anywhere in the leaf circuit, for every hash function *)
Theorem C04_no_witness_freedom :
  forall (H : list Z -> list Z) (i : LeafIn), wf_in i -> refines H (leaf_circuit i).
Proof. exact leaf_refines. Qed.

Theorem C04_ranges_hold_for_dummies :
  forall (H : list Z -> list Z) (i : LeafIn) (post : list Z -> Prop),
    hash_wf H -> wf_in i -> is_dummy_stmt i = true -> rel H (leaf_circuit i) post ->
    li_asset i < 2 ^ 32 /\ li_input_amount i < 2 ^ 32 /\ li_out1 i < 2 ^ 32 /\ li_out2 i < 2 ^ 32 /\
    li_block_number i < 2 ^ 32 /\ Forall (fun v => v < 2 ^ 32) (li_leaf_tc i) /\
    li_fee i <= 10000 /\
    (li_out1 i + li_out2 i) * 10000 <= li_input_amount i * (10000 - li_fee i).
Proof. intros H i post Hwf W _. exact (leaf_ranges_and_fee H Hwf i W post). Qed.

(* "escapes": a dummy statement is satisfiable exactly under conditions that mention neither the
   nullifier, nor any header field, nor the two roots, nor the siblings *)
Theorem C04_dummy_rel_iff :
  forall (H : list Z -> list Z) (i : LeafIn) (post : list Z -> Prop),
    hash_wf H -> wf_in i -> is_dummy_stmt i = true ->
    (rel H (leaf_circuit i) post <->
     (li_is_not_dummy i = 0 /\
      (li_asset i < 2 ^ 32 /\ li_input_amount i < 2 ^ 32 /\ li_block_number i < 2 ^ 32 /\
       Forall (fun v => v < 2 ^ 32) (li_leaf_tc i)) /\
      li_fee i <= 10000 /\
      (li_depth i <= 16 /\ Forall (fun q => 0 <= q < 4) (li_positions i)) /\
      (li_unsp_account i = H (H (UNSPENDABLE_SALT_FELTS ++ li_unsp_secret i)) /\
       li_to_account i = li_unsp_account i /\ li_null_secret i = li_unsp_secret i /\
       li_null_tc i = li_leaf_tc i)) /\
     post (leaf_public_inputs i)).
Proof. intros H i post Hwf W. exact (dummy_rel_iff H Hwf i W post). Qed.

Theorem C04_dummy_satisfiable :
  forall (H : list Z -> list Z) (i : LeafIn),
    hash_wf H -> wf_in i -> is_dummy_stmt i = true ->
    li_is_not_dummy i = 0 /\
    (li_asset i < 2 ^ 32 /\ li_input_amount i < 2 ^ 32 /\ li_block_number i < 2 ^ 32 /\
     Forall (fun v => v < 2 ^ 32) (li_leaf_tc i)) /\
    li_fee i <= 10000 /\
    (li_depth i <= 16 /\ Forall (fun q => 0 <= q < 4) (li_positions i)) /\
    (li_unsp_account i = H (H (UNSPENDABLE_SALT_FELTS ++ li_unsp_secret i)) /\
     li_to_account i = li_unsp_account i /\ li_null_secret i = li_unsp_secret i /\
     li_null_tc i = li_leaf_tc i) ->
    hon H (leaf_circuit i) = Some (leaf_public_inputs i).
Proof. intros H i Hwf W. exact (dummy_satisfiable H Hwf i W). Qed.

(* honest witness generation = the executable acceptance condition (used by completeness arguments) *)
Theorem C04_hon_leaf_spec :
  forall (H : list Z -> list Z) (i : LeafIn), hash_wf H -> wf_in i ->
    hon H (leaf_circuit i) = if leaf_accepts H i then Some (leaf_public_inputs i) else None.
Proof. exact hon_leaf_spec. Qed.

(* ---------------- non-vacuity ---------------- *)
Example C04_nv_wf_dummy : wf_in ex_dummy. Proof. apply wf_inb_sound. vm_compute. reflexivity. Qed.
(* zero block hash, zero outputs, nullifier [9;9;9;9], header tree root [6;6;6;6] <> proof root: accepted *)
Example C04_nv_dummy_escapes :
  is_dummy_stmt ex_dummy = true /\ li_tree_root ex_dummy <> li_root_hash ex_dummy /\
  hon H0 (leaf_circuit ex_dummy) = Some (leaf_public_inputs ex_dummy).
Proof. vm_compute. repeat split; try reflexivity. intros E; discriminate E. Qed.
Example C04_nv_dummy_rel : rel H0 (leaf_circuit ex_dummy) (fun o => o = leaf_public_inputs ex_dummy).
Proof. apply (leaf_sat H0 ex_dummy C04_nv_wf_dummy). vm_compute. reflexivity. Qed.
(* the flag cannot be chosen: a non-dummy with flag 0, a dummy with flag 1 *)
Example C04_nv_flag_lie : forall post, ~ rel H0 (leaf_circuit ex_flag_lie) post.
Proof. apply leaf_unsat; [apply wf_inb_sound|]; vm_compute; reflexivity. Qed.
Example C04_nv_dummy_flag_lie : forall post, ~ rel H0 (leaf_circuit ex_dummy_flag_lie) post.
Proof. apply leaf_unsat; [apply wf_inb_sound|]; vm_compute; reflexivity. Qed.
(* zero block hash with a non-zero output is not a dummy: the header binding applies and fails *)
Example C04_nv_zero_hash_with_output :
  is_dummy_stmt ex_zero_hash_with_output = false /\
  forall post, ~ rel H0 (leaf_circuit ex_zero_hash_with_output) post.
Proof. split; [vm_compute; reflexivity|]. apply leaf_unsat; [apply wf_inb_sound|]; vm_compute; reflexivity. Qed.
(* a non-dummy accepted statement, so the hypotheses of C04_bindings_enforced are satisfiable *)
Example C04_nv_real : is_dummy_stmt ex_real = false /\
  hon H0 (leaf_circuit ex_real) = Some (leaf_public_inputs ex_real).
Proof. vm_compute. split; reflexivity. Qed.
