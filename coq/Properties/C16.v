(* C16 - Padding templates are accepted only with the complete dummy sentinel.

   Model: Sys/Preflight.v ([leaf_template_check] after verify_dummy_leaf_template,
   [private_batch_template_check] after verify_dummy_private_batch_template; both parse with the C24 parsers
   PublicCircuitInputs / PrivateBatchPublicInputs ::try_from_u64_slice, check the sentinel, then verify).
   Proofs: Sys/PreflightProofs.v.  That every constructor / loader / build step calls the validator before using the
   template is conformance: harness/src/bin/provers.rs drives every entry point with deviating templates (fids 1601/1602).

   Vocabulary (ParsersProofs.v): at_ l i = nth i l 0; wf_leaf / wf_priv n = the well-formed layouts of C24
   (length 21 resp. 8 + 21 n, u32 scalars, canonical digest limbs, num_exit_slots = 2 n). *)
From V.Base Require Import Common.
From V.Generated Require Import Constants.
From V.Sys Require Import Parsers ParsersProofs Preflight PreflightProofs.

Local Open Scope Z_scope.

(* ---------------------------------------------------------------- layout constants of the property text, pinned to /repo *)
Lemma C16_pin_leaf_layout :
  [LEAF_PI_LEN; IDX_ASSET_ID; IDX_OUTPUT_AMOUNT_1; IDX_OUTPUT_AMOUNT_2; IDX_EXIT_1_START; IDX_EXIT_1_END;
   IDX_EXIT_2_START; IDX_EXIT_2_END; IDX_BLOCK_HASH_START; IDX_BLOCK_HASH_END] = [21; 0; 1; 2; 8; 12; 12; 16; 16; 20].
Proof. reflexivity. Qed.
Lemma C16_pin_private_batch_layout :
  [PR_OUT_BLOCK_HASH_OFFSET; PR_OUT_BLOCK_NUMBER_OFFSET; PR_OUT_HEADER_LEN; PR_OUT_EXIT_SLOT_LEN] = [3; 7; 8; 5].
Proof. reflexivity. Qed.

(* the inspected positions *)
Lemma C16_spec_leaf_inspected i :
  leaf_inspected i <-> (i <= 2)%nat (* asset id, output 1, output 2 *) \/ (8 <= i <= 19)%nat (* exit 1, exit 2, block hash *).
Proof. reflexivity. Qed.
Lemma C16_spec_priv_inspected n i :
  priv_inspected n i <-> (3 <= i <= 6)%nat (* block hash *) \/ (8 <= i < 8 + 10 * n)%nat (* 2 n exit slots of [sum, account(4)] *).
Proof. reflexivity. Qed.

(* ---------------------------------------------------------------- exact acceptance *)
Theorem C16_leaf_template_accept_iff : forall t,
  leaf_template_check t = Ok tt <->
  wf_leaf (c_pis t) /\ (forall i, leaf_inspected i -> at_ (c_pis t) i = 0) /\ c_ok t = true.
Proof. exact leaf_template_ok_iff. Qed.

Theorem C16_private_batch_template_accept_iff : forall t,
  private_batch_template_check t = Ok tt <->
  exists n, wf_priv n (c_pis t) /\ (forall i, priv_inspected n i -> at_ (c_pis t) i = 0) /\ c_ok t = true.
Proof. exact private_batch_template_ok_iff. Qed.

(* ---------------------------------------------------------------- any single failing condition rejects *)
Theorem C16_single_deviation_rejected :
  (forall t i, leaf_inspected i -> at_ (c_pis t) i <> 0 -> exists c, leaf_template_check t = Err c) /\
  (forall t, c_ok t = false -> exists c, leaf_template_check t = Err c) /\
  (forall t n i, length (c_pis t) = (8 + 21 * n)%nat -> priv_inspected n i -> at_ (c_pis t) i <> 0 ->
     exists c, private_batch_template_check t = Err c) /\
  (forall t, c_ok t = false -> exists c, private_batch_template_check t = Err c).
Proof.
  split; [exact leaf_template_single_deviation|]. split; [exact leaf_template_invalid_rejected|].
  split; [exact private_batch_template_single_deviation|exact private_batch_template_invalid_rejected].
Qed.

(* what the batch logic relies on (C14): an accepted template is a dummy slot with the native asset *)
Theorem C16_accepted_templates_are_dummies :
  (forall t, leaf_template_check t = Ok tt -> dummy_sentinel (c_pis t)) /\
  (forall t, private_batch_template_check t = Ok tt -> LeanPort.is_dummy_inner (c_pis t) = true).
Proof. split; [exact leaf_template_sentinel|exact private_batch_template_sentinel]. Qed.

(* ---------------------------------------------------------------- non-vacuity *)
Example C16_ex_leaf :
  let good := [0; 0; 0; 10] ++ [77; 1; 2; 3] ++ repeat 0 12 ++ [5] in
  let set (i : nat) v l := firstn i l ++ v :: skipn (S i) l in
  leaf_template_check (mkChild good true) = Ok tt /\
  leaf_template_check (mkChild good false) = Err T_VERIFY /\
  leaf_template_check (mkChild (set 0%nat 1 good) true) = Err T_ASSET /\
  leaf_template_check (mkChild (set 1%nat 1 good) true) = Err T_OUTPUT /\
  leaf_template_check (mkChild (set 2%nat 1 good) true) = Err T_OUTPUT /\
  leaf_template_check (mkChild (set 11%nat 1 good) true) = Err T_EXIT /\
  leaf_template_check (mkChild (set 15%nat 1 good) true) = Err T_EXIT /\
  leaf_template_check (mkChild (set 19%nat 1 good) true) = Err T_BLOCK /\
  leaf_template_check (mkChild (set 3%nat 4294967296 good) true) = Err T_PARSE /\
  leaf_template_check (mkChild (tl good) true) = Err T_PARSE.
Proof. vm_compute. repeat split. Qed.
Example C16_ex_private_batch :
  let good := [4; 0; 10] ++ [0; 0; 0; 0] ++ [0] ++ repeat 0 20 ++ [11; 12; 13; 14; 21; 22; 23; 24] ++ repeat 0 14 in
  let set (i : nat) v l := firstn i l ++ v :: skipn (S i) l in
  private_batch_template_check (mkChild good true) = Ok tt /\
  private_batch_template_check (mkChild good false) = Err T_VERIFY /\
  private_batch_template_check (mkChild (set 6%nat 1 good) true) = Err T_BLOCK /\
  private_batch_template_check (mkChild (set 8%nat 1 good) true) = Err T_OUTPUT /\
  private_batch_template_check (mkChild (set 9%nat 1 good) true) = Err T_EXIT /\
  private_batch_template_check (mkChild (set 27%nat 1 good) true) = Err T_EXIT /\
  private_batch_template_check (mkChild (set 0%nat 3 good) true) = Err T_PARSE.
Proof. vm_compute. repeat split. Qed.
