(* C20 - Pool state invariants hold after any history.
   Model: Sys/Pool.v; invariant [Inv] and proofs: Sys/PoolProofs.v. *)
From V.Base Require Import Common.
From V.Generated Require Import Constants.
From V.Sys Require Import Pool PoolProofs.

(* ---- what the invariant says (the record [Inv], unfolded into the sentences of the property) *)
Theorem C20_inv_means : forall cfg st,
  Inv cfg st ->
  (* the index contains exactly the nullifiers of the pooled proofs, each mapped to its proof's bucket *)
  (forall n k, idx_lookup n (s_index st) = Some k <->
               exists e, In (k, e) (keyed_entries (s_buckets st)) /\ In n (e_nulls e))
  /\ NoDup (map fst (s_index st))
  (* no two pooled proofs share a nullifier *)
  /\ (forall n, (null_count n (s_buckets st) <= 1)%nat)
  /\ (forall ke1 ke2 n, In ke1 (keyed_entries (s_buckets st)) -> In ke2 (keyed_entries (s_buckets st)) ->
                        ke1 <> ke2 -> In n (e_nulls (snd ke1)) -> ~ In n (e_nulls (snd ke2)))
  (* no bucket is empty; bucket keys are unique *)
  /\ (forall k b, In (k, b) (s_buckets st) -> b_proofs b <> [])
  /\ NoDup (map fst (s_buckets st))
  (* every proof sits in the bucket of its own key, with the metadata its public inputs parse to; it
     verified and is not the dummy sentinel *)
  /\ (forall k e, In (k, e) (keyed_entries (s_buckets st)) ->
        parse_metadata cfg (e_proof e) = Ok (k, e_nulls e, e_vol e)
        /\ p_ver (e_proof e) = true /\ is_dummy k = false /\ 0 <= e_vol e < two64)
  (* the proof and bucket counts are within the limits (and the attempt counter within the budget) *)
  /\ total_len (s_buckets st) <= c_max_proofs cfg
  /\ zlen (s_buckets st) <= c_max_buckets cfg
  /\ 0 <= s_verifs st <= c_budget cfg.
Proof. exact inv_means_stmt. Qed.

Theorem C20_inv_init : forall cfg t0, wf_cfg cfg -> Inv cfg (init t0).
Proof. exact inv_init. Qed.

Theorem C20_inv_step : forall cfg st o,
  wf_cfg cfg -> Inv cfg st -> wf_op o -> Inv cfg (fst (step cfg st o)).
Proof. exact inv_step. Qed.

(* after ANY history (any operations, any clock advances, any settlement sets, any limits ProofPool::new accepts) *)
Theorem C20_inv_reachable : forall cfg t0 ops,
  wf_cfg cfg -> Forall wf_op ops ->
  Inv cfg (fold_left (fun s o => fst (step cfg s o)) ops (init t0)).
Proof. exact inv_reachable_stmt. Qed.

(* the reported statistics are functions of the pooled contents: one entry per bucket; count; batch size;
   volume = sum of the proofs' volumes saturated at u64::MAX; oldest age = the largest age among the
   bucket's proofs; last-snapshot age = time since the bucket's snapshot stamp *)
Theorem C20_stats_exact : forall cfg st,
  Inv cfg st ->
  map st_key (stats cfg st) = map fst (s_buckets st)
  /\ forall s, In s (stats cfg st) ->
       let l := bucket_entries (st_key s) (s_buckets st) in
       l <> []
       /\ st_num s = zlen l
       /\ st_batch s = c_batch cfg
       /\ st_volume s = Z.min (zsum (map e_vol l)) (two64 - 1)
       /\ (forall e, In e l -> sat_sub (s_now st) (e_at e) <= st_oldest s)
       /\ (exists e, In e l /\ st_oldest s = sat_sub (s_now st) (e_at e))
       /\ (exists b, find_bucket (st_key s) (s_buckets st) = Some b
                     /\ st_snap_age s = option_map (sat_sub (s_now st)) (b_snap b)).
Proof. exact stats_exact. Qed.

Theorem C20_snapshot_stamps : forall cfg st k b,
  find_bucket k (s_buckets st) = Some b ->
  exists b', find_bucket k (s_buckets (fst (step cfg st (Snapshot k)))) = Some b'
             /\ b_snap b' = Some (s_now st) /\ b_proofs b' = b_proofs b.
Proof. exact snapshot_marks. Qed.

(* ---- non-vacuity: a reachable state with two buckets, three proofs, saturating volume *)
Definition ex_pis (bh0 null0 sum0 sum1 : Z) : list Z :=
  [2; 0; 10; bh0; 0; 0; 0; 77; sum0; 0; 0; 0; 0; sum1; 0; 0; 0; 0; null0; 0; 0; 0] ++ repeat 0 7.
Definition ex_cfg : config := mkConfig 3 2 2 8 1000 1 29.
Definition ex_history : list op :=
  [ Push (mkProof (ex_pis 1 11 (p - 1) (p - 1)) true); Advance 5;
    Push (mkProof (ex_pis 1 12 100 50) true); Push (mkProof (ex_pis 2 13 1 2) true);
    Snapshot [1; 0; 0; 0; 0; 10]; Advance 7 ].
Example C20_example_stats :
  stats ex_cfg (fst (run ex_cfg (init 0) ex_history))
  = [ mkStat [1; 0; 0; 0; 0; 10] 2 2 12 (two64 - 1) (Some 7); mkStat [2; 0; 0; 0; 0; 10] 1 2 7 3 None ].
Proof. vm_compute. reflexivity. Qed.
Example C20_example_ops_wf : Forall wf_op ex_history.
Proof. repeat constructor; unfold two64, p; cbn; lia. Qed.

(* ---- admission order is age order: along every bucket the admission times never decrease and never
   exceed the clock, after any history; hence the reported oldest age is the age of the bucket's first proof *)
Theorem C20_admission_order_reachable : forall cfg t0 ops, TimeInv (fst (run cfg (init t0) ops)).
Proof. exact time_reachable. Qed.

Theorem C20_stats_oldest_is_first : forall cfg st s,
  Inv cfg st -> TimeInv st -> In s (stats cfg st) ->
  exists e r, bucket_entries (st_key s) (s_buckets st) = e :: r /\ st_oldest s = s_now st - e_at e.
Proof. exact stats_oldest_is_first. Qed.
