(* C10 (gadget part) - the comparison gadgets leave no witness freedom.

   [refines H c] (V.Circ.Core) :=  forall post, rel H c post <-> match hon H c with Some a => post a | None => False end
   i.e. whatever values an adversarial prover puts on the generator-computed wires (equality hints,
   canonical 32-bit splits, bit decompositions, comparison bits), the constraints of [c] are
   satisfiable exactly when the honest witness satisfies them, and then every satisfying witness
   yields the honest output.  Model: V.Circ.Gadgets (common/src/gadgets.rs); proofs: V.Circ.GadgetsProofs.
   (The sorting gadget and the batch wrappers have their own files.) *)
From V.Base Require Import Common.
From V.Circ Require Import Field Core Prims Gadgets GadgetsProofs.

Theorem C10_refines_is_equal :
  forall (H : list Z -> list Z) (x y : Z), canon x -> canon y -> refines H (is_equal x y).
Proof. exact refines_is_equal. Qed.

Theorem C10_refines_split_canonical :
  forall (H : list Z -> list Z) (x : Z), canon x -> refines H (split_canonical_u32_halves x).
Proof. exact refines_split_canonical. Qed.

Theorem C10_refines_u32_lt :
  forall (H : list Z -> list Z) (x y : Z), 0 <= x < two32 -> 0 <= y < two32 -> refines H (u32_lt x y).
Proof. exact refines_u32_lt. Qed.

Theorem C10_refines_is_const_less_than :
  forall (H : list Z -> list Z) (w : nat) (c x : Z),
    (1 <= w <= 64)%nat -> 0 <= c < 2 ^ Z.of_nat w -> canon x ->
    refines H (is_const_less_than c x w).
Proof. exact refines_is_const_less_than. Qed.

Theorem C10_refines_enforce_target_less_than_const :
  forall (H : list Z -> list Z) (w : nat) (ub x : Z),
    (1 <= w <= 64)%nat -> 0 < ub -> ub - 1 < 2 ^ Z.of_nat w -> canon x ->
    refines H (enforce_target_less_than_const x ub w).
Proof. exact refines_enforce_target_less_than_const. Qed.

Theorem C10_refines_bytes_digest_eq :
  forall (H : list Z -> list Z) (a c : list Z), length a = 4%nat -> length c = 4%nat ->
    Forall canon a -> Forall canon c -> refines H (bytes_digest_eq a c).
Proof. exact refines_bytes_digest_eq. Qed.

Theorem C10_refines_halves8_lt :
  forall (H : list Z -> list Z) (lhs rhs : list Z), length lhs = length rhs ->
    Forall (fun v => 0 <= v < two32) lhs -> Forall (fun v => 0 <= v < two32) rhs ->
    refines H (halves8_lt lhs rhs).
Proof. exact refines_halves8_lt. Qed.

(* the honest values *)
Theorem C10_hon_is_const_less_than_narrow :
  forall (H : list Z -> list Z) (w : nat) (c x : Z),
    (1 <= w <= 63)%nat -> 0 <= c < 2 ^ Z.of_nat w -> canon x ->
    hon H (is_const_less_than c x w) = if x <? 2 ^ Z.of_nat w then Some (b2z (c <? x)) else None.
Proof. exact hon_is_const_less_than_narrow. Qed.

Theorem C10_hon_is_const_less_than_64 :
  forall (H : list Z -> list Z) (c x : Z), 0 <= c < two64 -> canon x ->
    hon H (is_const_less_than c x 64) = Some (b2z (c <? x)).
Proof. exact hon_is_const_less_than_64. Qed.

Theorem C10_hon_split_canonical :
  forall (H : list Z -> list Z) (x : Z), canon x ->
    hon H (split_canonical_u32_halves x) = Some (x mod two32, x / two32).
Proof. exact hon_split_canonical. Qed.

Theorem C10_hon_u32_lt :
  forall (H : list Z -> list Z) (x y : Z), 0 <= x < two32 -> 0 <= y < two32 ->
    hon H (u32_lt x y) = Some (b2z (x <? y)).
Proof. exact hon_u32_lt. Qed.

Theorem C10_hon_bytes_digest_eq :
  forall (H : list Z -> list Z) (a c : list Z), length a = 4%nat -> length c = 4%nat ->
    hon H (bytes_digest_eq a c) = Some (b2z (list_eqb a c)).
Proof. exact hon_bytes_digest_eq_4. Qed.

Theorem C10_hon_halves8_lt :
  forall (H : list Z -> list Z) (lhs rhs : list Z), length lhs = length rhs ->
    Forall (fun v => 0 <= v < two32) lhs -> Forall (fun v => 0 <= v < two32) rhs ->
    hon H (halves8_lt lhs rhs) = Some (b2z (lex_ltb lhs rhs)).
Proof. exact hon_halves8_lt. Qed.

(* corollaries, for the comparison gadget and the bounded-target check:
   two satisfying witnesses give the same output; if the honest witness fails, every witness fails *)
Theorem C10_unique_output :
  forall (H : list Z -> list Z) (w : nat) (c x a b : Z),
    (1 <= w <= 64)%nat -> 0 <= c < 2 ^ Z.of_nat w -> canon x ->
    rel H (is_const_less_than c x w) (fun o => o = a) ->
    rel H (is_const_less_than c x w) (fun o => o = b) -> a = b.
Proof. intros H w c x a b Hw Hc Hx. apply refines_unique. apply refines_is_const_less_than; assumption. Qed.

Theorem C10_honest_fails_all_fail :
  forall (H : list Z -> list Z) (w : nat) (c x : Z),
    (1 <= w <= 64)%nat -> 0 <= c < 2 ^ Z.of_nat w -> canon x ->
    hon H (is_const_less_than c x w) = None ->
    forall post, ~ rel H (is_const_less_than c x w) post.
Proof. intros H w c x Hw Hc Hx. apply refines_honest_fails. apply refines_is_const_less_than; assumption. Qed.

Theorem C10_enforce_honest_fails_all_fail :
  forall (H : list Z -> list Z) (w : nat) (ub x : Z),
    (1 <= w <= 64)%nat -> 0 < ub -> ub - 1 < 2 ^ Z.of_nat w -> canon x ->
    hon H (enforce_target_less_than_const x ub w) = None ->
    forall post, ~ rel H (enforce_target_less_than_const x ub w) post.
Proof. intros H w ub x Hw Hub Hf Hx. apply refines_honest_fails. apply refines_enforce_target_less_than_const; assumption. Qed.

Theorem C10_unique_output_split_canonical :
  forall (H : list Z -> list Z) (x : Z) (a b : Z * Z), canon x ->
    rel H (split_canonical_u32_halves x) (fun o => o = a) ->
    rel H (split_canonical_u32_halves x) (fun o => o = b) -> a = b.
Proof. intros H x a b Hx. apply refines_unique. apply refines_split_canonical; assumption. Qed.

Theorem C10_unique_output_halves8_lt :
  forall (H : list Z -> list Z) (lhs rhs : list Z) (a b : Z), length lhs = length rhs ->
    Forall (fun v => 0 <= v < two32) lhs -> Forall (fun v => 0 <= v < two32) rhs ->
    rel H (halves8_lt lhs rhs) (fun o => o = a) ->
    rel H (halves8_lt lhs rhs) (fun o => o = b) -> a = b.
Proof. intros H lhs rhs a b L Fl Fr. apply refines_unique. apply refines_halves8_lt; assumption. Qed.

Theorem C10_unique_output_bytes_digest_eq :
  forall (H : list Z -> list Z) (a c : list Z) (u v : Z), length a = 4%nat -> length c = 4%nat ->
    Forall canon a -> Forall canon c ->
    rel H (bytes_digest_eq a c) (fun o => o = u) ->
    rel H (bytes_digest_eq a c) (fun o => o = v) -> u = v.
Proof. intros H a c u v La Lc Fa Fc. apply refines_unique. apply refines_bytes_digest_eq; assumption. Qed.

(* the notion is not vacuous: the raw plonky2 split_low_high(x, 32, 64), without the wraparound
   exclusion of split_canonical_u32_halves, does NOT refine its honest generator for x < 2^32 - 1 *)
Theorem C10_raw_split64_has_witness_freedom :
  forall (H : list Z -> list Z) (x : Z), 0 <= x < two32 - 1 -> ~ refines H (split_low_high x 32 64).
Proof. exact split_low_high_64_not_refines. Qed.

(* ---------------- non-vacuity ---------------- *)
Definition H0 : list Z -> list Z := fun _ => [0; 0; 0; 0].

Example C10_nv_unique_hyps : forall H,
  rel H (is_const_less_than 16 17 5) (fun o => o = 1) /\ hon H (is_const_less_than 16 17 5) = Some 1.
Proof.
  intros H. split; [|reflexivity].
  apply rel_is_const_less_than_narrow; [lia|lia|unfold canon, p; lia|]. split; [lia|reflexivity].
Qed.
Example C10_nv_honest_fails : hon H0 (is_const_less_than 3 40 5) = None. Proof. vm_compute. reflexivity. Qed.
Example C10_nv_enforce_fails : hon H0 (enforce_target_less_than_const 17 17 5) = None. Proof. vm_compute. reflexivity. Qed.
Example C10_nv_split_pm1 : hon H0 (split_canonical_u32_halves (p - 1)) = Some (0, two32 - 1). Proof. vm_compute. reflexivity. Qed.
Example C10_nv_split_0 : hon H0 (split_canonical_u32_halves 0) = Some (0, 0). Proof. vm_compute. reflexivity. Qed.
Example C10_nv_u32_lt : hon H0 (u32_lt 5 (two32 - 1)) = Some 1 /\ hon H0 (u32_lt (two32 - 1) 5) = Some 0 /\ hon H0 (u32_lt 7 7) = Some 0.
Proof. vm_compute. split; [|split]; reflexivity. Qed.
Example C10_nv_digest_eq : hon H0 (bytes_digest_eq [1; 2; 3; p - 1] [1; 2; 3; p - 1]) = Some 1 /\
                           hon H0 (bytes_digest_eq [1; 2; 3; 4] [1; 2; 0; 4]) = Some 0.
Proof. vm_compute. split; reflexivity. Qed.
Example C10_nv_halves8 :
  hon H0 (halves8_lt [1; 2; 3; 4; 5; 6; 7; 8] [1; 2; 3; 4; 5; 6; 7; 9]) = Some 1 /\
  hon H0 (halves8_lt [1; 2; 3; 4; 5; 6; 7; 8] [1; 2; 3; 4; 5; 6; 7; 8]) = Some 0 /\
  hon H0 (halves8_lt [2; 0; 0; 0; 0; 0; 0; 0] [1; 9; 9; 9; 9; 9; 9; 9]) = Some 0.
Proof. vm_compute. split; [|split]; reflexivity. Qed.
