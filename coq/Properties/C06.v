(* C06 - The public output of the private-batch wrapper circuit.

   For N child (leaf) statements that are well formed (21 canonical felts, both output amounts below
   2^32 - what the leaf circuit guarantees), N dummy-nullifier preimages and a hash with 4 canonical
   output felts, EVERY witness satisfying the constraints of build_private_batch_constraints
   (wormhole/aggregator/src/private_batch/circuit/circuit_logic.rs:171) registers exactly the public
   inputs [priv_output H leaves us] (21 N + 8 felts):
     [0]            2 N                                  number of exit slots
     [1]            asset id of slot 0                   (= every slot's asset id, C07)
     [2], [3..7), [7]   fee, block hash, block number of the FIRST REAL (non-zero block hash) slot, zeros if none
     [8 .. 8+10N)   2N exit slots (sum, account[4]): Lean's groupExits (maskedChildPairs leaves)
     [8+10N .. 8+14N)   the N selected nullifiers (real: the child's; dummy: H (H preimage)), ascending
     [8+14N .. 21N+8)   7 N zeros

   Model: Circ/PrivateBatch.v (transcription, run against the real circuit by harness bin wrappers);
   specification: Spec/LeanPort.v (port of formal/WormholeSpec/Aggregation.lean); proofs:
   Circ/PrivateBatchProofs.v.  Semantics (Circ/Core.v): [rel H c post] = some (adversarial) witness
   satisfies every constraint of c and its output satisfies post. *)
From Coq Require Import Permutation Sorted.
From V.Base Require Import Common.
From V.Generated Require Import Constants.
From V.Circ Require Import Field Core Prims Gadgets SortNet Sorting PrivateBatch PrivateBatchProofs.
From V.Spec Require Import LeanPort.

Local Open Scope Z_scope.

(* ---------------------------------------------------------------- constants pinned to /repo *)
Lemma C06_pin_leaf_pi_len : PR_LEAF_PI_LEN = 21. Proof. reflexivity. Qed.
Lemma C06_pin_leaf_offsets :
  PR_ASSET_ID_START = 0 /\ PR_OUTPUT_AMOUNT_1_START = 1 /\ PR_OUTPUT_AMOUNT_2_START = 2 /\
  PR_VOLUME_FEE_BPS_START = 3 /\ PR_NULLIFIER_START = 4 /\ PR_EXIT_1_START = 8 /\ PR_EXIT_2_START = 12 /\
  PR_BLOCK_HASH_START = 16 /\ PR_BLOCK_NUMBER_START = 20.
Proof. repeat split; reflexivity. Qed.
Lemma C06_pin_out_header_len : PR_OUT_HEADER_LEN = 8. Proof. reflexivity. Qed.
Lemma C06_pin_out_exit_slot_len : PR_OUT_EXIT_SLOT_LEN = 5. Proof. reflexivity. Qed.
Lemma C06_pin_out_offsets :
  PR_OUT_NUM_EXIT_SLOTS_OFFSET = 0 /\ PR_OUT_ASSET_ID_OFFSET = 1 /\ PR_OUT_VOLUME_FEE_BPS_OFFSET = 2 /\
  PR_OUT_BLOCK_HASH_OFFSET = 3 /\ PR_OUT_BLOCK_NUMBER_OFFSET = 7.
Proof. repeat split; reflexivity. Qed.
Lemma C06_pin_max : MAX_PROOF_COUNT = 64. Proof. reflexivity. Qed.

(* ---------------------------------------------------------------- vocabulary, spelled out *)
Lemma C06_spec_leaf_wf q :
  leaf_wf q <-> (length q = 21%nat /\ Forall canon q /\ lf_out1 q < two32 /\ lf_out2 q < two32).
Proof. reflexivity. Qed.
Lemma C06_spec_dummy q : is_dummy_pb q = list_eqb (lf_bh q) [0; 0; 0; 0] /\ is_real_pb q = negb (is_dummy_pb q).
Proof. split; reflexivity. Qed.
Lemma C06_spec_masked q r :
  maskedChildPairs (q :: r) =
  (if is_dummy_pb q then ([0; 0; 0; 0], 0) else (lf_exit1 q, lf_out1 q)) ::
  (if is_dummy_pb q then ([0; 0; 0; 0], 0) else (lf_exit2 q, lf_out2 q)) :: maskedChildPairs r.
Proof. reflexivity. Qed.
Lemma C06_spec_matchSum k k' a' rest :
  matchSum k ((k', a') :: rest) = (if list_eqb k' k then a' else 0) + matchSum k rest.
Proof. reflexivity. Qed.
Lemma C06_spec_key_at xs k : key_at xs k = fst (nth k xs ([], 0)). Proof. reflexivity. Qed.
Lemma C06_spec_flat_slot s k : flat_slot (s, k) = s :: k. Proof. reflexivity. Qed.
Lemma C06_spec_selected H q r u ur :
  selected_nullifiers H (q :: r) (u :: ur) =
  (if is_dummy_pb q then H (H u) else lf_null q) :: selected_nullifiers H r ur.
Proof. reflexivity. Qed.
Lemma C06_spec_out_exit_slots n out : out_exit_slots n out = read_slots (2 * n) (skipn 8 out).
Proof. reflexivity. Qed.
Lemma C06_spec_read_slots n region :
  read_slots (S n) region = (nth 0 region 0, firstn 4 (skipn 1 region)) :: read_slots n (skipn 5 region).
Proof. reflexivity. Qed.

(* ---------------------------------------------------------------- the property *)
(* every satisfying witness registers exactly the specified public inputs *)
Theorem C06_private_batch_output : forall H,
  (forall l, length (H l) = 4%nat /\ Forall canon (H l)) ->
  forall leaves us, (1 <= length leaves <= 64)%nat -> Forall leaf_wf leaves -> length us = length leaves ->
  forall post, rel H (private_batch leaves us) post -> post (priv_output H leaves us).
Proof. exact private_batch_output. Qed.

(* ... and such a witness exists iff the batch is compatible (C07); the honest prover finds it *)
Theorem C06_private_batch_spec : forall H,
  (forall l, length (H l) = 4%nat /\ Forall canon (H l)) ->
  forall leaves us, (1 <= length leaves <= 64)%nat -> Forall leaf_wf leaves -> length us = length leaves ->
  forall post, rel H (private_batch leaves us) post <->
               priv_compat leaves = true /\ post (priv_output H leaves us).
Proof. exact private_batch_spec. Qed.
Theorem C06_private_batch_honest : forall H,
  (forall l, length (H l) = 4%nat /\ Forall canon (H l)) ->
  forall leaves us, (1 <= length leaves <= 64)%nat -> Forall leaf_wf leaves -> length us = length leaves ->
  hon H (private_batch leaves us) = if priv_compat leaves then Some (priv_output H leaves us) else None.
Proof. exact private_batch_hon. Qed.

Theorem C06_output_length : forall H,
  (forall l, length (H l) = 4%nat /\ Forall canon (H l)) ->
  forall leaves us, Forall leaf_wf leaves -> length us = length leaves ->
  length (priv_output H leaves us) = (21 * length leaves + 8)%nat.
Proof. exact output_length. Qed.

(* header: 2N, asset of slot 0, then fee / block hash / block number of the first real slot *)
Theorem C06_header : forall H leaves us, Forall leaf_wf leaves ->
  firstn 8 (priv_output H leaves us) =
  [2 * zlen leaves; lf_asset (nth 0 leaves [])] ++
  match find is_real_pb leaves with
  | Some q => [lf_fee q] ++ lf_bh q ++ [lf_bn q]
  | None => [0; 0; 0; 0; 0; 0]
  end.
Proof. exact output_header. Qed.
(* under the acceptance condition the asset id of slot 0 is every slot's asset id *)
Theorem C06_header_asset_is_common : forall leaves, priv_compat leaves = true ->
  Forall (fun q => lf_asset q = lf_asset (nth 0 leaves [])) leaves.
Proof. exact (fun leaves C => proj1 (proj1 (compat_spelled_out leaves) C)). Qed.

(* exit region: 2N slots of 5 felts *)
Theorem C06_exit_region : forall H leaves us, Forall leaf_wf leaves ->
  firstn (10 * length leaves) (skipn 8 (priv_output H leaves us)) =
  flat_map flat_slot (groupExits (maskedChildPairs leaves)).
Proof. exact output_exit_region. Qed.
Theorem C06_exit_slots_decoded : forall H leaves us, Forall leaf_wf leaves ->
  out_exit_slots (length leaves) (priv_output H leaves us) = groupExits (maskedChildPairs leaves).
Proof. exact output_exit_slots. Qed.
(* the first slot of an account carries the sum of ALL masked amounts of that account ... *)
Theorem C06_first_occurrence_carries_group_sum : forall xs k d, (k < length xs)%nat ->
  (forall j, (j < k)%nat -> key_at xs j <> key_at xs k) ->
  nth k (groupExits xs) d = (matchSum (key_at xs k) xs, key_at xs k).
Proof. exact groupExits_first. Qed.
(* ... every later slot of the same account is the all-zero slot *)
Theorem C06_later_occurrences_zeroed : forall xs k d, (k < length xs)%nat ->
  (exists j, (j < k)%nat /\ key_at xs j = key_at xs k) ->
  nth k (groupExits xs) d = (0, zero4).
Proof. exact groupExits_later. Qed.

(* nullifier region: the per-slot selections, in ascending digest order *)
Theorem C06_nullifier_region : forall H,
  (forall l, length (H l) = 4%nat /\ Forall canon (H l)) ->
  forall leaves us, Forall leaf_wf leaves -> length us = length leaves ->
  firstn (4 * length leaves) (skipn (8 + 10 * length leaves) (priv_output H leaves us)) =
    concat (sort_spec (selected_nullifiers H leaves us)) /\
  StronglySorted digest_le (sort_spec (selected_nullifiers H leaves us)) /\
  Permutation (sort_spec (selected_nullifiers H leaves us)) (selected_nullifiers H leaves us).
Proof. exact output_nullifier_region. Qed.

Theorem C06_padding : forall H,
  (forall l, length (H l) = 4%nat /\ Forall canon (H l)) ->
  forall leaves us, Forall leaf_wf leaves -> length us = length leaves ->
  skipn (8 + 14 * length leaves) (priv_output H leaves us) = repeat 0 (7 * length leaves).
Proof. exact output_padding. Qed.

(* ---------------------------------------------------------------- non-vacuity: a 3-slot batch
   (real, dummy with junk fields, real paying the same first account) and a concrete oracle *)
Example C06_ex_hypotheses :
  (forall l, length (H0 l) = 4%nat /\ Forall canon (H0 l)) /\ Forall leaf_wf ex_leaves /\
  length ex_us = length ex_leaves /\ priv_compat ex_leaves = true.
Proof. exact (conj H0_wf (conj ex_leaves_wf (conj eq_refl ex_compat))). Qed.
Example C06_ex_honest : hon H0 (private_batch ex_leaves ex_us) = Some (priv_output H0 ex_leaves ex_us).
Proof. exact ex_hon. Qed.
Example C06_ex_output :
  priv_output H0 ex_leaves ex_us =
  [6; 0; 5; 41; 42; 43; 44; 7] ++
  [40; 21; 22; 23; 24] ++ [20; 31; 32; 33; 34] ++ [0; 0; 0; 0; 0] ++ [0; 0; 0; 0; 0] ++ [0; 0; 0; 0; 0] ++
  [40; 51; 52; 53; 54] ++
  [11; 12; 13; 14] ++ [15; 16; 17; 18] ++ [19; 2; 3; 4] ++ repeat 0 21.
Proof. vm_compute. reflexivity. Qed.
