(* C01 - Every statement the leaf circuit can be satisfied for has asset id, input amount, both output
   amounts, block number and both transfer-count limbs below 2^32 and a fee of at most 10000 bps.
   Its outputs obey (out1 + out2) * 10000 <= in * (10000 - fee) over the integers, with no field
   wrap-around.  No witness, honest or adversarial, can satisfy the circuit otherwise.

   Model: V.Circ.Leaf (transcription of WormholeCircuit::new_internal and its fragments, in the order
   of the builder calls) over the circuit semantics of V.Circ.Core:
     [rel H c post] - some assignment of ALL hint wires (arbitrary field elements) satisfies every
                      constraint of [c] and its output satisfies [post]     (adversarial prover);
     [hon H c]      - what the honest witness generators produce ([None] = a constraint is violated).
   [i : LeafIn] assigns a value to every virtual target of CircuitTargets; [wf_in i] only says that
   these values are field elements and the vectors have their fixed lengths; [hash_wf H] only says that
   the hash returns 4 field elements.  No hypothesis distinguishes dummy statements: the ranges and
   the fee rule hold for them too.  All proofs are in V.Circ.LeafProofs. *)
From V.Base Require Import Common.
From V.Generated Require Import Constants.
From V.Circ Require Import Field Core Prims Gadgets Leaf LeafProofs.

Lemma C01_pin_p : p = FIELD_ORDER. Proof. reflexivity. Qed.

Theorem C01_leaf_ranges_and_fee :
  forall (H : list Z -> list Z) (i : LeafIn) (post : list Z -> Prop),
    hash_wf H -> wf_in i -> rel H (leaf_circuit i) post ->
    li_asset i < 2 ^ 32 /\ li_input_amount i < 2 ^ 32 /\ li_out1 i < 2 ^ 32 /\ li_out2 i < 2 ^ 32 /\
    li_block_number i < 2 ^ 32 /\ Forall (fun v => v < 2 ^ 32) (li_leaf_tc i) /\
    li_fee i <= 10000 /\
    (li_out1 i + li_out2 i) * 10000 <= li_input_amount i * (10000 - li_fee i).
Proof. intros H i post Hwf W. exact (leaf_ranges_and_fee H Hwf i W post). Qed.

(* the 21 public inputs are the statement: asset, out1, out2, fee, nullifier, exit1, exit2, block hash,
   block number, in this order - for every hash function and every assignment *)
Theorem C01_public_inputs_are_the_statement :
  forall (H : list Z -> list Z) (i : LeafIn) (post : list Z -> Prop),
    rel H (leaf_circuit i) post -> post (leaf_public_inputs i).
Proof. exact leaf_public_inputs_post. Qed.

Theorem C01_public_inputs_layout :
  forall i : LeafIn,
    leaf_public_inputs i = [li_asset i; li_out1 i; li_out2 i; li_fee i] ++ li_nullifier i ++ li_exit1 i
                           ++ li_exit2 i ++ li_block_hash i ++ [li_block_number i].
Proof. exact public_inputs_layout. Qed.

Theorem C01_public_inputs_length : forall i : LeafIn, wf_in i -> length (leaf_public_inputs i) = 21%nat.
Proof. exact public_inputs_length. Qed.

(* the exact set of satisfiable assignments: [leaf_ok] (of which the conjuncts above are a part) *)
Theorem C01_leaf_rel_iff :
  forall (H : list Z -> list Z) (i : LeafIn) (post : list Z -> Prop),
    hash_wf H -> wf_in i ->
    (rel H (leaf_circuit i) post <-> leaf_ok H i /\ post (leaf_public_inputs i)).
Proof. intros H i post Hwf W. exact (leaf_rel_iff H Hwf i W post). Qed.

(* the field-arithmetic core: the two range checks of the fee rule are the integer inequalities *)
Theorem C01_fee_rule_no_wraparound :
  forall fee inp o1 o2 : Z,
    0 <= fee < 4294967296 -> 0 <= inp < 4294967296 -> 0 <= o1 < 4294967296 -> 0 <= o2 < 4294967296 ->
    (fsub 10000 fee < 16384 /\
     fsub (fmul inp (fsub 10000 fee)) (fmul (fadd o1 o2) 10000) < 281474976710656)
    <-> (fee <= 10000 /\ (o1 + o2) * 10000 <= inp * (10000 - fee)).
Proof. exact fee_rule_arith. Qed.

(* ---------------- non-vacuity ---------------- *)
Example C01_nv_H0 : hash_wf H0. Proof. exact H0_wf. Qed.
Example C01_nv_wf : wf_in ex_real. Proof. apply wf_inb_sound. vm_compute. reflexivity. Qed.
(* (out1, out2, fee, in) = (40, 9, 10 bps, 50): 490000 <= 499500, accepted *)
Example C01_nv_accepted : hon H0 (leaf_circuit ex_real) = Some (leaf_public_inputs ex_real).
Proof. vm_compute. reflexivity. Qed.
Example C01_nv_rel : rel H0 (leaf_circuit ex_real) (fun o => o = leaf_public_inputs ex_real).
Proof. exact (leaf_sat H0 ex_real C01_nv_wf C01_nv_accepted). Qed.
(* fee 10001 bps, (45 + 9) * 10000 > 50 * 9990, out1 = 2^32: no witness at all *)
Example C01_nv_fee_over : forall post, ~ rel H0 (leaf_circuit ex_bad_fee) post.
Proof. apply leaf_unsat; [apply wf_inb_sound|]; vm_compute; reflexivity. Qed.
Example C01_nv_rule_violated : forall post, ~ rel H0 (leaf_circuit ex_bad_rule) post.
Proof. apply leaf_unsat; [apply wf_inb_sound|]; vm_compute; reflexivity. Qed.
Example C01_nv_out_of_range : forall post, ~ rel H0 (leaf_circuit ex_bad_range) post.
Proof. apply leaf_unsat; [apply wf_inb_sound|]; vm_compute; reflexivity. Qed.
